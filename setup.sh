#!/bin/bash
# Build the analyzer (one clang++ line, ~20 s) and warm the configure cache
# (cmake configure only, ~16 s). Offline; nothing is fetched.
set -e
cd "$(dirname "$0")"
python3 - <<'PY'
import sys
sys.path.insert(0, '.')
from verif import core
print("xa:", core.ensure_xa())
ents, gen = core.compdb()
print("compile database: %d units, generated headers in %s" % (len(ents), gen))
PY
