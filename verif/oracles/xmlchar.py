"""XML 1.0 (5th edition) and XML 1.1 (2nd edition) character classes, written
from the productions of the recommendations — independent of /repo.

The scanner's eight mask bits (XMLChar.hpp) are specified here as sets over the
BMP code units 0..0xFFFF (supplementary characters are handled by explicit
surrogate range tests in the accessors, checked separately).
"""


def _set(ranges):
    s = set()
    for r in ranges:
        if isinstance(r, int):
            s.add(r)
        else:
            s.update(range(r[0], r[1] + 1))
    return s


BMP = set(range(0x10000))

# [4] NameStartChar, identical in XML 1.0 5th ed. and XML 1.1
NAME_START = _set([ord(":"), (ord("A"), ord("Z")), ord("_"), (ord("a"), ord("z")),
                   (0xC0, 0xD6), (0xD8, 0xF6), (0xF8, 0x2FF), (0x370, 0x37D), (0x37F, 0x1FFF),
                   (0x200C, 0x200D), (0x2070, 0x218F), (0x2C00, 0x2FEF), (0x3001, 0xD7FF),
                   (0xF900, 0xFDCF), (0xFDF0, 0xFFFD)])
# [4a] NameChar
NAME_CHAR = NAME_START | _set([ord("-"), ord("."), (ord("0"), ord("9")), 0xB7, (0x300, 0x36F), (0x203F, 0x2040)])
NCNAME_CHAR = NAME_CHAR - {ord(":")}

# [3] S
S = {0x20, 0x9, 0xD, 0xA}

# XML 1.0 [2] Char (BMP part)
CHAR_10 = _set([0x9, 0xA, 0xD, (0x20, 0xD7FF), (0xE000, 0xFFFD)])
# XML 1.1 [2] Char, [2a] RestrictedChar
CHAR_11 = _set([(0x1, 0xD7FF), (0xE000, 0xFFFD)])
RESTRICTED_11 = _set([(0x1, 0x8), (0xB, 0xC), (0xE, 0x1F), (0x7F, 0x84), (0x86, 0x9F)])

NEL, LSEP = 0x85, 0x2028

# ---- derived scanner classes -------------------------------------------------
# "plain content": a character the content scanner may copy without looking at
# it: a legal document character that is not markup start ('<', '&'), not part
# of the "]]>" check (']'), and not subject to end-of-line handling (2.11).
# "special start tag": characters that terminate the fast name/attribute loops
# in a start tag: S, NUL (end of buffer), '/', '>', '<', quotes.
SPECIAL_START_TAG_EXTRA = {0x0, ord("/"), ord(">"), ord("<"), ord("'"), ord('"')}
# XML 1.1: the C0/C1 control block (minus NUL).  The scanner splits [2] Char
# into "literal" characters (Char minus [2a] RestrictedChar; isXMLChar) and
# "control" characters; a character reference is legal iff literal or control
# (so literal | control must equal Char), and the serializer escapes
# control minus whitespace (which must equal RestrictedChar).
CONTROL_11 = _set([(0x1, 0x1F), (0x7F, 0x9F)])


def expected(version):
    """returns {maskname: set of code units} for the given XML version."""
    if version == "1.0":
        char = CHAR_10
        ws = set(S)
        # in 1.0 every legal char is literal-legal
        plain = char - {0xD, 0xA, ord("<"), ord("&"), ord("]")}
        control = set()
    else:
        # XML 1.1 section 2.11: NEL and LSEP are line ends, translated to LF on
        # input; the reader does that translation when it meets a "whitespace"
        # character, hence both carry the whitespace bit in the 1.1 table.
        ws = S | {NEL, LSEP}
        # literal characters: Char minus RestrictedChar (2.2: restricted
        # characters may only appear as character references)
        control = set(CONTROL_11)
        char = CHAR_11 - RESTRICTED_11
        plain = char - {0xD, 0xA, NEL, LSEP, ord("<"), ord("&"), ord("]")}
    return {
        "gNCNameCharMask": NCNAME_CHAR,
        "gFirstNameCharMask": NAME_START,
        "gNameCharMask": NAME_CHAR,
        "gPlainContentCharMask": plain,
        "gSpecialStartTagCharMask": ws | SPECIAL_START_TAG_EXTRA,
        "gControlCharMask": control,
        "gXMLCharMask": char,
        "gWhitespaceCharMask": ws,
    }
