"""XML Schema Part 2 (Datatypes) §3.3 / §3.2: the derived built-in types that the factory constructs from other
built-ins, with their base type, variety and value-space facets.  Transcribed from the recommendation."""
# name: (base, is_list, {facet: value})   — pattern facets are listed by presence only ("pattern": True)
DERIVED = {
    "normalizedString": ("string", False, {"whiteSpace": "replace"}),
    "token": ("normalizedString", False, {"whiteSpace": "collapse"}),
    "language": ("token", False, {"pattern": True}),
    "NMTOKEN": ("token", False, {"pattern": True}),
    "NMTOKENS": ("NMTOKEN", True, {"minLength": "1"}),
    "IDREFS": ("IDREF", True, {"minLength": "1"}),
    "ENTITIES": ("ENTITY", True, {"minLength": "1"}),
    "integer": ("decimal", False, {"fractionDigits": "0"}),
    "nonPositiveInteger": ("integer", False, {"maxInclusive": "0"}),
    "negativeInteger": ("nonPositiveInteger", False, {"maxInclusive": "-1"}),
    "long": ("integer", False, {"maxInclusive": "9223372036854775807", "minInclusive": "-9223372036854775808"}),
    "int": ("long", False, {"maxInclusive": "2147483647", "minInclusive": "-2147483648"}),
    "short": ("int", False, {"maxInclusive": "32767", "minInclusive": "-32768"}),
    "byte": ("short", False, {"maxInclusive": "127", "minInclusive": "-128"}),
    "nonNegativeInteger": ("integer", False, {"minInclusive": "0"}),
    "unsignedLong": ("nonNegativeInteger", False, {"maxInclusive": "18446744073709551615"}),
    "unsignedInt": ("unsignedLong", False, {"maxInclusive": "4294967295"}),
    "unsignedShort": ("unsignedInt", False, {"maxInclusive": "65535"}),
    "unsignedByte": ("unsignedShort", False, {"maxInclusive": "255"}),
    "positiveInteger": ("nonNegativeInteger", False, {"minInclusive": "1"}),
}
# types constructed directly with `new XDatatypeValidator(base ...)`: name -> base
DIRECT = {"Name": "token", "NCName": "Name", "ID": "NCName", "IDREF": "NCName", "ENTITY": "NCName"}
PRIMITIVES = ["string", "boolean", "decimal", "float", "double", "duration", "dateTime", "time", "date", "gYearMonth", "gYear",
              "gMonthDay", "gDay", "gMonth", "hexBinary", "base64Binary", "anyURI", "QName", "NOTATION", "anySimpleType"]
