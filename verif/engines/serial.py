"""SERIAL — store/load wire-program equality (DESIGN.md §4 C16).

For a function that talks to an XSerializeEngine the *wire program* of one side
(storing / loading) is the tree of wire operations it performs, in order:

  ("op", kind, type, field, line)   one engine operation
  ("loop", [items], line)           operations repeated under a loop
  ("alt", [[items]...], line)       alternatives under if/else or switch

kind/type come from the *resolved* overload (operator<<(int) pairs with
operator>>(int&), writeString with readString of the matching arity, ...).
The two sides of one class must be equal as trees; `field` (the member the
value comes from / goes to) must agree where it is known on both sides.
"""
from ..core import AnalysisBroken, sx_walk

ENG = "XSerializeEngine"

# store kind -> load kind
PAIR = {
    "<<": ">>", "writeSize": "readSize", "writeString1": "readString1", "writeStringN": "readStringN",
    "write": "read", "writeUInt64": "readUInt64", "writeInt64": "readInt64",
    "obj<<": "obj>>", "storeDV": "loadDV", "storeObject": "loadObject", "ser": "ser", "call": "call", "writeobj": "readobj",
}
LOADKINDS = set(PAIR.values())


def _norm_type(t):
    import re
    t = re.sub(r"\bconst\b", "", t).replace("&", "")
    t = re.sub(r"\s*\*\s*", " *", t)
    return " ".join(t.split())


def _params(sig):
    # "(a,b,c)const" -> [a,b,c]   (template commas are rare in these signatures; handle <> nesting)
    s = sig[sig.index("(") + 1: sig.rindex(")")]
    out, depth, cur = [], 0, ""
    for ch in s:
        if ch == "<":
            depth += 1
        elif ch == ">":
            depth -= 1
        if ch == "," and depth == 0:
            out.append(cur)
            cur = ""
        else:
            cur += ch
    if cur:
        out.append(cur)
    return out


def _is_eng(x):
    """expression denotes the engine (parameter / reference / chained operator result)."""
    if not isinstance(x, list) or not x:
        return False
    if x[0] in ("p", "l") and ("serEng" in (x[2] if x[0] == "p" else x[1]) or "Eng" in (x[2] if x[0] == "p" else x[1])):
        return True
    if x[0] == "c" and x[1].split("::")[-1] in ("operator<<", "operator>>") and (
            _is_eng(x[2]) or (x[3] and _is_eng(x[3][0]))):
        return True
    return False


def _first_field(x):
    for s in sx_walk(x):
        if s[0] == "f":
            return s[1].split("::")[-1]
    return None


def _first_local(x):
    for s in sx_walk(x):
        if s[0] == "l":
            return s[1]
    return None


class Extractor:
    def __init__(self, sts, own_cls, pending=None):
        self.sts = sts          # q -> [st facts]
        self.own = own_cls
        self.pending = {} if pending is None else pending   # local name -> op awaiting its field

    # ---- expression: ops in evaluation order
    def ops_expr(self, x, side, out, line, depth=0):
        if not isinstance(x, list) or not x:
            return
        t = x[0]
        if t == "b" and x[1] == "=" and isinstance(x[2], list) and x[2] and x[2][0] == "f":
            # field = f(local): resolves the field of a pending read into that local
            self.ops_expr(x[3], side, out, line, depth)
            r = x[3]
            while isinstance(r, list) and r and r[0] == "cast":
                r = r[2]
            if isinstance(r, list) and r and r[0] == "l" and r[1] in self.pending:
                # direct (possibly cast) assignment only: anything computed from the local is not "the" field
                op = self.pending.pop(r[1])
                op[3] = x[2][1].split("::")[-1]
            else:
                for y in sx_walk(x[3]):
                    if y[0] == "l" and y[1] in self.pending:
                        self.pending.pop(y[1])
            return
        if t == "c" and x[2] == ["this"] and x[1].split("::")[-1].startswith("set") and not any(_is_eng(a) for a in x[3]):
            for a in x[3]:
                for y in sx_walk(a):
                    if y[0] == "l" and y[1] in self.pending:
                        op = self.pending.pop(y[1])
                        op[3] = "via:" + x[1].split("::")[-1]
        if t == "c":
            name = x[1]
            short = name.split("::")[-1]
            recv, args, sig = x[2], x[3], (x[4] if len(x) > 4 else "")
            # chained receiver first
            if recv is not None:
                self.ops_expr(recv, side, out, line, depth)
            is_engine_member = name.startswith(ENG + "::")
            free_op = short in ("operator<<", "operator>>") and not is_engine_member and args and _is_eng(args[0])
            if free_op:
                # template pointer (de)serialisation
                self.ops_expr(args[0], side, out, line, depth)
                ps = _params(sig)
                ty = _norm_type(ps[1]) if len(ps) > 1 else "?"
                kind = "obj<<" if short == "operator<<" else "obj>>"
                out.append(self._mk("op", kind, ty, self._field(args[1], kind), line, args[1]))
                return
            for a in args:
                if not (is_engine_member and _is_eng(a)):
                    self.ops_expr(a, side, out, line, depth)
            if is_engine_member and recv is not None and _is_eng(recv):
                ps = _params(sig)
                if short in ("operator<<", "operator>>"):
                    kind = "<<" if short == "operator<<" else ">>"
                    out.append(self._mk("op", kind, _norm_type(ps[0]) if ps else "?", self._field(args[0], kind), line, args[0]))
                elif short in ("writeString", "readString"):
                    nexp = len([a for a in args if not (isinstance(a, list) and a and a[0] == "def")])
                    kind = short + ("1" if nexp == 1 else "N")
                    out.append(self._mk("op", kind, _norm_type(ps[0]), self._field(args[0], kind), line, args[0]))
                elif short in ("writeSize", "readSize", "writeUInt64", "readUInt64", "writeInt64", "readInt64"):
                    out.append(self._mk("op", short, "", self._field(args[0], short), line, args[0]))
                elif short in ("write", "read"):
                    if len(ps) == 1:
                        kind = "writeobj" if short == "write" else "readobj"
                        out.append(self._mk("op", kind, "", self._field(args[0], kind), line, args[0]))
                    else:
                        out.append(self._mk("op", short, _norm_type(ps[0]), self._field(args[0], short), line, args[0]))
                elif short in ("isStoring", "isLoading", "getMemoryManager", "getGrammarPool", "getStringPool",
                               "needToLoadObject", "needToStoreObject", "registerObject", "trace", "flush", "getBufCur",
                               "getBufCount", "getBufSize", "getStorerLevel", "fillBuffer", "lookupStorePool", "lookupLoadPool",
                               "addStorePool", "addLoadPool", "getBufCurAccumulated"):
                    pass
                else:
                    out.append(self._mk("op", "?" + short, "", None, line, None))
                return
            if any(_is_eng(a) for a in args):
                if short in ("storeDV", "loadDV"):
                    out.append(self._mk("op", short, "", self._field(args[-1], short) if short == "storeDV" else None, line, None))
                elif short in ("storeObject", "loadObject"):
                    ps = _params(sig)
                    ty = _norm_type(ps[0]).replace("* *", "*").replace("**", "*").strip()
                    out.append(self._mk("op", short, ty, self._field(args[0], short), line, args[0]))
                elif short == "serialize":
                    # nested object or (qualified) base call
                    cls = name.rsplit("::", 1)[0]
                    if recv == ["this"] and cls != self.own:
                        sub = self.tree_of(cls + "::serialize", side, depth + 1)
                        if sub is None:
                            out.append(self._mk("op", "ser", cls, None, line, None))
                        else:
                            out.extend(sub)
                    else:
                        out.append(self._mk("op", "ser", cls, _first_field(recv) if recv else None, line, recv))
                elif short in ("storeBaseDV", "loadBaseDV"):
                    out.append(self._mk("op", short.replace("Base", ""), "", None, line, None))
                else:
                    # helper taking the engine: inline if we have it
                    sub = self.tree_of(name, side, depth + 1)
                    if sub is None:
                        import re as _re
                        nm = _re.sub(r"^(store|write)", "S:", short)
                        nm = _re.sub(r"^(load|read)", "S:", nm)
                        out.append(self._mk("op", "call", nm, None, line, None))
                    else:
                        out.extend(sub)
            return
        for y in x[1:]:
            if isinstance(y, list):
                if y and isinstance(y[0], list):
                    for z in y:
                        self.ops_expr(z, side, out, line, depth)
                else:
                    self.ops_expr(y, side, out, line, depth)

    def _mk(self, *t):
        op = list(t)
        if op[1] in LOADKINDS and isinstance(op[3], str) and op[3].startswith("local:"):
            self.pending[op[3][6:]] = op
            op[3] = None
        elif isinstance(op[3], str) and op[3].startswith("local:"):
            op[3] = None
        return op

    def _field(self, arg, kind):
        if arg is None:
            return None
        a = arg
        while isinstance(a, list) and a and a[0] in ("cast",):
            a = a[2]
        if isinstance(a, list) and a and a[0] == "u" and a[1] in ("&", "*"):
            a = a[2]
        if isinstance(a, list) and a:
            if a[0] == "f":
                return a[1].split("::")[-1]
            if a[0] == "l":
                return "local:" + a[1]
        ff = _first_field(arg)
        return ff

    # ---- statements
    def items(self, s, side, depth=0):
        out = []
        if s is None:
            return out
        t = s[0]
        if t == "block":
            for c in s[1]:
                out.extend(self.items(c, side, depth))
        elif t == "expr":
            self.ops_expr(s[1], side, out, s[2], depth)
        elif t == "decl":
            for name, ty, init, cap in s[1]:
                if init is not None:
                    self.ops_expr(init, side, out, s[2], depth)
        elif t == "return":
            if s[1] is not None:
                self.ops_expr(s[1], side, out, s[2], depth)
        elif t == "if":
            cond = s[1]
            sto = self._storing_cond(cond)
            if sto is not None:
                take_then = (sto == (side == "store"))
                out.extend(self.items(s[2] if take_then else s[3], side, depth))
            else:
                self.ops_expr(cond, side, out, s[4] if len(s) > 4 else 0, depth)
                a = self.items(s[2], side, depth)
                b = self.items(s[3], side, depth)
                if a or b:
                    out.append(("alt", [a, b], s[4] if len(s) > 4 else 0))
        elif t in ("while", "do"):
            self.ops_expr(s[1], side, out, s[3], depth)
            b = self.items(s[2], side, depth)
            if b:
                out.append(("loop", b, s[3]))
        elif t == "for":
            out.extend(self.items(s[1], side, depth))
            b = self.items(s[4], side, depth)
            if b:
                out.append(("loop", b, s[5]))
        elif t == "switch":
            alts = []
            body = s[2]
            cur = None
            stmts = body[1] if body and body[0] == "block" else [body]
            for c in stmts:
                if c and c[0] in ("case", "default"):
                    if cur is not None:
                        alts.append(cur)
                    cur = []
                    inner = c[2] if c[0] == "case" else c[1]
                    while inner and inner[0] in ("case", "default"):
                        inner = inner[2] if inner[0] == "case" else inner[1]
                    cur.extend(self.items(inner, side, depth))
                elif cur is not None:
                    cur.extend(self.items(c, side, depth))
            if cur is not None:
                alts.append(cur)
            has_default = any(c and c[0] == "default" for c in stmts) or any(
                c and c[0] == "case" and self._has_default(c) for c in stmts)
            if not has_default:
                alts.append([])     # no label matches: nothing is read or written
            if any(alts):
                out.append(("alt", alts, s[3], "switch"))
        elif t == "try":
            out.extend(self.items(s[1], side, depth))
        elif t in ("case", "default"):
            out.extend(self.items(s[2] if t == "case" else s[1], side, depth))
        return out

    @staticmethod
    def _has_default(c):
        while c and c[0] in ("case", "default"):
            if c[0] == "default":
                return True
            c = c[2]
        return False

    @staticmethod
    def _storing_cond(c):
        if not isinstance(c, list) or not c:
            return None
        if c[0] == "c" and c[1] == ENG + "::isStoring":
            return True
        if c[0] == "c" and c[1] == ENG + "::isLoading":
            return False
        if c[0] == "u" and c[1] == "!":
            v = Extractor._storing_cond(c[2])
            return None if v is None else (not v)
        return None

    def tree_of(self, q, side, depth=0):
        if depth > 4:
            return None
        c = self.sts.get(q)
        if not c:
            return None
        sub = Extractor(self.sts, q.rsplit("::", 1)[0], self.pending)
        return sub.items(c[0]["body"], side, depth)


def local_map(body):
    """local name -> field first assigned from an expression mentioning that local."""
    m = {}

    def walk(s):
        if not isinstance(s, list) or not s:
            return
        if s[0] == "expr":
            x = s[1]
            if x and x[0] == "b" and x[1] == "=" and x[2] and x[2][0] == "f":
                for y in sx_walk(x[3]):
                    if y[0] == "l":
                        m.setdefault(y[1], x[2][1].split("::")[-1])
            # setter calls on this
            if x and x[0] == "c" and x[2] == ["this"] and x[1].split("::")[-1].startswith("set"):
                for a in x[3]:
                    for y in sx_walk(a):
                        if y[0] == "l":
                            m.setdefault(y[1], "via:" + x[1].split("::")[-1])
        for y in s[1:]:
            if isinstance(y, list):
                if y and isinstance(y[0], list):
                    for z in y:
                        walk(z)
                else:
                    walk(y)
    walk(body)
    return m


def _same_op(a, b):
    return a[0] == "op" and b[0] == "op" and a[1] == b[1] and a[2] == b[2]


def strip(items):
    """drop the raw argument expression (kept only for diagnostics) and normalise:
    an operation that starts *every* alternative of an alt (the tag / presence flag
    written first in each branch) is hoisted in front of it, so that
    `if (p) { <<1; <<p } else <<0`  and  `>>b; if (b) >>p`  have the same shape."""
    out = []
    for it in items:
        if it[0] == "op":
            out.append(tuple(it[:5]))
        elif it[0] == "loop":
            out.append(("loop", strip(it[1]), it[2]))
        else:
            alts = [strip(a) for a in it[1]]
            while len(alts) >= 2 and all(a for a in alts) and all(_same_op(a[0], alts[0][0]) for a in alts[1:]):
                h = alts[0][0]
                out.append((h[0], h[1], h[2], None, h[4]))
                alts = [a[1:] for a in alts]
            if any(alts):
                # alternatives that differ only in the concrete class of an object read are one alternative
                # (store side writes the XSerializable* polymorphically, load side dispatches on a tag)
                seen, ded = [], []
                for a in alts:
                    k = _shape(a)
                    if k not in seen:
                        seen.append(k)
                        ded.append(a)
                if len(ded) == 1:
                    out.extend(ded[0])
                else:
                    out.append(("alt", ded, it[2], it[3] if len(it) > 3 else "if"))
    return out


def _shape(items):
    r = []
    for it in items:
        if it[0] == "op":
            r.append(("op", it[1], "" if it[1].startswith("obj") else it[2]))
        elif it[0] == "loop":
            r.append(("loop", _shape(it[1])))
        else:
            r.append(("alt", tuple(_shape(a) for a in it[1])))
    return tuple(r)


def compare(st, ld, alias, path, diffs, fields=True):
    """structural comparison; appends human readable differences."""
    st, ld = list(st), list(ld)
    i = -1
    while True:
        i += 1
        if i >= max(len(st), len(ld)):
            break
        a = st[i] if i < len(st) else None
        b = ld[i] if i < len(ld) else None
        where = "%s[%d]" % (path, i)
        # a load-side dispatch `switch (tag) { case K: read X; ... default: nothing }` on a tag that is not part of
        # this stream position (decided by the caller) pairs with an unconditional store of X
        if a is not None and b is not None and a[0] != "alt" and b[0] == "alt" and len(b) > 3 and b[3] == "switch":
            ne = [x for x in b[1] if x]
            if len(ne) == 1:
                ld[i:i + 1] = ne[0]
                i -= 1
                continue
        if a is None:
            diffs.append("%s: load side has an extra %s with no stored counterpart" % (where, show(b)))
            return
        if b is None:
            diffs.append("%s: store side writes %s that is never read" % (where, show(a)))
            return
        if a[0] != b[0]:
            diffs.append("%s: store %s vs load %s" % (where, show(a), show(b)))
            return
        if a[0] == "op":
            want = PAIR.get(a[1])
            if want != b[1]:
                diffs.append("%s: store %s is read back as %s" % (where, show(a), show(b)))
                return
            if a[1] in ("<<", "write", "storeObject", "call") and a[2] != b[2]:
                diffs.append("%s: written as %s, read as %s (lines %s/%s)" % (where, a[2], b[2], a[4], b[4]))
                return
            if a[1] == "ser" and a[2] != b[2]:
                diffs.append("%s: nested %s vs %s" % (where, a[2], b[2]))
                return
            if fields:
                fa, fb = a[3], b[3]
                if fa and fb and not fb.startswith("via:") and fa != fb and alias.get((path.split("[")[0].split(".")[0], fa)) != fb:
                    diffs.append("%s: value of %s is stored (line %s) where %s is loaded (line %s)" % (where, fa, a[4], fb, b[4]))
        elif a[0] == "loop":
            compare(a[1], b[1], alias, where + ".loop", diffs, fields)
        else:
            aa, bb = a[1], b[1]
            # alternatives are matched as a multiset: try the given order, then the swapped order for two-way alts
            d1 = []
            _cmp_alts(aa, bb, alias, where, d1, fields)
            if d1 and len(aa) == 2 and len(bb) == 2:
                d2 = []
                _cmp_alts(aa, [bb[1], bb[0]], alias, where, d2, fields)
                if not d2:
                    d1 = []
            diffs.extend(d1)
        if diffs:
            return


def _cmp_alts(aa, bb, alias, where, diffs, fields):
    aa = [x for x in aa if x]
    bb = [x for x in bb if x]
    if len(aa) != len(bb):
        diffs.append("%s: %d stored alternatives vs %d loaded alternatives" % (where, len(aa), len(bb)))
        return
    for k, (x, y) in enumerate(zip(aa, bb)):
        compare(x, y, alias, "%s.alt%d" % (where, k), diffs, fields)
        if diffs:
            return


def show(it):
    if it is None:
        return "nothing"
    if it[0] == "op":
        return "%s(%s)%s@%s" % (it[1], it[2], (" " + it[3]) if it[3] else "", it[4])
    if it[0] == "loop":
        return "loop{%s}@%s" % (", ".join(show(x) for x in it[1][:3]), it[2])
    return "alt{%s}@%s" % (" | ".join(",".join(show(x) for x in a[:2]) for a in it[1][:3]), it[2])


def count_ops(items):
    n = 0
    for it in items:
        if it[0] == "op":
            n += 1
        elif it[0] == "loop":
            n += count_ops(it[1])
        else:
            n += sum(count_ops(a) for a in it[1])
    return n
