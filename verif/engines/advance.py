"""ADVANCE — consumed-bytes accounting of a decoding loop, by path-exhaustive abstract interpretation.

One round of a transcoder's decoding loop reads a multi-byte sequence through a source pointer, may store output
characters, and records per output character how many source bytes it stands for (`*sizePtr++ = n`).  The callers
(XMLReader's refill, line/column bookkeeping, bytesEaten) rely on the invariant

    at every way out of a round — falling through to the next round, `break`, `continue` — the source pointer has
    advanced by exactly the sum of the sizes recorded in that round (in particular by 0 when nothing was stored)

so that bytesEaten always lands on a character boundary and no byte is counted as eaten without being decoded or
reported.  The statement tree of the round is interpreted for every sequence length (a small finite domain); data-
dependent conditions fork, throwing paths end; pointer moves and recorded sizes are then concrete integers.  This
is a dataflow analysis of the source over all paths of one loop round, not an execution: no input bytes exist.
"""
import copy

from ..core import AnalysisBroken

TOP = "?"


class Unmodelled(AnalysisBroken):
    pass


class _Throw(Exception):
    pass


class State:
    def __init__(self, env):
        self.v = dict(env)
        self.sizes = []
        self.outs = 0
        self.trace = []
        self.events = []      # filled by call hooks

    def fork(self):
        return copy.deepcopy(self)


class Interp:
    def __init__(self, ptr=None, size_ptr=None, out_ptr=None, call_hook=None):
        self.ptr, self.size_ptr, self.out_ptr = ptr, size_ptr, out_ptr
        self.call_hook = call_hook      # call_hook(x, state, interp) -> value, or NotImplemented for the default

    # ---------------------------------------------------------------- expressions
    def ev(self, x, st):
        if x is None:
            return TOP
        t = x[0]
        if t == "i":
            return x[1]
        if t == "e":
            return x[2]
        if t == "l":
            return st.v.get(x[1], TOP)
        if t == "g":
            return st.v.get("g:" + x[1], TOP)
        if t == "f":
            return st.v.get("f:" + x[1], TOP) if len(x) == 2 else TOP
        if t == "p":
            return st.v.get("p:" + x[2], TOP)
        if t in ("s", "this", "def"):
            return TOP
        if t == "cast":
            return self.ev(x[2], st)
        if t == "x":
            if x[1][0] == "f" and len(x[1]) == 2 and ("arr:" + x[1][1]) in st.v:
                i = self.ev(x[2], st)
                return st.v["arr:" + x[1][1]](i, st) if i != TOP else TOP
            self.ev(x[1], st)
            self.ev(x[2], st)
            return TOP
        if t == "u":
            op = x[1]
            if op in ("++post", "++pre", "--post", "--pre"):
                tgt = x[2]
                if tgt[0] == "f" and len(tgt) == 2:
                    key = "f:" + tgt[1]
                elif tgt[0] == "l":
                    key = tgt[1]
                else:
                    self.ev(tgt, st)
                    return TOP
                old = st.v.get(key, TOP)
                new = TOP if old == TOP else old + (1 if op[0] == "+" else -1)
                st.v[key] = new
                return old if op.endswith("post") else new
            v = self.ev(x[2], st)
            if op == "*":
                return TOP
            if v == TOP:
                return TOP
            if op == "!":
                return 0 if v else 1
            if op == "-":
                return -v
            if op == "~":
                return ~v
            return TOP
        if t == "b":
            op = x[1]
            if op == "=":
                return self.assign(x[2], self.ev(x[3], st), st)
            if op in ("+=", "-=", "*=", "<<=", ">>=", "|=", "&=", "^="):
                tgt = x[2]
                key = tgt[1] if tgt[0] == "l" else ("f:" + tgt[1] if (tgt[0] == "f" and len(tgt) == 2) else ("p:" + tgt[2] if tgt[0] == "p" else None))
                cur = st.v.get(key, TOP) if key else TOP
                r = self.ev(x[3], st)
                nv = self.arith(op[:-1], cur, r)
                if key:
                    st.v[key] = nv
                else:
                    self.ev(tgt, st)
                return nv
            if op in ("&&", "||"):
                a = self.ev(x[2], st)
                if a != TOP:
                    if op == "&&" and not a:
                        return 0
                    if op == "||" and a:
                        return 1
                    b = self.ev(x[3], st)
                    return TOP if b == TOP else (1 if b else 0)
                if self.has_effect(x[3]):
                    raise Unmodelled("side effect in the right operand of %s under an unknown left operand" % op)
                return TOP
            a = self.ev(x[2], st)
            b = self.ev(x[3], st)
            return self.arith(op, a, b)
        if t == "?":
            c = self.ev(x[1], st)
            if c == TOP:
                if self.has_effect(x[2]) or self.has_effect(x[3]):
                    raise Unmodelled("side effect inside a conditional expression with unknown condition")
                return TOP
            return self.ev(x[2] if c else x[3], st)
        if t == "c":
            if self.call_hook:
                r = self.call_hook(x, st, self)
                if r is not NotImplemented:
                    return r
            if x[2]:
                self.ev(x[2], st)
            for a in x[3]:
                self.ev(a, st)
            return TOP
        if t in ("k", "n", "il"):
            return TOP
        if t == "t":
            raise _Throw()
        return TOP

    def has_effect(self, x):
        if not isinstance(x, list) or not x:
            return False
        if x[0] == "u" and isinstance(x[1], str) and (x[1].startswith("++") or x[1].startswith("--")):
            return True
        if x[0] == "b" and isinstance(x[1], str) and x[1].endswith("=") and x[1] not in ("==", "!=", "<=", ">="):
            return True
        return any(self.has_effect(c) for c in x[1:] if isinstance(c, list))

    def arith(self, op, a, b):
        if a == TOP or b == TOP:
            return TOP
        try:
            return {"+": a + b, "-": a - b, "*": a * b, "<<": a << b if 0 <= b < 64 else TOP, ">>": a >> b if 0 <= b < 64 else TOP,
                    "&": a & b, "|": a | b, "^": a ^ b, "==": int(a == b), "!=": int(a != b), "<": int(a < b),
                    "<=": int(a <= b), ">": int(a > b), ">=": int(a >= b)}[op]
        except KeyError:
            return TOP

    def assign(self, lhs, v, st):
        while lhs[0] == "cast":
            lhs = lhs[2]
        if lhs[0] == "l":
            st.v[lhs[1]] = v
            return v
        if lhs[0] == "f" and len(lhs) == 2:
            st.v["f:" + lhs[1]] = v
            return v
        if lhs[0] == "p":
            st.v["p:" + lhs[2]] = v
            return v
        if lhs[0] == "u" and lhs[1] == "*":
            inner = lhs[2]
            if inner[0] == "u" and inner[1] == "++post" and inner[2][0] == "l":
                p = inner[2][1]
                if p == self.size_ptr:
                    st.sizes.append(v)
                elif p == self.out_ptr:
                    st.outs += 1
                self.ev(inner, st)
                return v
            self.ev(inner, st)
            return v
        self.ev(lhs, st)
        return v

    # ---------------------------------------------------------------- statements
    def run_list(self, stmts, st):
        """yields (kind, state) with kind in next/break/continue/return; throwing paths are dropped."""
        if not stmts:
            yield "next", st
            return
        head, rest = stmts[0], stmts[1:]
        for kind, s2 in self.run(head, st):
            if kind == "next":
                yield from self.run_list(rest, s2)
            else:
                yield kind, s2

    def run(self, s, st):
        """a throw ends only the path on which it is evaluated (expressions are evaluated outside the generators'
        delegation, so an exception never unwinds through a pending alternative)."""
        if s is None:
            yield "next", st
            return
        t = s[0]
        if t == "block":
            yield from self.run_list(list(s[1]), st)
        elif t == "expr":
            try:
                self.ev(s[1], st)
            except _Throw:
                return
            yield "next", st
        elif t == "decl":
            try:
                for name, _ty, init, _n in s[1]:
                    st.v[name] = self.ev(init, st) if init is not None else TOP
            except _Throw:
                return
            yield "next", st
        elif t == "if":
            try:
                c = self.ev(s[1], st)
            except _Throw:
                return
            line = s[-1] if isinstance(s[-1], int) else 0
            if c == TOP:
                a, b = st, st.fork()
                a.trace.append((line, True))
                b.trace.append((line, False))
                yield from self.run(s[2], a)
                yield from self.run(s[3], b)
            else:
                st.trace.append((line, bool(c)))
                yield from self.run(s[2] if c else s[3], st)
        elif t == "switch":
            yield from self.run_switch(s, st)
        elif t == "while":
            # only loops whose condition is concrete in the current state (bounded unrolling)
            yield from self.run_while(s, st, 0)
        elif t == "return":
            if len(s) > 1 and isinstance(s[1], list):
                try:
                    st.v["__ret"] = self.ev(s[1], st)
                except _Throw:
                    return
            yield t, st
        elif t in ("break", "continue"):
            yield t, st
        elif t == "null":
            yield "next", st
        else:
            raise Unmodelled("statement kind %s in the decoding round" % t)

    def run_while(self, s, st, depth):
        if depth > 64:
            raise Unmodelled("loop does not terminate within 64 rounds in the abstract run")
        try:
            c = self.ev(s[1], st)
        except _Throw:
            return
        if c == TOP:
            raise Unmodelled("while condition is not concrete in the abstract run")
        if not c:
            yield "next", st
            return
        for kind, s2 in self.run(s[2], st):
            if kind in ("next", "continue"):
                yield from self.run_while(s, s2, depth + 1)
            elif kind == "break":
                yield "next", s2
            else:
                yield kind, s2

    def run_switch(self, s, st):
        try:
            c = self.ev(s[1], st)
        except _Throw:
            return
        body = s[2]
        flat = []     # ("label", value|None) or statement

        def add(n):
            if n is None:
                return
            if n[0] == "case":
                flat.append(("label", n[1]))
                for sub in n[2:]:
                    if isinstance(sub, list):
                        add(sub)
            elif n[0] == "default":
                flat.append(("label", None))
                for sub in n[1:]:
                    if isinstance(sub, list):
                        add(sub)
            else:
                flat.append(n)
        if body[0] != "block":
            raise Unmodelled("switch body is not a block")
        for n in body[1]:
            add(n)
        labels = [(i, f[1]) for i, f in enumerate(flat) if isinstance(f, tuple)]
        starts = []
        if c == TOP:
            starts = [i for i, _ in labels]
        else:
            m = [i for i, v in labels if v is not None and self.ev(v, st) == c]
            d = [i for i, v in labels if v is None]
            starts = m[:1] or d[:1]
            if not starts:
                yield "next", st
                return
        for k, i0 in enumerate(starts):
            s0 = st if k == len(starts) - 1 else st.fork()
            stmts = [f for f in flat[i0:] if not isinstance(f, tuple)]
            for kind, s2 in self.run_list(stmts, s0):
                if kind == "break":
                    yield "next", s2
                else:
                    yield kind, s2


def check_round(stmts, env, ptr, size_ptr, out_ptr, scale=1):
    """interpret one loop round; returns (paths, violations): violations are (kind, advance, sizes, trace)."""
    it = Interp(ptr, size_ptr, out_ptr)
    st = State(env)
    st.v[ptr] = 0
    paths, bad = 0, []
    for kind, s2 in it.run_list(list(stmts), st):
        paths += 1
        adv = s2.v.get(ptr, TOP)
        if adv == TOP or any(z == TOP for z in s2.sizes):
            raise Unmodelled("source pointer or a recorded size is not a constant on a path (%s)" % (s2.trace[-3:],))
        if adv * scale != sum(s2.sizes):
            bad.append((kind, adv * scale, list(s2.sizes), list(s2.trace)))
    return paths, bad
