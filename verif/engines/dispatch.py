"""DISPATCH — enum-dispatch coverage ("every opcode has a handler") against the confirmed baseline.

For each function listed for a property in rules/dispatch.json, and each enum it switches on, the union of the
explicit case labels over the function's switches on that enum must still contain every label confirmed on the
pinned tree (baselines/dispatch.json).  A label that disappears means the enumerator now takes the default path
(or no path at all); new labels are allowed.
"""
import json
import os

from .. import core
from ..core import AnalysisBroken

RULES = os.path.join(core.VERIF, "rules", "dispatch.json")
BASE = os.path.join(core.VERIF, "baselines", "dispatch.json")


def table(f):
    t = {}
    for x in f.kind("switch"):
        if "(anonymous)" in x["enum"] and not x["cases"]:
            continue
        q = x["_fn"]["q"]
        t.setdefault(q, {}).setdefault(x["enum"], set()).update(x["cases"])
    return t


def run(rep, f, prop):
    rules = json.load(open(RULES)).get(prop)
    if not rules:
        raise AnalysisBroken("no DISPATCH rule table for %s" % prop)
    base = json.load(open(BASE))
    cur = table(f)
    rid = "%s.dispatch" % prop
    rep.rule(rid, "enum dispatch coverage: in each listed function every enumerator that had an explicit `case` on the pinned tree "
             "still has one (per function and enum, union over its switches): " + ", ".join(rules))
    n = 0
    for q in rules:
        b = base.get(q)
        if b is None:
            raise AnalysisBroken("no dispatch baseline for %s" % q)
        if q not in f.by_q:
            raise AnalysisBroken("dispatch anchor %s vanished" % q)
        for enum, cases in sorted(b.items()):
            have = cur.get(q, {}).get(enum, set())
            lost = sorted(set(cases) - have)
            n += len(cases)
            fn = f.by_q[q][0]
            rep.ob(rid, "%s/%s" % (q, enum), not lost, "%d enumerators handled explicitly" % len(cases) if not lost else
                   "%s no longer has a case for %s::%s: the value falls to the default branch (or is not handled at all)" % (q, enum, ", ".join(lost)),
                   "%s:%d" % (fn["file"], fn["line"]))
    rep.count(n)
