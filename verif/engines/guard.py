"""GUARD — path queries over clang CFGs (DESIGN.md §2.2).

The CFG facts come from xa (`setAllAlwaysAdd`, no exception edges).  For a block
with a two-way terminator succ[0] is the true edge and succ[1] the false edge;
the terminator's `cond` is the deciding *leaf* (short-circuit operators are
already split into blocks).  A block that ends in a `throw` expression or is
marked noreturn is an exceptional exit: it is never a *normal* path.

Queries
  reachable(cfg, assume)           blocks reachable from entry once edges that
                                   contradict the assumption are removed
  must_precede(cfg, isA, isB)      every entry -> B path passes an A event
  must_follow(cfg, isA, isB)       every path A -> normal exit passes a B event
Events are predicates over CFG elements (dicts with "x"/"decl"/"ret"/"dtor");
edge events (a guard: branch whose other edge leaves the function) are
expressed with `edge_event`.
"""
from ..core import AnalysisBroken, sx_walk


class Cfg:
    def __init__(self, fact):
        if fact.get("error"):
            raise AnalysisBroken("no CFG for %s: %s" % (fact["q"], fact["error"]))
        self.q = fact["q"]
        self.file = fact.get("file", "")
        self.entry = fact["entry"]
        self.exit = fact["exit"]
        self.blocks = {b["id"]: b for b in fact["blocks"]}
        self.preds = {i: [] for i in self.blocks}
        for b in fact["blocks"]:
            for s in b["succ"]:
                if s is not None:
                    self.preds[s].append(b["id"])

    def succs(self, bid):
        return [s for s in self.blocks[bid]["succ"] if s is not None]

    def throws(self, bid):
        b = self.blocks[bid]
        if b.get("noret"):
            return True
        for el in b["els"]:
            x = el.get("x")
            if x and x[0] == "t":
                return True
        return False

    def elements(self):
        for bid, b in self.blocks.items():
            for i, el in enumerate(b["els"]):
                yield bid, i, el

    def line_of(self, bid):
        b = self.blocks[bid]
        for el in b["els"]:
            if "l" in el:
                return el["l"]
        if "term" in b:
            return b["term"]["l"]
        return 0


def el_sx(el):
    """all structural expressions carried by an element."""
    if "x" in el:
        return [el["x"]]
    if "ret" in el:
        return [el["ret"]] if el["ret"] is not None else []
    if "decl" in el:
        return [d[2] for d in el["decl"] if d[2] is not None]
    return []


def el_top_calls(el):
    """the call/constructor/new/throw nodes that this CFG element *is* (top level only —
    sub-expressions are separate elements under setAllAlwaysAdd)."""
    r = []
    for x in el_sx(el):
        if isinstance(x, list) and x and x[0] in ("c", "k", "n", "t", "d"):
            r.append(x)
    return r


def mentions(x, pred):
    for s in sx_walk(x):
        if pred(s):
            return True
    return False


# ---------------------------------------------------------------- assumptions
def eval_cond(cond, assume):
    """assume: function(sx leaf) -> True/False/None for *flag expressions*.
    Understands !, ==/!= against 0/1 constants on top of flag expressions."""
    if cond is None:
        return None
    v = assume(cond)
    if v is not None:
        return v
    if cond[0] == "u" and cond[1] == "!":
        v = eval_cond(cond[2], assume)
        return None if v is None else (not v)
    if cond[0] == "b" and cond[1] in ("==", "!="):
        for a, b in ((cond[2], cond[3]), (cond[3], cond[2])):
            if isinstance(b, list) and b and b[0] == "i":
                v = eval_cond(a, assume)
                if v is not None:
                    r = (bool(b[1]) == v)
                    return r if cond[1] == "==" else (not r)
    if cond[0] == "cast":
        return eval_cond(cond[2], assume)
    return None


def reachable(cfg, assume=None, stop=None):
    """set of block ids reachable from entry; `assume` prunes contradicted edges;
    `stop(bid)` blocks are entered but not left."""
    seen = set()
    work = [cfg.entry]
    while work:
        b = work.pop()
        if b in seen:
            continue
        seen.add(b)
        if stop and stop(b):
            continue
        blk = cfg.blocks[b]
        succ = blk["succ"]
        if assume and "term" in blk and len(succ) == 2 and blk["term"]["kind"] != "SwitchStmt":
            v = eval_cond(blk["term"].get("cond"), assume)
            if v is True:
                succ = [succ[0]]
            elif v is False:
                succ = [succ[1]]
        for s in succ:
            if s is not None and s not in seen:
                work.append(s)
    return seen


def sites(cfg, pred):
    """[(bid, idx, el)] of elements whose top-level node satisfies pred(node)."""
    r = []
    for bid, i, el in cfg.elements():
        for x in el_top_calls(el):
            if pred(x):
                r.append((bid, i, el))
                break
    return r


def reachable_sites(cfg, pred, assume):
    rb = reachable(cfg, assume)
    out = []
    for bid, i, el in sites(cfg, pred):
        if bid not in rb:
            continue
        # an earlier throw in the same block makes the rest unreachable
        blk = cfg.blocks[bid]
        dead = False
        for j in range(i):
            x = blk["els"][j].get("x")
            if x and x[0] == "t":
                dead = True
        if not dead:
            out.append((bid, i, el))
    return out


# ------------------------------------------------------------------ must-analyses
def must_precede(cfg, is_a, is_b, edge_a=None):
    """For every element B: does every entry->B path contain an A element (or an
    edge event edge_a(bid, succ_index))?  Returns [(bid, idx, el, ok)]."""
    # OUT[b] = IN[b] or block has A ; IN[b] = AND over preds of edgeval
    IN = {b: True for b in cfg.blocks}
    IN[cfg.entry] = False
    hasA = {}
    for bid, blk in cfg.blocks.items():
        hasA[bid] = any(is_a(el) for el in blk["els"])
    changed = True
    while changed:
        changed = False
        for bid in cfg.blocks:
            if bid == cfg.entry:
                continue
            v = True
            ps = cfg.preds[bid]
            if not ps:
                v = True   # unreachable block
            for p in ps:
                out = IN[p] or hasA[p]
                if not out and edge_a:
                    for k, s in enumerate(cfg.blocks[p]["succ"]):
                        if s == bid and edge_a(p, k):
                            out = True
                v = v and out
            if v != IN[bid]:
                IN[bid] = v
                changed = True
    res = []
    for bid, blk in cfg.blocks.items():
        seen = IN[bid]
        for i, el in enumerate(blk["els"]):
            if is_b(el):
                res.append((bid, i, el, bool(seen)))
            if is_a(el):
                seen = True
    return res


def must_follow(cfg, is_a, is_b):
    """For every element A: does every path from A to a normal exit contain a B
    element?  Throwing blocks are not normal exits.  Returns [(bid, idx, el, ok)]."""
    OUT = {b: True for b in cfg.blocks}
    INb = {b: True for b in cfg.blocks}   # state at block entry (B guaranteed ahead)
    hasB = {bid: any(is_b(el) for el in blk["els"]) for bid, blk in cfg.blocks.items()}
    INb[cfg.exit] = False
    changed = True
    while changed:
        changed = False
        for bid in cfg.blocks:
            if bid == cfg.exit:
                continue
            if cfg.throws(bid):
                out = True
            else:
                ss = cfg.succs(bid)
                out = all(INb[s] for s in ss) if ss else True
            inn = out or hasB[bid]
            if out != OUT[bid] or inn != INb[bid]:
                OUT[bid] = out
                INb[bid] = inn
                changed = True
    res = []
    for bid, blk in cfg.blocks.items():
        els = blk["els"]
        for i, el in enumerate(els):
            if is_a(el):
                ok = OUT[bid] or any(is_b(e2) for e2 in els[i + 1:])
                # a throw later in the same block also ends the normal path
                if not ok and any((e2.get("x") or [None])[0] == "t" for e2 in els[i + 1:]):
                    ok = True
                res.append((bid, i, el, bool(ok)))
    return res


def leaves_function(cfg, bid, limit=6):
    """True if every path from block bid reaches EXIT within `limit` blocks
    without branching back (used to recognise `if (c) throw/return` guards)."""
    seen = set()
    work = [(bid, 0)]
    while work:
        b, d = work.pop()
        if b == cfg.exit:
            continue
        if d > limit or b in seen:
            return False
        seen.add(b)
        if cfg.throws(b):
            continue
        ss = cfg.succs(b)
        if not ss:
            continue
        for s in ss:
            work.append((s, d + 1))
    return True


def guards(cfg, cond_pred):
    """edge events: for blocks whose terminator condition satisfies cond_pred,
    return {(bid, k)} = the edge that *continues* when the other edge leaves the
    function (throw/return)."""
    res = {}
    for bid, blk in cfg.blocks.items():
        t = blk.get("term")
        if not t or len(blk["succ"]) != 2 or t.get("cond") is None:
            continue
        if not cond_pred(t["cond"]):
            continue
        s0, s1 = blk["succ"]
        if s0 is not None and leaves_function(cfg, s0):
            res[(bid, 1)] = t
        elif s1 is not None and leaves_function(cfg, s1):
            res[(bid, 0)] = t
    return res


def pruned(cfg, assume):
    """copy of cfg with the edges that contradict `assume` removed."""
    raw = {"q": cfg.q, "file": cfg.file, "entry": cfg.entry, "exit": cfg.exit, "blocks": []}
    for bid, blk in cfg.blocks.items():
        nb = dict(blk)
        succ = list(blk["succ"])
        if "term" in blk and len(succ) == 2 and blk["term"]["kind"] != "SwitchStmt":
            v = eval_cond(blk["term"].get("cond"), assume)
            if v is True:
                succ = [succ[0]]
            elif v is False:
                succ = [succ[1]]
        nb["succ"] = succ
        raw["blocks"].append(nb)
    c = Cfg(raw)
    c.sig = getattr(cfg, "sig", "")
    return c


def controlling(cfg, bid):
    """branch decisions every entry -> `bid` path must take: [(cond sx, polarity, branch block id)].
    An edge is controlling when removing it makes the block unreachable."""
    res = []
    for p, blk in cfg.blocks.items():
        t = blk.get("term")
        succ = blk["succ"]
        if not t or len(succ) != 2 or t.get("kind") == "SwitchStmt" or t.get("cond") is None:
            continue
        if succ[0] == succ[1]:
            continue
        for k in (0, 1):
            seen = set()
            work = [cfg.entry]
            while work:
                b = work.pop()
                if b in seen:
                    continue
                seen.add(b)
                if b == bid:
                    break
                for j, s in enumerate(cfg.blocks[b]["succ"]):
                    if s is None or (b == p and j == k):
                        continue
                    work.append(s)
            if bid not in seen:
                res.append((t["cond"], k == 0, p))
    return res


def must_state(cfg, gen_el=None, gen_edge=None, kill_el=None, entry=False):
    """forward must-dataflow of one boolean fact.  The fact is generated by elements satisfying gen_el and by edges
    (bid, succ index) satisfying gen_edge, killed by elements satisfying kill_el; it holds at a point when it holds
    on every path from the entry.  Returns state(bid, idx) -> bool = fact holds immediately before element idx."""
    IN = {b: True for b in cfg.blocks}
    IN[cfg.entry] = bool(entry)

    def flow(bid, upto=None):
        s = IN[bid]
        els = cfg.blocks[bid]["els"]
        for i, el in enumerate(els if upto is None else els[:upto]):
            if kill_el and kill_el(el):
                s = False
            if gen_el and gen_el(el):
                s = True
        return s
    changed = True
    while changed:
        changed = False
        for bid in cfg.blocks:
            if bid == cfg.entry:
                continue
            ps = cfg.preds[bid]
            v = True
            for p in ps:
                out = flow(p)
                if not out and gen_edge:
                    ks = [k for k, s in enumerate(cfg.blocks[p]["succ"]) if s == bid]
                    if ks and all(gen_edge(p, k) for k in ks):
                        out = True
                v = v and out
            if v != IN[bid]:
                IN[bid] = v
                changed = True
    return lambda bid, idx: flow(bid, idx)
