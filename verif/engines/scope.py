"""SCOPE — 'the nearest enclosing declaration wins' for scope-stack walks.

A namespace lookup walks a stack of scopes from the innermost outwards and tests, per scope, whether the prefix is
declared there.  Two shape conditions are necessary for the nearest declaration to win:

  first-hit   once the test 'declared in this scope' succeeds the function leaves (returns) on every path — it never
              goes on to an outer scope (a walk that continues past a hit lets an outer, shadowed declaration answer)
  inside-out  the loop over scopes starts at the top of the stack and counts down

Both are read off the CFG / statement tree of the functions named in the caller's table; the caller supplies the
predicate that recognises the 'declared here' test.
"""
from ..core import AnalysisBroken, sx_walk
from . import guard


def _enclosing_fors(node, pred, stack, out):
    """for every `if` whose condition satisfies pred (searched through && / ||), record the stack of enclosing for nodes."""
    if not isinstance(node, list) or not node:
        return
    if isinstance(node[0], list):
        for c in node:
            _enclosing_fors(c, pred, stack, out)
        return
    if node[0] == "for":
        for c in node[1:4]:
            _enclosing_fors(c, pred, stack, out)
        _enclosing_fors(node[4], pred, stack + [node], out)
        return
    if node[0] == "if":
        if any(pred(s) for s in sx_walk(node[1])):
            out.append((node, list(stack)))
    for c in node[1:]:
        if isinstance(c, list):
            _enclosing_fors(c, pred, stack, out)


def nearest_wins(rep, rid, g, q, hit, top_fields, where, sig=None, skip=None):
    """q: qualified function; hit(cond sx) recognises the 'declared in this scope' test (a CFG leaf condition);
    top_fields: names that the scope loop's initialiser must mention (stack top)."""
    cfg = guard.Cfg(g.cfg(q, sig))
    n = 0
    for bid, blk in sorted(cfg.blocks.items()):
        t = blk.get("term")
        if not t or len(blk["succ"]) != 2 or t.get("cond") is None or t.get("kind") == "SwitchStmt":
            continue
        if not hit(t["cond"]) or (skip and skip(t["cond"])):
            continue
        n += 1
        s0 = blk["succ"][0]
        ok = s0 is not None and guard.leaves_function(cfg, s0, limit=4)
        rep.ob(rid + "/first-hit", "%s@hit:%d" % (q, n), ok,
               "a hit in a scope leaves the walk on every path" if ok else
               "%s (line %s): after the test that the prefix is declared in the current scope succeeds, some path goes on to an "
               "outer scope instead of returning — an outer (shadowed) declaration can answer the lookup" % (q, t.get("l")),
               "%s:%s" % (where, t.get("l", 0)))
    if n == 0:
        raise AnalysisBroken("%s: no 'declared in this scope' test recognised in %s" % (rid, q))
    st = g.st(q, sig)
    found = []
    _enclosing_fors(st["body"], lambda s: isinstance(s, list) and hit(s) and not (skip and skip(s)), [], found)
    k = 0
    for ifn, fors in found:
        if not fors:
            continue
        outer = fors[0]
        init, cnd, inc = outer[1], outer[2], outer[3]

        def names_of(x):
            r = set()
            for s in sx_walk(x):
                if isinstance(s, list) and s and s[0] in ("f", "c") and isinstance(s[1], str):
                    r.add(s[1].split("::")[-1])
            return r
        if not ((names_of(init) | names_of(cnd)) & set(top_fields)):
            continue      # not a walk over the scope stack (e.g. the flat global map)
        k += 1
        down = bool(inc) and inc[0] == "u" and inc[1].startswith("--") and bool(names_of(init) & set(top_fields))
        rep.ob(rid + "/inside-out", "%s@walk:%d" % (q, k), down,
               "the scope loop starts at the stack top and counts down" if down else
               "%s (line %s): the loop over the scope stack does not count down from the top: the outermost declaration is found first" % (q, outer[-1]),
               "%s:%s" % (where, outer[-1]))
    if k == 0:
        raise AnalysisBroken("%s: no loop over the scope stack (initialised from %s) encloses the hit test in %s" % (rid, sorted(top_fields), q))
    return n
