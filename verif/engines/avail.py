"""AVAIL — look-ahead availability typestate in XMLReader (DESIGN.md §4 C04.a).

State k in {0,1,2,...} = "at least k characters are available at fCharIndex"
(fCharIndex + k <= fCharsAvail).  Forward must-analysis (meet = min) over the
clang CFG of every XMLReader member:

  edge facts   fCharIndex (+j) <  fCharsAvail  true   -> k >= j+1
               fCharIndex (+j) >= fCharsAvail  false  -> k >= j+1
               fCharIndex (+j) == fCharsAvail  false  -> k >= j+1  (given k >= j)
               fCharIndex (+j) != fCharsAvail  true   -> k >= j+1  (given k >= j)
               refreshCharBuffer()             true   -> k >= 1   ONLY (it may return with one spare char)
               charsLeftInBuffer() comparisons with constants likewise
  effects      fCharIndex++ / += c  -> k -= 1 / c ; any other write of fCharIndex/fCharsAvail,
               and any call of a non-const member on this -> k = 0
  obligation   a read fCharBuf[fCharIndex + j] needs k >= j+1
An idiom outside this vocabulary at a fCharBuf subscript is reported as unmodelled (exit 2).
"""
from ..core import AnalysisBroken

TOP = 99


def _is_f(x, name):
    return isinstance(x, list) and len(x) == 2 and x[0] == "f" and x[1] == "XMLReader::" + name


def idx_off(x):
    """offset j if x is fCharIndex + j, or fCharIndex++ (j=0, post-inc); else None.  returns (j, postinc)"""
    if _is_f(x, "fCharIndex"):
        return 0, False
    if isinstance(x, list) and x and x[0] == "b" and x[1] == "+" and _is_f(x[2], "fCharIndex") and x[3][0] == "i":
        return x[3][1], False
    if isinstance(x, list) and x and x[0] == "u" and x[1] == "++post" and _is_f(x[2], "fCharIndex"):
        return 0, True
    return None


def refine(c, val, k):
    """k after taking the edge on which leaf condition c evaluates to val."""
    if not isinstance(c, list) or not c:
        return k
    if c[0] == "u" and c[1] == "!":
        return refine(c[2], not val, k)
    if c[0] == "cast":
        return refine(c[2], val, k)
    if c[0] == "c" and c[1] == "XMLReader::refreshCharBuffer":
        return max(k, 1) if val else k
    if c[0] == "b":
        op, a, b = c[1], c[2], c[3]
        o = idx_off(a)
        if o and not o[1] and _is_f(b, "fCharsAvail"):
            j = o[0]
            if (op == "<" and val) or (op == ">=" and not val):
                return max(k, j + 1)
            if ((op == "==" and not val) or (op == "!=" and val)) and k >= j:
                return max(k, j + 1)
            return k
        # fCharsAvail on the left
        o = idx_off(b)
        if o and not o[1] and _is_f(a, "fCharsAvail"):
            j = o[0]
            if (op == ">" and val) or (op == "<=" and not val):
                return max(k, j + 1)
            if ((op == "==" and not val) or (op == "!=" and val)) and k >= j:
                return max(k, j + 1)
            return k
        # charsLeftInBuffer() cmp const
        if a[0] == "c" and a[1] == "XMLReader::charsLeftInBuffer" and b[0] == "i":
            n = b[1]
            if (op == ">=" and val) or (op == "<" and not val):
                return max(k, n)
            if (op == ">" and val) or (op == "<=" and not val):
                return max(k, n + 1)
    return k


class Result:
    def __init__(self):
        self.reads = []     # (line, j, k, ok)
        self.addrs = []     # (line, k)
        self.unmodelled = []


def analyse(cfg):
    """cfg: guard.Cfg.  returns Result."""
    res = Result()
    blocks = cfg.blocks
    IN = {b: TOP for b in blocks}
    IN[cfg.entry] = 0

    def flow(bid, report):
        k = IN[bid]
        if k == TOP and bid != cfg.entry:
            return None
        els = blocks[bid]["els"]
        # post-increments that belong to a following subscript are applied at the subscript
        skip = set()
        for i, el in enumerate(els):
            x = el.get("x")
            if x and x[0] == "x" and _is_f(x[1], "fCharBuf"):
                o = idx_off(x[2])
                if o and o[1]:
                    for j in range(i - 1, -1, -1):
                        y = els[j].get("x")
                        if y and y[0] == "u" and y[1] == "++post" and _is_f(y[2], "fCharIndex"):
                            skip.add(j)
                            break
        for i, el in enumerate(els):
            x = el.get("x")
            if x is None:
                # declarations with initialisers / returns: calls inside are separate elements
                continue
            t = x[0]
            if t == "x" and _is_f(x[1], "fCharBuf"):
                o = idx_off(x[2])
                if el.get("addr"):
                    if report:
                        res.addrs.append((el.get("l"), k))
                    continue
                if o is None:
                    if report:
                        res.unmodelled.append((el.get("l"), "subscript fCharBuf[%s]" % (x[2],)))
                    continue
                j, post = o
                if el.get("store"):
                    # a store into the buffer at the cursor (handleEOL normalisation) needs the slot to exist as well
                    pass
                if report:
                    res.reads.append((el.get("l"), j, k, k >= j + 1))
                if post:
                    k = max(k - 1, 0)
            elif t == "u" and x[1] in ("++", "++post") and _is_f(x[2], "fCharIndex"):
                if i in skip:
                    continue
                k = max(k - 1, 0)
            elif t == "u" and x[1] in ("--", "--post") and _is_f(x[2], "fCharIndex"):
                k = 0
            elif t == "b" and x[1] in ("=", "+=", "-=", "*=", "/="):
                if _is_f(x[2], "fCharIndex"):
                    if x[1] == "+=" and x[3][0] == "i":
                        k = max(k - x[3][1], 0)
                    else:
                        k = 0
                elif _is_f(x[2], "fCharsAvail"):
                    k = 0
            elif t == "c":
                recv = x[2]
                sig = x[4] if len(x) > 4 else ""
                if recv == ["this"] and not sig.endswith("const") and x[1].startswith("XMLReader::"):
                    k = 0
        # successors
        outs = []
        blk = blocks[bid]
        succ = blk["succ"]
        term = blk.get("term")
        for idx, s in enumerate(succ):
            if s is None:
                continue
            kk = k
            if term and len(succ) == 2 and term.get("cond") is not None and term["kind"] != "SwitchStmt":
                kk = refine(term["cond"], idx == 0, k)
            outs.append((s, kk))
        return outs

    work = [cfg.entry]
    it = 0
    while work and it < 20000:
        it += 1
        b = work.pop()
        outs = flow(b, False)
        if outs is None:
            continue
        for s, kk in outs:
            if kk < IN[s]:
                IN[s] = kk
                work.append(s)
    for b in blocks:
        flow(b, True)
    return res
