"""RESET — per-parse state reset coverage (DESIGN.md §4 C15.a).

For a scanner class S (with its base classes):
  scan closure  = member functions reachable from the scan entry points through calls on the same
                  object (most-derived definition first) and through calls into the per-parse state
                  holder classes (virtual calls resolved to every overrider in a holder class)
  reset closure = the same closure started at S::scanReset (plus the holders' reset roots)
  W(H)      = members of H assigned or incremented by scan-closure functions outside the reset closure
  Reset(H)  = members of H assigned (or reset through a method call) by reset-closure functions
Every member in W(H) \\ Reset(H) must be listed as exempt with a reason.
"""
from collections import defaultdict

from ..core import AnalysisBroken
from . import diag

W_HOW = ("write", "inc")


class Reset:
    def __init__(self, f, holders):
        self.f = f
        self.holders = holders
        self.overriders = defaultdict(set)
        for q, fns in f.by_q.items():
            for fn in fns:
                for b in fn.get("ovr", []):
                    self.overriders[b].add(q)

    def fam(self, S):
        return [S] + diag._bases(self.f, S)

    def resolve(self, family, name):
        for cls in family:
            q = cls + "::" + name
            if q in self.f.by_q:
                return q
        return None

    def _over(self, q, acc):
        for o in self.overriders.get(q, ()):
            if o not in acc:
                acc.add(o)
                self._over(o, acc)
        return acc

    def closure(self, S, roots):
        family = self.fam(S)
        seen = set()
        work = [r for r in roots if r]
        while work:
            q = work.pop()
            if q in seen:
                continue
            seen.add(q)
            for fn in self.f.fns_named(q):
                for x in fn["_facts"]:
                    if x["k"] != "call":
                        continue
                    c = x["x"]
                    ccls = x.get("ccls")
                    if ccls in family and (c[2] is None or c[2] == ["this"]):
                        r = self.resolve(family, c[1].split("::")[-1])
                        if r:
                            work.append(r)
                    elif ccls in self.holders:
                        work.append(c[1])
                    if x.get("virt"):
                        for o in self._over(c[1], set()):
                            if o.rsplit("::", 1)[0] in self.holders:
                                work.append(o)
        return seen

    def writes(self, qs, classes):
        out = defaultdict(list)
        for q in qs:
            for fn in self.f.fns_named(q):
                for x in fn["_facts"]:
                    if x["k"] == "fld" and x["b"] == "this" and x["f"].rsplit("::", 1)[0] in classes:
                        if x["how"] in W_HOW or x["how"].startswith("call:"):
                            out[x["f"]].append((q, x["how"], x["l"], fn["file"]))
        return out
