"""DIAG — diagnostic matrix engine (DESIGN.md §3.1).

Fact: function f *emits* enumerator e when e occurs in f's body anywhere but in
a comparison or a case label (argument of emitError / ThrowXML* / throw
DOMException(...) / reportSchemaError / assignment to a code variable / return).

M[S][r] for a component class S and a member function r of S is the set of
enumerators emitted by r or by any function reachable from r through calls on
`this` into S or its base classes (own-object closure; never across objects).

Rule 1 (baseline): every (S, r, e) confirmed on the pinned tree is still in M.
       A lost cell is reported once per (S, e), naming the innermost function
       that lost it and every role that lost it with it.
Rule 3 (required): spec-required codes per (S, r) are in M.
New cells are allowed and listed in the evidence.
"""
import json
import os

from .. import core
from ..core import AnalysisBroken

RULES = os.path.join(core.VERIF, "rules", "diag.json")


def _rules():
    return json.load(open(RULES))


def tus_for(prop):
    r = _rules().get(prop)
    if not r:
        return []
    t = set()
    for c in r["components"]:
        for x in c["tus"]:
            t.add(os.path.join(core.REPO, x))
    return sorted(t)


def _bases(f, cls, acc=None):
    acc = acc if acc is not None else []
    c = f.classes.get(cls)
    if c:
        for b in c["bases"]:
            b = b.split("<")[0]
            if b not in acc:
                acc.append(b)
                _bases(f, b, acc)
    return acc


def _family_filter(f, comp):
    """returns predicate(enum qualified, name, val) selecting the codes of this component."""
    enums = comp["enums"]
    filt = comp.get("filter")
    rng = None
    if filt in ("fatal", "nonfatal"):
        en = f.enums.get(enums[0])
        if not en:
            raise AnalysisBroken("enum %s vanished" % enums[0])
        it = dict(en["items"])
        rng = (it["F_LowBounds"], it["F_HighBounds"])
    names = set(comp.get("names", []))
    prefix = tuple(comp.get("prefixes", []))

    def pred(enum, name, val):
        if enum not in enums:
            return False
        if name.endswith("Bounds"):
            return False
        if filt == "fatal" and not (rng[0] < val < rng[1]):
            return False
        if filt == "nonfatal" and (rng[0] < val < rng[1]):
            return False
        if names and name not in names:
            if not (prefix and name.startswith(prefix)):
                return False
        elif prefix and not names and not name.startswith(prefix):
            return False
        return True
    return pred


def matrix(f, comp):
    """compute {role q: set('Enum::name')} and direct sites {(role, code): [lines]}."""
    S = comp["class"]
    family = [S] + _bases(f, S)
    if S not in f.classes and not any(fn.get("cls") == S for fns in f.by_q.values() for fn in fns):
        raise AnalysisBroken("component class %s vanished" % S)
    pred = _family_filter(f, comp) if comp.get("enums") else (lambda e, n, v: False)
    callcls = set(comp.get("calls", []))
    # functions of the family, by simple name, most-derived first
    fam_fns = {}
    for cls in family:
        for q, fns in f.by_q.items():
            for fn in fns:
                if fn.get("cls") == cls:
                    fam_fns.setdefault(fn["name"], []).append(fn)
    direct = {}
    edges = {}
    sites = {}
    allfns = [fn for lst in fam_fns.values() for fn in lst]
    for fn in allfns:
        key = fn["q"]
        d = direct.setdefault(key, set())
        e = edges.setdefault(key, set())
        for x in fn["_facts"]:
            if x["k"] == "enumuse":
                if x["ctx"] in ("cmp", "case"):
                    continue
                if pred(x["enum"], x["name"], x["val"]):
                    code = x["enum"].split("::")[0] + "::" + x["name"]
                    d.add(code)
                    sites.setdefault((key, code), []).append("%s:%d" % (fn["file"], x["l"]))
            elif x["k"] == "call":
                c = x["x"]
                ccls = x.get("ccls")
                if ccls in callcls and not (c[2] is None or c[2] == ["this"]):
                    # an *event*: a call on another object whose class is one of the component's event interfaces
                    code = ccls + "::" + c[1].split("::")[-1]
                    d.add(code)
                    sites.setdefault((key, code), []).append("%s:%d" % (fn["file"], x["l"]))
                if ccls in family and (c[2] is None or c[2] == ["this"]):
                    name = c[1].split("::")[-1]
                    # resolve to the most-derived definition in the family
                    cands = fam_fns.get(name, [])
                    for cls in family:
                        hit = [g for g in cands if g["cls"] == cls]
                        if hit:
                            for g in hit:
                                e.add(g["q"])
                            break
    # closure
    M = {}
    for fn in allfns:
        if fn.get("cls") != S:
            continue
        seen = set()
        stack = [fn["q"]]
        acc = set()
        while stack:
            q = stack.pop()
            if q in seen:
                continue
            seen.add(q)
            acc |= direct.get(q, set())
            stack.extend(edges.get(q, ()))
        if acc:
            M[fn["q"]] = acc
    return M, direct, sites


def baseline_path(prop):
    return os.path.join(core.VERIF, "baselines", "diag_%s.json" % prop)


def rebaseline(prop, f):
    r = _rules()[prop]
    out = {}
    for comp in r["components"]:
        M, direct, _ = matrix(f, comp)
        out[comp.get("key", comp["class"])] = {"closure": {q: sorted(v) for q, v in sorted(M.items())},
                              "direct": {q: sorted(v) for q, v in sorted(direct.items()) if v}}
    json.dump(out, open(baseline_path(prop), "w"), indent=0, sort_keys=True)
    return out


def run(rep, f, prop):
    r = _rules().get(prop)
    if not r:
        raise AnalysisBroken("no DIAG rule table for %s" % prop)
    bp = baseline_path(prop)
    if not os.path.exists(bp):
        raise AnalysisBroken("missing DIAG baseline for %s" % prop)
    base = json.load(open(bp))
    rid = "%s.diag" % prop
    rep.rule(rid, "diagnostic matrix: for each component class and each of its member functions (closed over calls on "
             "the same object), every diagnostic enumerator confirmed on the pinned tree is still emitted on some path; "
             "a lost cell names class, innermost function and code. Components: " +
             ", ".join("%s[%s]" % (c["class"], c.get("filter", "events" if c.get("calls") else "all")) for c in r["components"]))
    total_cells = 0
    for comp in r["components"]:
        S = comp["class"]
        M, direct, sites = matrix(f, comp)
        b = base.get(comp.get("key", S))
        if b is None:
            raise AnalysisBroken("no baseline for component %s" % S)
        lost = {}   # code -> [roles]
        for role, codes in b["closure"].items():
            if role not in f.by_q:
                # a role function was removed or renamed: its cells are lost only if the codes vanished from the
                # whole class; handled below through the other roles. Treat as anchor change only when *all* gone.
                continue
            have = M.get(role, set())
            for c in codes:
                total_cells += 1
                if c not in have:
                    lost.setdefault(c, []).append(role)
        # codes whose every baseline role vanished
        present_roles = set(q for q in b["closure"] if q in f.by_q)
        if len(b["closure"]) >= 4 and len(present_roles) < 0.5 * len(b["closure"]):
            raise AnalysisBroken("more than half of the baseline role functions of %s are gone (renamed?)" % S)
        all_codes_now = set()
        for v in M.values():
            all_codes_now |= v
        for role, codes in b["closure"].items():
            if role in f.by_q:
                continue
            for c in codes:
                if c not in all_codes_now:
                    lost.setdefault(c, []).append(role + " (function gone)")
        ncodes = len(set(c for v in b["closure"].values() for c in v))
        for c in sorted(set(c for v in b["closure"].values() for c in v)):
            if c in lost:
                roles = lost[c]
                # innermost: the lost role with the smallest baseline closure
                inner = min(roles, key=lambda q: len(b["closure"].get(q.split(" ")[0], [])))
                was = [q for q, v in b["direct"].items() if c in v]
                rep.ob(rid, "%s/%s" % (S, c), False,
                       "%s no longer reports %s (formerly emitted in %s); roles that lost it: %s" % (
                           inner, c, ", ".join(was), ", ".join(roles[:6])),
                       "class " + S, detail={"code": c, "roles": roles, "formerly": was})
            else:
                where = [s for (q, cc), ss in sites.items() if cc == c for s in ss][:2]
                rep.ob(rid, "%s/%s" % (S, c), True, "%s reported; sites %s" % (c, where), "class " + S)
        new = sorted(all_codes_now - set(c for v in b["closure"].values() for c in v))
        if new:
            rep.notes.append("%s: new diagnostic codes since baseline: %s" % (S, new[:10]))
        rep.count(sum(len(v) for v in M.values()))
        rep.floor(rid + "/" + S, ncodes, comp.get("floor", 1))
    rep.extra.setdefault("diag_cells", 0)
    rep.extra["diag_cells"] += total_cells
