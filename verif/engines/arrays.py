"""ARRAYS — bounded writes into fixed-size arrays (DESIGN.md §4 C01.a/b, C13.d).

soh_rule: the "stack-or-heap temporary" idiom
      T tmp[K];  if (n CMP c) p = (T*) allocate(E); else p = tmp;
  the stack branch must imply n + 1 <= K (room for the terminator) and the heap branch must
  allocate at least (n + 1) elements of T, n being the very expression tested
  (or the full length of the source string + 1).
"""
import os
import re

from .. import core
from ..core import AnalysisBroken, sx_walk, sx_str


def _const(x):
    if isinstance(x, list) and x and x[0] == "i":
        return x[1]
    if isinstance(x, list) and x and x[0] == "cast":
        return _const(x[2])
    if isinstance(x, list) and x and x[0] == "b" and x[1] in ("+", "-", "*"):
        a, b = _const(x[2]), _const(x[3])
        if a is not None and b is not None:
            return a + b if x[1] == "+" else a - b if x[1] == "-" else a * b
    return None


def _strip(x):
    while isinstance(x, list) and x and x[0] == "cast":
        x = x[2]
    return x


def _alloc_count(e):
    """element count expression of `allocate(count * sizeof(T))` / `new T[count]`; returns (count sx, elem size or None)."""
    e = _strip(e)
    if e and e[0] == "c" and e[1].split("::")[-1] == "allocate" and e[3]:
        a = _strip(e[3][0])
        if a[0] == "b" and a[1] == "*":
            l, r = _strip(a[2]), _strip(a[3])
            if l[0] == "i" and len(l) > 2:     # sizeof on the left
                return r, l[1]
            if r[0] == "i" and len(r) > 2:
                return l, r[1]
        return a, 1
    if e and e[0] == "n" and e[3] and e[3][0] == "arr":
        return _strip(e[3][1]), None
    return None, None


def _plus_k(count, n):
    """k if count == n + k structurally (k const >= 0), or count == stringLen(..)+k; else None"""
    count = _strip(count)
    if count == n:
        return 0, "n"
    if count[0] == "b" and count[1] == "+":
        a, b = _strip(count[2]), _strip(count[3])
        for x, y in ((a, b), (b, a)):
            k = _const(y)
            if k is not None:
                if x == n:
                    return k, "n"
                if x[0] == "c" and x[1].split("::")[-1] == "stringLen":
                    return k, "strlen"
                kk = _plus_k(x, n)
                if kk[0] is not None:
                    return kk[0] + k, kk[1]
    if count[0] == "c" and count[1].split("::")[-1] == "stringLen":
        return 0, "strlen"
    return None, None


def find_soh(body, arrays):
    """instances in a statement tree: [(line, cond, ptr, arr, K, heap_expr, stack_is_else)]"""
    out = []

    def assigns(s, want):
        """(ptr, rhs) assignments directly in branch s"""
        r = []
        if s is None:
            return r
        stmts = s[1] if s[0] == "block" else [s]
        for c in stmts:
            if c and c[0] == "expr" and c[1] and c[1][0] == "b" and c[1][1] == "=":
                r.append((c[1][2], c[1][3]))
        return r

    def walk(s):
        if not isinstance(s, list) or not s:
            return
        if s[0] == "if":
            a = assigns(s[2], None)
            b = assigns(s[3], None)
            for (pa, ra) in a:
                for (pb, rb) in b:
                    if pa != pb:
                        continue
                    sa, sb = _strip(ra), _strip(rb)
                    if sb[0] == "l" and sb[1] in arrays and _alloc_count(ra)[0] is not None:
                        out.append((s[4], s[1], pa, sb[1], arrays[sb[1]], ra, True))
                    elif sa[0] == "l" and sa[1] in arrays and _alloc_count(rb)[0] is not None:
                        out.append((s[4], s[1], pa, sa[1], arrays[sa[1]], rb, False))
        for y in s[1:]:
            if isinstance(y, list):
                if y and isinstance(y[0], list):
                    for z in y:
                        walk(z)
                else:
                    walk(y)
    walk(body)
    return out


def judge(cond, K, heap_expr, stack_is_else):
    """returns (ok, text)"""
    c = _strip(cond)
    if not (c[0] == "b" and c[1] in (">=", ">", "<", "<=")):
        return None, "condition %s is not a comparison with a constant" % sx_str(cond)
    n, cv = _strip(c[2]), _const(c[3])
    op = c[1]
    if cv is None:
        n2, cv2 = _strip(c[3]), _const(c[2])
        if cv2 is None:
            return None, "condition %s is not a comparison with a constant" % sx_str(cond)
        n, cv = n2, cv2
        op = {">=": "<=", ">": "<", "<": ">", "<=": ">="}[op]
    # condition under which the *stack* branch runs
    if stack_is_else:
        op = {">=": "<", ">": "<=", "<": ">=", "<=": ">"}[op]
    if op == "<":
        maxn = cv - 1
    elif op == "<=":
        maxn = cv
    else:
        return False, "the stack buffer is used when %s %s %d: no upper bound on the length" % (sx_str(n), op, cv)
    if maxn + 1 > K:
        return False, "the stack buffer of %d elements is used for lengths up to %d (+1 terminator)" % (K, maxn)
    count, esz = _alloc_count(heap_expr)
    k, how = _plus_k(count, n)
    if k is None:
        return None, "heap size %s is not of the form (tested length + k)" % sx_str(count)
    if k < 1:
        return False, "the heap branch allocates %s elements for a string of length %s: no room for the terminator" % (sx_str(count), sx_str(n))
    return True, "stack for length <= %d in %d elements; heap allocates %s + %d" % (maxn, K, "the tested length" if how == "n" else "the source length", k)


def soh_rule(rep, f, rid, select):
    rep.rule(rid, "stack-or-heap temporaries `T tmp[K]; if (n CMP c) p = allocate(E) else p = tmp`: the stack branch implies "
             "n + 1 <= K and the heap branch allocates at least (n + 1) elements, n being the very expression tested (or the "
             "source string's full length + 1)")
    cands = {}
    for q, fns in f.by_q.items():
        for fn in fns:
            if not select(fn):
                continue
            arrs = {x["name"]: x["cap"] for x in fn["_facts"] if x["k"] == "local" and x.get("cap")}
            if not arrs:
                continue
            if any(x["k"] == "asg" and x["rhs"] and x["rhs"][0] == "l" and x["rhs"][1] in arrs for x in fn["_facts"]):
                cands[q] = (fn["file"], arrs)
    if not cands:
        raise AnalysisBroken("%s: no stack-or-heap candidate found" % rid)
    tus = sorted(set(os.path.join(core.REPO, v[0]) for v in cands.values() if v[0].endswith(".cpp")))
    g = core.run_xa(tus, st="^(" + "|".join(re.escape(q) for q in sorted(cands)) + ")$", flat=False)
    n = 0
    for q in sorted(cands):
        for s in g.sts.get(q, []):
            arrs = cands[q][1]
            k = 0
            for line, cond, ptr, arr, K, heap, stack_else in find_soh(s["body"], arrs):
                k += 1
                ok, text = judge(cond, K, heap, stack_else)
                n += 1
                if ok is None:
                    raise AnalysisBroken("%s:%s %s: unmodelled stack-or-heap idiom: %s" % (s["file"], line, q, text))
                rep.ob(rid, "%s/%s#%d" % (q, arr, k), ok, text if ok else "%s (line %s): %s" % (q, line, text),
                       "%s:%s" % (s["file"], line))
    return n
