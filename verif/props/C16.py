"""C16 — a serialised grammar pool restores to a behaviourally identical pool.

C16.a  wire-program equality of the storing and the loading side of every concrete
       T::serialize(XSerializeEngine&) (base calls and store*/load* helpers inlined),
       of every XTemplateSerializer::storeObject/loadObject pair, and of
       XMLGrammarPoolImpl::serializeGrammars/deserializeGrammars — including the
       member each value comes from / goes to (order of fields)
C16.c  DatatypeValidator::loadDV dispatch: every producible ValidatorType has a case,
       and the class read in `case X` is a class whose constructors pass X
C16.d  serialisation level: written first, checked (throwing XSerializationException)
       before anything else is read
C16.e  diagnostics matrix (DIAG)
"""
import json
import os
import re

from .. import core
from ..core import AnalysisBroken, sx_walk
from ..engines import diag, guard, serial

# (class, stored member) -> loaded member, confirmed by reading: the value is deliberately loaded into another member
FIELD_ALIAS = {
    ("DTDAttDefList", "fCount"): "fSize",       # the element count sizes fArray exactly; fCount is rebuilt by the enumeration
    ("SchemaAttDefList", "fCount"): "fSize",    # same idiom
}


def _engine_functions(f):
    fns = [fn for q, fns in f.by_q.items() for fn in fns
           if "XSerializeEngine &" in fn["sig"] and fn.get("cls") != "XSerializeEngine"]
    fns += f.fns_named("XMLGrammarPoolImpl::serializeGrammars") + f.fns_named("XMLGrammarPoolImpl::deserializeGrammars")
    return fns


def _field_ctx(items, ctx="always", out=None):
    """field -> 'always' when some wire operation on it is executed on every path of the storing branch, else 'cond'."""
    if out is None:
        out = {}
    for it in items:
        if it[0] == "op":
            if it[3]:
                if ctx == "always" or it[3] not in out:
                    out[it[3]] = ctx if out.get(it[3]) != "always" else "always"
        elif it[0] == "loop":
            _field_ctx(it[1], ctx, out)
        else:
            for a in it[1]:
                _field_ctx(a, "cond", out)
    return out


def persisted_rule(rep, field_ctx):
    """store == load (C16.a) cannot see a member that both sides stopped writing, or that both sides now write only under a
    condition: the stream stays symmetric and the restored object silently differs.  The set of members each class
    persisted on the confirmed tree is the reference (baselines/serial_fields.json)."""
    rep.rule("C16.e", "persisted state is not narrowed: every member a class's serialize() wrote on the confirmed tree is still "
             "written, and a member that was written unconditionally is not written under a condition now (per class, from the "
             "store-side wire program with base classes and helpers inlined; new members are fine). A member that silently "
             "leaves the stream — symmetrically on both sides — comes back default-initialised")
    bp = os.path.join(core.VERIF, "baselines", "serial_fields.json")
    if os.environ.get("VERIF_REBASELINE") == "serial_fields":
        json.dump({c: v[0] for c, v in sorted(field_ctx.items())}, open(bp, "w"), indent=0, sort_keys=True)
    if not os.path.exists(bp):
        raise AnalysisBroken("baseline baselines/serial_fields.json is missing")
    base = json.load(open(bp))
    n = 0
    for cls, flds in sorted(base.items()):
        if cls not in field_ctx:
            rep.notes.append("C16.e: class %s of the baseline has no serialize() any more" % cls)
            continue
        now, where = field_ctx[cls]
        for fld, ctx in sorted(flds.items()):
            n += 1
            if fld not in now:
                rep.ob("C16.e", "%s/%s" % (cls, fld), False, "%s::serialize no longer writes %s: the member is not persisted and comes back "
                       "default-initialised from a restored grammar pool" % (cls, fld), where)
            elif ctx == "always" and now[fld] != "always":
                rep.ob("C16.e", "%s/%s" % (cls, fld), False, "%s::serialize now writes %s only under a condition (it was written "
                       "unconditionally): for the other cases the member is not persisted" % (cls, fld), where)
            else:
                rep.ob("C16.e", "%s/%s" % (cls, fld), True, "persisted (%s)" % now[fld], where)
    rep.floor("C16.e", n, 200)


VALUE_MEMBER_EXEMPT = {
    "XMLBigDecimal::fRawDataLen": "capacity of the fRawData buffer: passed to writeString/readString as the buffer length, re-established by readString",
    "XMLDateTime::fBufferMaxLen": "capacity of fBuffer: passed to writeString/readString as the buffer length, re-established by readString",
}


def value_members_rule(rep, f, field_ctx):
    rep.rule("C16.f", "value objects are persisted whole: for every concrete class of the XMLNumber family (the values of facets, "
             "enumerations and fixed/default constraints stored in a grammar: XMLBigDecimal, XMLDouble, XMLFloat, XMLDateTime) each "
             "data member of arithmetic or enumeration type, own or inherited, is written by serialize() — a numeric member left "
             "out comes back as the constructor's default and the restored facet compares differently (exemptions: buffer "
             "capacities, one named member each)")
    n = 0
    for cls in sorted(f.classes):
        if cls == "XMLNumber" or not f.is_derived(cls, "XMLNumber") or cls not in field_ctx:
            continue
        now, where = field_ctx[cls]
        chain, c = [], cls
        while c and c in f.classes and c != "XMLNumber":
            chain.append(c)
            bs = [b.split("<")[0] for b in f.classes[c]["bases"]]
            c = bs[0] if bs else None
        for c in chain:
            for name, ty in f.classes[c]["fields"]:
                if "*" in ty or "&" in ty or ty.startswith("MemoryManager"):
                    continue
                n += 1
                key = "%s::%s" % (c, name)
                ok = name in now or key in VALUE_MEMBER_EXEMPT
                rep.ob("C16.f", "%s/%s" % (cls, name), ok,
                       ("persisted" if name in now else "exempt: " + VALUE_MEMBER_EXEMPT[key]) if ok else
                       "%s::serialize does not write %s (%s): a %s restored from a serialized grammar pool has the constructor's default "
                       "there, so facet bounds, enumeration and fixed values compare differently after a round trip" % (cls, key, ty, cls), where)
    rep.floor("C16.f", n, 20)


def engine_accounting_rule(rep):
    from ..engines import advance
    rep.rule("C16.g", "the engine's block transfer keeps its place: XSerializeEngine::read(bytes, n) and write(bytes, n), interpreted "
             "with concrete buffer geometry (buffer of 100, 10 bytes left in it) for n = 5, 10, 11, 110, 113, 210 — requests inside "
             "the buffer, ending exactly at its end, spilling over, and ending exactly with a whole later buffer: afterwards the "
             "stream position (buffers refilled/flushed x buffer size + cursor) has moved by exactly n and exactly n bytes were "
             "copied — a read that ends with a whole buffer and leaves the cursor at its start serves the same bytes twice")
    g = core.run_xa([os.path.join(core.REPO, "src/xercesc/internal/XSerializeEngine.cpp")], st=r"^XSerializeEngine::(read|write)$", flat=False)
    n = 0
    for q, side in (("XSerializeEngine::read", "load"), ("XSerializeEngine::write", "store")):
        sts = [s_ for s_ in g.sts.get(q, []) if "XMLByte" in s_["sig"]]
        if len(sts) != 1:
            raise AnalysisBroken("%s(XMLByte*, XMLSize_t) not found" % q)
        body = sts[0]["body"]
        for req in (5, 10, 11, 110, 113, 210):
            def hook(x, st, it):
                nm = x[1].split("::")[-1]
                if nm == "memcpy":
                    k = it.ev(x[3][2], st)
                    st.v["__copied"] = st.v.get("__copied", 0) + (k if k != advance.TOP else 10 ** 6)
                    return advance.TOP
                if nm in ("fillBuffer", "flushBuffer"):
                    st.v["__turns"] = st.v.get("__turns", 0) + 1
                    st.v["f:XSerializeEngine::fBufCur"] = 0
                    return advance.TOP
                return NotImplemented
            env = {"f:XSerializeEngine::fBufStart": 0, "f:XSerializeEngine::fBufCur": 90, "f:XSerializeEngine::fBufLoadMax": 100,
                   "f:XSerializeEngine::fBufEnd": 100, "f:XSerializeEngine::fBufSize": 100,
                   "p:readLen": req, "p:writeLen": req}
            it = advance.Interp(call_hook=hook)
            outs = []
            for kind, s2 in it.run(body, advance.State(env)):
                cur = s2.v.get("f:XSerializeEngine::fBufCur")
                outs.append((s2.v.get("__turns", 0) * 100 + cur if isinstance(cur, int) else None, s2.v.get("__copied", 0)))
            n += 1
            ok = len(outs) == 1 and outs[0] == (90 + req, req)
            rep.ob("C16.g", "%s/n=%d" % (q.split("::")[-1], req), ok, "position +%d, %d bytes copied" % (req, req) if ok else
                   "%s of %d bytes with 10 left in a buffer of 100: stream position afterwards %s (expected %d), bytes copied %s — the "
                   "engine loses its place in the stream" % (q, req, [o[0] for o in outs], 90 + req, [o[1] for o in outs]),
                   "src/xercesc/internal/XSerializeEngine.cpp:%s" % sts[0].get("line", 0))
    rep.floor("C16.g", n, 12)


def _op_sig(items, out=None):
    """multiset of wire operations (kind, type) of a wire program, loops and alternatives flattened."""
    if out is None:
        out = {}
    for it in items:
        if it[0] == "op":
            k = "%s(%s)" % (it[1], it[2])
            out[k] = out.get(k, 0) + 1
        elif it[0] == "loop":
            _op_sig(it[1], out)
        else:
            for a in it[1]:
                _op_sig(a, out)
    return out


def template_wire_rule(rep, template_sig):
    rep.rule("C16.e/template", "container keys are persisted: the wire program of each XTemplateSerializer::storeObject still contains "
             "every operation it contained on the confirmed tree (kind and type, as a multiset; baselines/serial_templates.json) — "
             "a key that both storeObject and loadObject stop transferring (and re-derive from the element) keeps the stream "
             "symmetric while entries registered under another key than their own (a local element declared in a named group, "
             "registered under the referencing type's scope) can no longer be found in the restored pool")
    bp = os.path.join(core.VERIF, "baselines", "serial_templates.json")
    if os.environ.get("VERIF_REBASELINE") == "serial_fields":
        json.dump({t: v[0] for t, v in sorted(template_sig.items())}, open(bp, "w"), indent=0, sort_keys=True)
    if not os.path.exists(bp):
        raise AnalysisBroken("baseline baselines/serial_templates.json is missing")
    base = json.load(open(bp))
    n = 0
    for ty, ops in sorted(base.items()):
        if ty not in template_sig:
            rep.notes.append("C16.e/template: container %s of the baseline has no storeObject any more" % ty)
            continue
        now, where = template_sig[ty]
        lost = {k: v - now.get(k, 0) for k, v in ops.items() if now.get(k, 0) < v}
        n += 1
        rep.ob("C16.e/template", ty, not lost, "%d operations, none lost" % sum(ops.values()) if not lost else
               "storeObject(%s) no longer writes %s: a key or member of the container's entries is not transferred any more" % (
                   ty, ", ".join("%s x%d" % kv for kv in sorted(lost.items()))), where)
    rep.floor("C16.e/template", n, 20)


def run(rep):
    f = core.library_facts()
    fns = _engine_functions(f)
    names = sorted(set(fn["q"] for fn in fns))
    files = sorted(set(fn["file"] for fn in fns if fn["file"].endswith(".cpp")))
    rx = "^(" + "|".join(re.escape(n) for n in names) + ")$"
    g = core.run_xa([os.path.join(core.REPO, x) for x in files], st=rx,
                    cfg=r"^XMLGrammarPoolImpl::(de)?serializeGrammars$", flat=False)
    rep.units.update(files)
    sts = g.sts

    # ------------------------------------------------------------------ C16.a serialize()
    rep.rule("C16.a/serialize", "for every concrete class with serialize(XSerializeEngine&): the wire program of the storing "
             "branch equals that of the loading branch (sequence, loops, alternatives; operation kind and type from the "
             "resolved overload; base-class calls and store*/load* helpers inlined; a tag written first in every branch is "
             "hoisted) and each value is loaded into the member it was stored from")
    n = 0
    total_ops = 0
    field_ctx = {}
    for q in sorted(sts):
        if not q.endswith("::serialize"):
            continue
        cls = q.rsplit("::", 1)[0]
        # concrete = its createObject really creates (IMPL_XSERIALIZABLE_TOCREATE); abstract bases are covered inlined
        co = f.fns_named(cls + "::createObject")
        creates = any(x["k"] == "new" for fn in co for x in fn["_facts"])
        for s in sts[q]:
            st = serial.strip(serial.Extractor(sts, cls).items(s["body"], "store"))
            ld = serial.strip(serial.Extractor(sts, cls).items(s["body"], "load"))
            if not creates and cls not in ("XMLStringPool", "DatatypeValidatorFactory", "XMLGrammarPoolImpl"):
                rep.notes.append("%s: abstract/no-create class, compared only as inlined base of its concrete subclasses" % cls)
                continue
            d = []
            serial.compare(st, ld, FIELD_ALIAS, cls, d)
            field_ctx[cls] = (_field_ctx(st), "%s:%d" % (s["file"], s["line"]))
            nops = serial.count_ops(st)
            total_ops += nops
            n += 1
            rep.ob("C16.a/serialize", cls, not d,
                   "%d wire operations, store == load" % nops if not d else d[0],
                   "%s:%d" % (s["file"], s["line"]), detail={"store": _render(st), "load": _render(ld)})
    rep.count(total_ops)
    rep.floor("C16.a/serialize", n, 60)
    persisted_rule(rep, field_ctx)
    value_members_rule(rep, f, field_ctx)
    engine_accounting_rule(rep)

    # ------------------------------------------------------------------ C16.a templates
    rep.rule("C16.a/template", "every XTemplateSerializer::storeObject(C*) has a loadObject(C**) for the same container type "
             "and their wire programs are equal")
    stores, loads = {}, {}
    template_sig = {}
    for kind, tab in (("storeObject", stores), ("loadObject", loads)):
        for s in sts.get("XTemplateSerializer::" + kind, []):
            ps = serial._params(s["sig"])
            ty = serial._norm_type(ps[0]).replace("* *", "*").strip()
            tab[ty] = s
    k = 0
    for ty in sorted(set(stores) | set(loads)):
        k += 1
        if ty not in stores or ty not in loads:
            rep.ob("C16.a/template", ty, False, "container %s has only a %s function" % (ty, "storeObject" if ty in stores else "loadObject"),
                   "src/xercesc/internal/XTemplateSerializer.cpp")
            continue
        st = serial.strip(serial.Extractor(sts, "XTemplateSerializer").items(stores[ty]["body"], "store"))
        ld = serial.strip(serial.Extractor(sts, "XTemplateSerializer").items(loads[ty]["body"], "load"))
        d = []
        serial.compare(st, ld, {}, ty, d, fields=False)
        total_ops += serial.count_ops(st)
        rep.ob("C16.a/template", ty, not d, "%d wire operations, store == load" % serial.count_ops(st) if not d else d[0],
               "%s:%d" % (stores[ty]["file"], stores[ty]["line"]), detail={"store": _render(st), "load": _render(ld)})
        template_sig[ty] = (_op_sig(st), "%s:%d" % (stores[ty]["file"], stores[ty]["line"]))
    rep.floor("C16.a/template", k, 25)
    template_wire_rule(rep, template_sig)

    # ------------------------------------------------------------------ C16.a pool
    rep.rule("C16.a/pool", "XMLGrammarPoolImpl::serializeGrammars and deserializeGrammars have equal wire programs")
    sg = sts.get("XMLGrammarPoolImpl::serializeGrammars")
    dg = sts.get("XMLGrammarPoolImpl::deserializeGrammars")
    if not sg or not dg:
        raise AnalysisBroken("XMLGrammarPoolImpl::(de)serializeGrammars vanished")
    st = serial.strip(serial.Extractor(sts, "XMLGrammarPoolImpl").items(sg[0]["body"], "store"))
    ld = serial.strip(serial.Extractor(sts, "XMLGrammarPoolImpl").items(dg[0]["body"], "load"))
    d = []
    serial.compare(st, ld, {}, "XMLGrammarPoolImpl", d, fields=False)
    rep.ob("C16.a/pool", "XMLGrammarPoolImpl", not d and serial.count_ops(st) >= 3,
           "%d wire operations, store == load" % serial.count_ops(st) if not d else d[0],
           "%s:%d" % (sg[0]["file"], sg[0]["line"]), detail={"store": _render(st), "load": _render(ld)})

    level_rule(rep, g, st)
    loaddv_rule(rep, f, sts)
    diag.run(rep, f, "C16")
    from ..engines import dispatch
    dispatch.run(rep, f, "C16")
    rep.undecided += ["behavioural identity of state that is recomputed on load (content models, compiled regular expressions)",
                      "the engine's own buffer arithmetic (XSerializeEngine::read/write, alignment) — value-level"]
    rep.assumptions += ["an operation is identified by the resolved overload on an expression denoting the engine "
                        "(parameter/local named *serEng*, or a chained operator result)"]
    return ("Static: the storing and loading wire programs of every serialisable class, container template and of the pool "
            "itself are extracted from the statement trees (resolved overloads) and compared as trees, including which "
            "member each value belongs to; the level guard dominates every read; loadDV's dispatch is checked against the "
            "constructors. Decides symmetry of the protocol, not the restored pool's behaviour.")


def _render(items, depth=0):
    out = []
    for it in items[:60]:
        if it[0] == "op":
            out.append("%s%s(%s)%s @%s" % ("  " * depth, it[1], it[2], (" " + it[3]) if it[3] else "", it[4]))
        elif it[0] == "loop":
            out.append("%sloop @%s" % ("  " * depth, it[2]))
            out += _render(it[1], depth + 1)
        else:
            out.append("%salt @%s" % ("  " * depth, it[2]))
            for a in it[1]:
                out.append("%s |" % ("  " * depth))
                out += _render(a, depth + 1)
    return out


def level_rule(rep, g, store_items):
    rep.rule("C16.d", "serializeGrammars writes the serialisation level first; in deserializeGrammars the comparison of the level "
             "read with XERCES_GRAMMAR_SERIALIZATION_LEVEL, whose mismatch edge throws XSerializationException, precedes "
             "every other read on every path")
    first = store_items[0] if store_items else None
    ok = bool(first) and first[0] == "op" and first[1] == "<<" and first[2] == "unsigned int"
    rep.ob("C16.d", "serializeGrammars/level-first", ok, "first stored value is the unsigned int level" if ok else
           "the first stored value is not the serialisation level: %s" % (first,), "src/xercesc/framework/XMLGrammarPoolImpl.cpp")
    cfg = guard.Cfg(g.cfg("XMLGrammarPoolImpl::deserializeGrammars"))

    def cond_is_level(c):
        m1 = guard.mentions(c, lambda s: s[0] == "l" and s[1] == "StorerLevel")
        m2 = c[0] == "b" and c[1] in ("!=", "==")
        return m1 and m2
    gs = guard.guards(cfg, cond_is_level)
    # the leaving edge must throw XSerializationException
    good = {}
    for (bid, k), t in gs.items():
        other = cfg.blocks[bid]["succ"][1 - k]
        seen, work, thr = set(), [other], False
        while work and len(seen) < 8:
            b = work.pop()
            if b in seen or b is None:
                continue
            seen.add(b)
            for el in cfg.blocks[b]["els"]:
                x = el.get("x")
                if x and x[0] == "t" and "XSerializationException" in str(x[2]):
                    thr = True
            work.extend(cfg.succs(b))
        if thr:
            good[(bid, k)] = t

    def is_read(el):
        for x in guard.el_top_calls(el):
            if x[0] != "c":
                continue
            short = x[1].split("::")[-1]
            if short == "operator>>" and not any(a == ["l", "StorerLevel"] for a in x[3]):
                return True
            if short in ("loadObject", "serialize", "readString", "readSize", "read"):
                return True
        return False
    res = guard.must_precede(cfg, lambda el: False, is_read, edge_a=lambda b, k: (b, k) in good)
    n = len(res)
    bad = [el.get("l") for b, i, el, ok in res if not ok]
    rep.ob("C16.d", "deserializeGrammars/level-guard", bool(good) and n >= 3 and not bad,
           "%d reads, all dominated by the level check" % n if good and not bad else
           ("level check missing or not throwing XSerializationException" if not good else "reads at lines %s are not preceded by the level check" % bad),
           "%s" % cfg.file)
    # the mismatch report itself must not fail for any level value: the numbers formatted for the message fit
    TYPE_DIGITS = {"unsigned int": 10, "int": 10, "XMLSize_t": 20, "unsigned long": 20, "unsigned short": 5}
    decl = {}
    for bid, i, el in cfg.elements():
        for d in el.get("decl", []):
            decl[d[0]] = d[1]
    k = 0
    for bid, i, el in guard.sites(cfg, lambda x: x[0] == "c" and x[1] == "XMLString::binToText" and len(x[3]) >= 4):
        x = el["x"]
        val, cap, radix = x[3][0], x[3][2], x[3][3]
        while val[0] == "cast":
            val = val[2]
        if cap[0] != "i" or radix != ["i", 10]:
            raise AnalysisBroken("deserializeGrammars: binToText with a non-constant capacity or radix")
        if val[0] == "i":
            need = len(str(abs(val[1])))
        elif val[0] == "l" and decl.get(val[1]) in TYPE_DIGITS:
            need = TYPE_DIGITS[decl[val[1]]]
        else:
            raise AnalysisBroken("deserializeGrammars: cannot bound the number formatted at line %s" % el.get("l"))
        k += 1
        rep.ob("C16.d", "deserializeGrammars/report@%s" % (core.sx_str(val)), cap[1] >= need,
               "up to %d digits fit the %d allowed" % (need, cap[1]) if cap[1] >= need else
               "deserializeGrammars (line %s) formats %s, which can need %d digits, with room for %d: for such a level binToText throws "
               "IllegalArgumentException and the mismatch is not reported as XSerializationException" % (el.get("l"), core.sx_str(val), need, cap[1]),
               "%s:%s" % (cfg.file, el.get("l", 0)))
    rep.floor("C16.d/report", k, 2)


def loaddv_rule(rep, f, sts):
    rep.rule("C16.c", "DatatypeValidator::loadDV: every ValidatorType enumerator that some validator class passes to its base "
             "constructor has a case, and the class deserialised in `case X` is a class whose constructors pass X")
    s = sts.get("DatatypeValidator::loadDV")
    if not s:
        raise AnalysisBroken("DatatypeValidator::loadDV vanished")
    # class -> enumerators its constructors pass
    passed = {}
    for x in f.kind("ctor"):
        fn = x["_fn"]
        if not fn.get("ctor"):
            continue
        for a in x["a"]:
            for y in sx_walk(a):
                if y[0] == "e" and y[1].startswith("DatatypeValidator::") and y[1].split("::")[-1] not in ("UnKnown",):
                    # only ValidatorType enumerators
                    passed.setdefault(fn["cls"], set()).add(y[1].split("::")[-1])
    vt = dict(f.enums["DatatypeValidator::ValidatorType"]["items"])
    for c in passed:
        passed[c] &= set(vt)
    producible = set(e for v in passed.values() for e in v)
    if len(producible) < 20:
        raise AnalysisBroken("could not recover the producible ValidatorType set (%d)" % len(producible))
    # cases
    cases = {}

    def walk(st):
        if not isinstance(st, list) or not st:
            return
        if st[0] == "switch":
            body = st[2]
            stmts = body[1] if body[0] == "block" else [body]
            cur = []
            for c in stmts:
                if c and c[0] == "case":
                    cur = []
                    inner = c
                    while inner and inner[0] == "case":
                        lab = inner[1]
                        for y in sx_walk(lab):
                            if y[0] == "e":
                                cur.append(y[1].split("::")[-1])
                        inner = inner[2]
                    for lab in cur:
                        cases.setdefault(lab, [])
                    c = inner
                if c and c[0] == "default":
                    cur = []
                    c = c[1]
                if c and c[0] == "expr":
                    for y in sx_walk(c[1]):
                        if y[0] == "c" and y[1].split("::")[-1] == "operator>>" and len(y) > 4:
                            ps = serial._params(y[4])
                            if len(ps) > 1:
                                t = serial._norm_type(ps[1]).replace("*", "").strip()
                                for lab in cur:
                                    cases.setdefault(lab, []).append(t)
            return
        for y in st[1:]:
            if isinstance(y, list):
                if y and isinstance(y[0], list):
                    for z in y:
                        walk(z)
                else:
                    walk(y)
    walk(s[0]["body"])
    for e in sorted(producible):
        ok = e in cases and cases[e]
        rep.ob("C16.c", "loadDV/case " + e, bool(ok), "case %s reads %s" % (e, cases.get(e)) if ok else
               "ValidatorType %s is produced by %s but loadDV has no case that reads it" % (e, sorted(c for c, v in passed.items() if e in v)),
               "%s:%d" % (s[0]["file"], s[0]["line"]))
        if ok:
            for t in cases[e]:
                okc = e in passed.get(t, set())
                rep.ob("C16.c", "loadDV/class %s->%s" % (e, t), okc,
                       "%s constructors pass %s" % (t, e) if okc else "case %s deserialises %s, whose constructors pass %s" % (e, t, sorted(passed.get(t, []))),
                       "%s:%d" % (s[0]["file"], s[0]["line"]))
