"""C16 — a serialised grammar pool restores to a behaviourally identical pool.

C16.a  wire-program equality of the storing and the loading side of every concrete
       T::serialize(XSerializeEngine&) (base calls and store*/load* helpers inlined),
       of every XTemplateSerializer::storeObject/loadObject pair, and of
       XMLGrammarPoolImpl::serializeGrammars/deserializeGrammars — including the
       member each value comes from / goes to (order of fields)
C16.c  DatatypeValidator::loadDV dispatch: every producible ValidatorType has a case,
       and the class read in `case X` is a class whose constructors pass X
C16.d  serialisation level: written first, checked (throwing XSerializationException)
       before anything else is read
C16.e  diagnostics matrix (DIAG)
"""
import os
import re

from .. import core
from ..core import AnalysisBroken, sx_walk
from ..engines import diag, guard, serial

# (class, stored member) -> loaded member, confirmed by reading: the value is deliberately loaded into another member
FIELD_ALIAS = {
    ("DTDAttDefList", "fCount"): "fSize",       # the element count sizes fArray exactly; fCount is rebuilt by the enumeration
    ("SchemaAttDefList", "fCount"): "fSize",    # same idiom
}


def _engine_functions(f):
    fns = [fn for q, fns in f.by_q.items() for fn in fns
           if "XSerializeEngine &" in fn["sig"] and fn.get("cls") != "XSerializeEngine"]
    fns += f.fns_named("XMLGrammarPoolImpl::serializeGrammars") + f.fns_named("XMLGrammarPoolImpl::deserializeGrammars")
    return fns


def run(rep):
    f = core.library_facts()
    fns = _engine_functions(f)
    names = sorted(set(fn["q"] for fn in fns))
    files = sorted(set(fn["file"] for fn in fns if fn["file"].endswith(".cpp")))
    rx = "^(" + "|".join(re.escape(n) for n in names) + ")$"
    g = core.run_xa([os.path.join(core.REPO, x) for x in files], st=rx,
                    cfg=r"^XMLGrammarPoolImpl::(de)?serializeGrammars$", flat=False)
    rep.units.update(files)
    sts = g.sts

    # ------------------------------------------------------------------ C16.a serialize()
    rep.rule("C16.a/serialize", "for every concrete class with serialize(XSerializeEngine&): the wire program of the storing "
             "branch equals that of the loading branch (sequence, loops, alternatives; operation kind and type from the "
             "resolved overload; base-class calls and store*/load* helpers inlined; a tag written first in every branch is "
             "hoisted) and each value is loaded into the member it was stored from")
    n = 0
    total_ops = 0
    for q in sorted(sts):
        if not q.endswith("::serialize"):
            continue
        cls = q.rsplit("::", 1)[0]
        # concrete = its createObject really creates (IMPL_XSERIALIZABLE_TOCREATE); abstract bases are covered inlined
        co = f.fns_named(cls + "::createObject")
        creates = any(x["k"] == "new" for fn in co for x in fn["_facts"])
        for s in sts[q]:
            st = serial.strip(serial.Extractor(sts, cls).items(s["body"], "store"))
            ld = serial.strip(serial.Extractor(sts, cls).items(s["body"], "load"))
            if not creates and cls not in ("XMLStringPool", "DatatypeValidatorFactory", "XMLGrammarPoolImpl"):
                rep.notes.append("%s: abstract/no-create class, compared only as inlined base of its concrete subclasses" % cls)
                continue
            d = []
            serial.compare(st, ld, FIELD_ALIAS, cls, d)
            nops = serial.count_ops(st)
            total_ops += nops
            n += 1
            rep.ob("C16.a/serialize", cls, not d,
                   "%d wire operations, store == load" % nops if not d else d[0],
                   "%s:%d" % (s["file"], s["line"]), detail={"store": _render(st), "load": _render(ld)})
    rep.count(total_ops)
    rep.floor("C16.a/serialize", n, 60)

    # ------------------------------------------------------------------ C16.a templates
    rep.rule("C16.a/template", "every XTemplateSerializer::storeObject(C*) has a loadObject(C**) for the same container type "
             "and their wire programs are equal")
    stores, loads = {}, {}
    for kind, tab in (("storeObject", stores), ("loadObject", loads)):
        for s in sts.get("XTemplateSerializer::" + kind, []):
            ps = serial._params(s["sig"])
            ty = serial._norm_type(ps[0]).replace("* *", "*").strip()
            tab[ty] = s
    k = 0
    for ty in sorted(set(stores) | set(loads)):
        k += 1
        if ty not in stores or ty not in loads:
            rep.ob("C16.a/template", ty, False, "container %s has only a %s function" % (ty, "storeObject" if ty in stores else "loadObject"),
                   "src/xercesc/internal/XTemplateSerializer.cpp")
            continue
        st = serial.strip(serial.Extractor(sts, "XTemplateSerializer").items(stores[ty]["body"], "store"))
        ld = serial.strip(serial.Extractor(sts, "XTemplateSerializer").items(loads[ty]["body"], "load"))
        d = []
        serial.compare(st, ld, {}, ty, d, fields=False)
        total_ops += serial.count_ops(st)
        rep.ob("C16.a/template", ty, not d, "%d wire operations, store == load" % serial.count_ops(st) if not d else d[0],
               "%s:%d" % (stores[ty]["file"], stores[ty]["line"]), detail={"store": _render(st), "load": _render(ld)})
    rep.floor("C16.a/template", k, 25)

    # ------------------------------------------------------------------ C16.a pool
    rep.rule("C16.a/pool", "XMLGrammarPoolImpl::serializeGrammars and deserializeGrammars have equal wire programs")
    sg = sts.get("XMLGrammarPoolImpl::serializeGrammars")
    dg = sts.get("XMLGrammarPoolImpl::deserializeGrammars")
    if not sg or not dg:
        raise AnalysisBroken("XMLGrammarPoolImpl::(de)serializeGrammars vanished")
    st = serial.strip(serial.Extractor(sts, "XMLGrammarPoolImpl").items(sg[0]["body"], "store"))
    ld = serial.strip(serial.Extractor(sts, "XMLGrammarPoolImpl").items(dg[0]["body"], "load"))
    d = []
    serial.compare(st, ld, {}, "XMLGrammarPoolImpl", d, fields=False)
    rep.ob("C16.a/pool", "XMLGrammarPoolImpl", not d and serial.count_ops(st) >= 3,
           "%d wire operations, store == load" % serial.count_ops(st) if not d else d[0],
           "%s:%d" % (sg[0]["file"], sg[0]["line"]), detail={"store": _render(st), "load": _render(ld)})

    level_rule(rep, g, st)
    loaddv_rule(rep, f, sts)
    diag.run(rep, f, "C16")
    from ..engines import dispatch
    dispatch.run(rep, f, "C16")
    rep.undecided += ["behavioural identity of state that is recomputed on load (content models, compiled regular expressions)",
                      "the engine's own buffer arithmetic (XSerializeEngine::read/write, alignment) — value-level"]
    rep.assumptions += ["an operation is identified by the resolved overload on an expression denoting the engine "
                        "(parameter/local named *serEng*, or a chained operator result)"]
    return ("Static: the storing and loading wire programs of every serialisable class, container template and of the pool "
            "itself are extracted from the statement trees (resolved overloads) and compared as trees, including which "
            "member each value belongs to; the level guard dominates every read; loadDV's dispatch is checked against the "
            "constructors. Decides symmetry of the protocol, not the restored pool's behaviour.")


def _render(items, depth=0):
    out = []
    for it in items[:60]:
        if it[0] == "op":
            out.append("%s%s(%s)%s @%s" % ("  " * depth, it[1], it[2], (" " + it[3]) if it[3] else "", it[4]))
        elif it[0] == "loop":
            out.append("%sloop @%s" % ("  " * depth, it[2]))
            out += _render(it[1], depth + 1)
        else:
            out.append("%salt @%s" % ("  " * depth, it[2]))
            for a in it[1]:
                out.append("%s |" % ("  " * depth))
                out += _render(a, depth + 1)
    return out


def level_rule(rep, g, store_items):
    rep.rule("C16.d", "serializeGrammars writes the serialisation level first; in deserializeGrammars the comparison of the level "
             "read with XERCES_GRAMMAR_SERIALIZATION_LEVEL, whose mismatch edge throws XSerializationException, precedes "
             "every other read on every path")
    first = store_items[0] if store_items else None
    ok = bool(first) and first[0] == "op" and first[1] == "<<" and first[2] == "unsigned int"
    rep.ob("C16.d", "serializeGrammars/level-first", ok, "first stored value is the unsigned int level" if ok else
           "the first stored value is not the serialisation level: %s" % (first,), "src/xercesc/framework/XMLGrammarPoolImpl.cpp")
    cfg = guard.Cfg(g.cfg("XMLGrammarPoolImpl::deserializeGrammars"))

    def cond_is_level(c):
        m1 = guard.mentions(c, lambda s: s[0] == "l" and s[1] == "StorerLevel")
        m2 = c[0] == "b" and c[1] in ("!=", "==")
        return m1 and m2
    gs = guard.guards(cfg, cond_is_level)
    # the leaving edge must throw XSerializationException
    good = {}
    for (bid, k), t in gs.items():
        other = cfg.blocks[bid]["succ"][1 - k]
        seen, work, thr = set(), [other], False
        while work and len(seen) < 8:
            b = work.pop()
            if b in seen or b is None:
                continue
            seen.add(b)
            for el in cfg.blocks[b]["els"]:
                x = el.get("x")
                if x and x[0] == "t" and "XSerializationException" in str(x[2]):
                    thr = True
            work.extend(cfg.succs(b))
        if thr:
            good[(bid, k)] = t

    def is_read(el):
        for x in guard.el_top_calls(el):
            if x[0] != "c":
                continue
            short = x[1].split("::")[-1]
            if short == "operator>>" and not any(a == ["l", "StorerLevel"] for a in x[3]):
                return True
            if short in ("loadObject", "serialize", "readString", "readSize", "read"):
                return True
        return False
    res = guard.must_precede(cfg, lambda el: False, is_read, edge_a=lambda b, k: (b, k) in good)
    n = len(res)
    bad = [el.get("l") for b, i, el, ok in res if not ok]
    rep.ob("C16.d", "deserializeGrammars/level-guard", bool(good) and n >= 3 and not bad,
           "%d reads, all dominated by the level check" % n if good and not bad else
           ("level check missing or not throwing XSerializationException" if not good else "reads at lines %s are not preceded by the level check" % bad),
           "%s" % cfg.file)


def loaddv_rule(rep, f, sts):
    rep.rule("C16.c", "DatatypeValidator::loadDV: every ValidatorType enumerator that some validator class passes to its base "
             "constructor has a case, and the class deserialised in `case X` is a class whose constructors pass X")
    s = sts.get("DatatypeValidator::loadDV")
    if not s:
        raise AnalysisBroken("DatatypeValidator::loadDV vanished")
    # class -> enumerators its constructors pass
    passed = {}
    for x in f.kind("ctor"):
        fn = x["_fn"]
        if not fn.get("ctor"):
            continue
        for a in x["a"]:
            for y in sx_walk(a):
                if y[0] == "e" and y[1].startswith("DatatypeValidator::") and y[1].split("::")[-1] not in ("UnKnown",):
                    # only ValidatorType enumerators
                    passed.setdefault(fn["cls"], set()).add(y[1].split("::")[-1])
    vt = dict(f.enums["DatatypeValidator::ValidatorType"]["items"])
    for c in passed:
        passed[c] &= set(vt)
    producible = set(e for v in passed.values() for e in v)
    if len(producible) < 20:
        raise AnalysisBroken("could not recover the producible ValidatorType set (%d)" % len(producible))
    # cases
    cases = {}

    def walk(st):
        if not isinstance(st, list) or not st:
            return
        if st[0] == "switch":
            body = st[2]
            stmts = body[1] if body[0] == "block" else [body]
            cur = []
            for c in stmts:
                if c and c[0] == "case":
                    cur = []
                    inner = c
                    while inner and inner[0] == "case":
                        lab = inner[1]
                        for y in sx_walk(lab):
                            if y[0] == "e":
                                cur.append(y[1].split("::")[-1])
                        inner = inner[2]
                    for lab in cur:
                        cases.setdefault(lab, [])
                    c = inner
                if c and c[0] == "default":
                    cur = []
                    c = c[1]
                if c and c[0] == "expr":
                    for y in sx_walk(c[1]):
                        if y[0] == "c" and y[1].split("::")[-1] == "operator>>" and len(y) > 4:
                            ps = serial._params(y[4])
                            if len(ps) > 1:
                                t = serial._norm_type(ps[1]).replace("*", "").strip()
                                for lab in cur:
                                    cases.setdefault(lab, []).append(t)
            return
        for y in st[1:]:
            if isinstance(y, list):
                if y and isinstance(y[0], list):
                    for z in y:
                        walk(z)
                else:
                    walk(y)
    walk(s[0]["body"])
    for e in sorted(producible):
        ok = e in cases and cases[e]
        rep.ob("C16.c", "loadDV/case " + e, bool(ok), "case %s reads %s" % (e, cases.get(e)) if ok else
               "ValidatorType %s is produced by %s but loadDV has no case that reads it" % (e, sorted(c for c, v in passed.items() if e in v)),
               "%s:%d" % (s[0]["file"], s[0]["line"]))
        if ok:
            for t in cases[e]:
                okc = e in passed.get(t, set())
                rep.ob("C16.c", "loadDV/class %s->%s" % (e, t), okc,
                       "%s constructors pass %s" % (t, e) if okc else "case %s deserialises %s, whose constructors pass %s" % (e, t, sorted(passed.get(t, []))),
                       "%s:%d" % (s[0]["file"], s[0]["line"]))
