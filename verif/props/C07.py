"""C07 — DTD validation reports a validity error iff a validity constraint is violated.

C07.a  validity diagnostics matrix (DIAG): DTDValidator, IG/DG scanners, DTDScanner, content models
C07.b  a validity violation is never fatal: XMLValid's severity functions folded over every enumerator
C07.c  content-model dispatch over ContentSpecNode::NodeTypes / ModelTypes (DISPATCH)
"""
import os
import re

from .. import core, sxeval
from ..core import AnalysisBroken
from ..engines import diag, dispatch, guard


def severity_rule(rep):
    rep.rule("C07.b", "no validity code is fatal: XMLValid::errorType / isFatal / isError / isWarning, folded for every XMLValid "
             "enumerator, classify each as error or warning and none as fatal (the F range of XMLValid holds only its two bounds); "
             "XMLValidator::emitError derives the severity from XMLValid::errorType")
    g = core.run_xa([os.path.join(core.REPO, "src/xercesc/framework/XMLValidator.cpp")], st=r"^XMLValid::", flat=True)
    en = g.enums.get("XMLValid::Codes")
    if not en:
        raise AnalysisBroken("enum XMLValid::Codes vanished")
    items = dict(en["items"])
    et = dict(g.enums["XMLErrorReporter::ErrTypes"]["items"])
    codes = [(n, v) for n, v in en["items"] if not n.endswith("Bounds") and n != "NoError"]
    if len(codes) < 70:
        raise AnalysisBroken("XMLValid::Codes shrank to %d codes" % len(codes))
    s = g.st("XMLValid::errorType")
    fat = [n for n, v in codes if sxeval.run_st(s["body"], {"toCheck": v}) == et["ErrType_Fatal"]]
    unk = [n for n, v in codes if sxeval.run_st(s["body"], {"toCheck": v}) not in (et["ErrType_Error"], et["ErrType_Warning"], et["ErrType_Fatal"])]
    rep.count(len(codes))
    rep.ob("C07.b", "XMLValid::errorType", not fat and not unk, "%d validity codes, each classified error or warning" % len(codes) if not fat and not unk else
           ("validity codes classified FATAL: %s" % fat[:6] if fat else "validity codes with no severity: %s" % unk[:6]), "%s:%d" % (s["file"], s["line"]))
    s2 = g.st("XMLValid::isFatal")
    fat2 = [n for n, v in codes if sxeval.run_st(s2["body"], {"toCheck": v})]
    rep.ob("C07.b", "XMLValid::isFatal", not fat2, "false for every validity code" if not fat2 else "true for %s" % fat2[:6], "%s:%d" % (s2["file"], s2["line"]))
    # emitError uses errorType
    fns = [fn for fn in g.fns_named("XMLValidator::emitError")]
    ok = bool(fns) and all(any(x["k"] == "call" and x["x"][1] == "XMLValid::errorType" for x in fn["_facts"]) for fn in fns)
    rep.ob("C07.b", "XMLValidator::emitError", ok, "%d overloads take the severity from XMLValid::errorType" % len(fns) if ok else
           "an XMLValidator::emitError overload no longer derives the severity from XMLValid::errorType", "src/xercesc/framework/XMLValidator.cpp")


CM_DIR = "src/xercesc/validators/common/"


def glushkov_rule(rep):
    """the node-local part of the position automaton construction, decided by exhaustive evaluation of the statement
    trees over their finite domains (node type x nullability of the children); position sets are symbolic."""
    from .. import sxeval
    rep.rule("C07.c", "content-model algebra (Glushkov / Aho-Sethi-Ullman construction, node-local part): folding the statement "
             "trees of CMUnaryOp / CMBinaryOp constructors and calcFirstPos / calcLastPos over every node type and every "
             "nullability of the children gives nullable(x?) = nullable(x*) = true, nullable(x+) = nullable(x), nullable(a|b) = "
             "nullable(a) or nullable(b), nullable(a,b) = nullable(a) and nullable(b); first(a|b) = first(a) U first(b), "
             "first(a,b) = first(a) U (first(b) if nullable(a)), last(a,b) = last(b) U (last(a) if nullable(b)); unary nodes pass "
             "their child's sets through. A different table accepts a different language than the declared content model")
    tus = [os.path.join(core.REPO, CM_DIR + "CMUnaryOp.cpp"), os.path.join(core.REPO, CM_DIR + "CMBinaryOp.cpp")]
    g = core.run_xa(tus, st=r"^CM(Unary|Binary)Op::(CMUnaryOp|CMBinaryOp|calcFirstPos|calcLastPos)$", flat=False)
    enums = g.enums.get("ContentSpecNode::NodeTypes")
    if not enums:
        raise AnalysisBroken("enum ContentSpecNode::NodeTypes not found")
    ev = {e[0].split("::")[-1]: e[1] for e in enums["items"]} if "items" in enums else None
    if ev is None:
        raise AnalysisBroken("enum ContentSpecNode::NodeTypes has no enumerator list in the facts")

    def call(x, env):
        name, recv = x[1], x[2]
        if name == "CMNode::isNullable" and recv and recv[0] == "f":
            return env["null:" + recv[1].split("::")[-1]]
        if name in ("CMNode::getFirstPos", "CMNode::getLastPos") and recv and recv[0] == "f":
            return frozenset([("First" if "First" in name else "Last", recv[1].split("::")[-1])])
        if name == "CMNode::getType" and recv == ["this"]:
            return env["type"]
        if name == "CMStateSet::operator=" and recv and recv[0] == "p":
            env[recv[2]] = sxeval.ev(x[3][0], env)
            return env[recv[2]]
        if name == "CMStateSet::operator|=" and recv and recv[0] == "p":
            env[recv[2]] = env.get(recv[2], frozenset()) | sxeval.ev(x[3][0], env)
            return env[recv[2]]
        raise sxeval.Unmodelled("call of %s in a content-model node function" % name)

    def body(q):
        return g.st(q)["body"]
    n = 0

    def ob(key, ok, what, q):
        nonlocal n
        n += 1
        rep.ob("C07.c", key, ok, what, CM_DIR + q.split("::")[0] + ".cpp")
    # unary: nullable
    for tname in ("ZeroOrOne", "ZeroOrMore", "OneOrMore"):
        for c in (0, 1):
            env = sxeval.run_env(body("CMUnaryOp::CMUnaryOp"), {"type": ev[tname], "__call__": call, "null:fChild": c})
            want = c if tname == "OneOrMore" else 1
            got = None if env is None else env.get("f:CMNode::fIsNullable")
            ob("unary/nullable/%s/child=%d" % (tname, c), got is not None and bool(got) == bool(want),
               "nullable = %s" % got if got is not None and bool(got) == bool(want) else
               "CMUnaryOp(%s) over a %snullable child is marked %s; the regular-expression algebra requires %s" % (
                   tname, "" if c else "non-", {None: "(constructor throws)"}.get(got, "nullable" if got else "not nullable"),
                   "nullable" if want else "not nullable"), "CMUnaryOp::CMUnaryOp")
    for fn, tag in (("calcFirstPos", "First"), ("calcLastPos", "Last")):
        env = sxeval.run_env(body("CMUnaryOp::" + fn), {"__call__": call})
        got = env and env.get("toSet")
        ob("unary/%s" % fn, got == frozenset([(tag, "fChild")]),
           "passes the child's %s set through" % tag.lower() if got == frozenset([(tag, "fChild")]) else
           "CMUnaryOp::%s returns %s instead of its child's %s-position set" % (fn, sorted(got) if got else got, tag.lower()), "CMUnaryOp::" + fn)
    # binary
    for tname in ("Choice", "Sequence"):
        for l in (0, 1):
            for r in (0, 1):
                base = {"__call__": call, "null:fLeftChild": l, "null:fRightChild": r}
                env = sxeval.run_env(body("CMBinaryOp::CMBinaryOp"), dict(base, type=ev[tname]))
                want = (l or r) if tname == "Choice" else (l and r)
                got = None if env is None else env.get("f:CMNode::fIsNullable")
                ob("binary/nullable/%s/%d%d" % (tname, l, r), got is not None and bool(got) == bool(want),
                   "nullable = %s" % got if got is not None and bool(got) == bool(want) else
                   "CMBinaryOp(%s) with nullable(left)=%d nullable(right)=%d is marked %s; the algebra requires %s" % (
                       tname, l, r, got, int(bool(want))), "CMBinaryOp::CMBinaryOp")
                for fn in ("calcFirstPos", "calcLastPos"):
                    env = sxeval.run_env(body("CMBinaryOp::" + fn), dict(base, type=ev[tname]))
                    got = None if env is None else env.get("toSet")
                    gotc = None if got is None else frozenset(b for a, b in got)
                    if got is not None and any(a != ("First" if fn == "calcFirstPos" else "Last") for a, b in got):
                        gotc = frozenset("%s-positions of %s" % (a.lower(), b) for a, b in got)
                    if tname == "Choice":
                        wantc = frozenset(["fLeftChild", "fRightChild"])
                    elif fn == "calcFirstPos":
                        wantc = frozenset(["fLeftChild"] + (["fRightChild"] if l else []))
                    else:
                        wantc = frozenset(["fRightChild"] + (["fLeftChild"] if r else []))
                    ob("binary/%s/%s/%d%d" % (fn, tname, l, r), gotc == wantc,
                       "%s = union over %s" % (fn, sorted(wantc)) if gotc == wantc else
                       "CMBinaryOp::%s for %s with nullable(left)=%d nullable(right)=%d takes the positions of %s; the construction "
                       "requires those of %s" % (fn, tname, l, r, sorted(gotc) if gotc is not None else None, sorted(wantc)),
                       "CMBinaryOp::" + fn)
    rep.floor("C07.c", n, 30)


def cdata_content_rule(rep):
    from ..engines import guard
    rep.rule("C07.d", "a CDATA section is character data (VC: Element Valid): in scanCDSection of the validating scanners every report "
             "of NoCharDataInCM is controlled by exactly the test `character-data options != AllCharData` — element-only content "
             "(SpacesOk) rejects a CDATA section just as EMPTY does, even a blank one; a weaker test (only NoCharData) lets "
             "<a><![CDATA[x]]><b/></a> pass for <!ELEMENT a (b)>")
    sites = [("IGXMLScanner::scanCDSection", "src/xercesc/internal/IGXMLScanner2.cpp"), ("DGXMLScanner::scanCDSection", "src/xercesc/internal/DGXMLScanner.cpp"),
             ("SGXMLScanner::scanCDSection", "src/xercesc/internal/SGXMLScanner.cpp")]
    g = core.run_xa([os.path.join(core.REPO, fl) for _, fl in sites], cfg=r"^(IG|DG|SG)XMLScanner::scanCDSection$", flat=False)
    n = 0
    for q, fl in sites:
        cfg = guard.Cfg(g.cfg(q))
        ss = guard.sites(cfg, lambda x: x[0] == "c" and x[1].endswith("::emitError") and any(
            isinstance(a, list) and a and a[0] == "e" and a[1] == "XMLValid::NoCharDataInCM" for a in x[3]))
        if not ss:
            raise AnalysisBroken("%s no longer reports NoCharDataInCM" % q)
        for bid, i, el in ss:
            n += 1
            ok = False
            seen = []
            for cond, pol, _p in guard.controlling(cfg, bid):
                if cond[0] == "b" and cond[1] in ("!=", "==") and any(isinstance(y, list) and y and y[0] == "e" and y[1].endswith("::AllCharData")
                                                                         for y in (cond[2], cond[3])):
                    if (cond[1] == "!=") == pol:
                        ok = True
                if any(isinstance(y, list) and y and y[0] == "e" and "CharData" in y[1] or (isinstance(y, list) and y and y[0] == "e" and y[1].endswith("::SpacesOk"))
                       for y in core.sx_walk(cond)):
                    seen.append(("" if pol else "!") + core.sx_str(cond))
            rep.ob("C07.d", "%s@%s" % (q, el.get("l")), ok, "reported whenever the content model does not allow all character data" if ok else
                   "%s (line %s): NoCharDataInCM is reported under %s, not under `options != AllCharData`: a CDATA section in element-only "
                   "content is accepted" % (q, el.get("l"), seen or "no test of the character-data options"), "%s:%s" % (fl, el.get("l", 0)))
    rep.floor("C07.d", n, 4)


def token_list_rule(rep):
    from ..engines import guard
    rep.rule("C07.e", "every name of a NOTATION attribute's list is a declared notation (VC: Notation Attributes): in "
             "DTDValidator::checkTokenList, with notation checking requested, each token that the scan pointer has stepped over is "
             "looked up with getNotationDecl before the function can return (CFG must-dataflow under the assumption "
             "toValidateNotation: generated by the lookup, killed by advancing the scan pointer) — leaving the loop right after the "
             "last token was delimited skips its check, and <!ATTLIST e f NOTATION (gif|png)> with png undeclared passes")
    g = core.run_xa([os.path.join(core.REPO, "src/xercesc/validators/DTD/DTDValidator.cpp")], cfg=r"^DTDValidator::checkTokenList$", flat=False)
    cfg = guard.pruned(guard.Cfg(g.cfg("DTDValidator::checkTokenList")),
                       lambda leaf: True if (leaf[0] == "p" and leaf[2] == "toValidateNotation") else None)
    scans = set()
    for b, i, el in cfg.elements():
        x = el.get("x")
        if x and x[0] == "u" and x[1].startswith("++") and x[2][0] == "l":
            scans.add(x[2][1])
    if not scans:
        raise AnalysisBroken("checkTokenList: no scan pointer found")

    def gen(el):
        return any(c[0] == "c" and c[1].split("::")[-1] == "getNotationDecl" for c in guard.el_top_calls(el)) or \
            bool(el.get("x")) and guard.mentions(el["x"], lambda y: isinstance(y, list) and y and y[0] == "c" and y[1].split("::")[-1] == "getNotationDecl")

    def kill(el):
        x = el.get("x")
        return bool(x) and guard.mentions(x, lambda y: isinstance(y, list) and len(y) == 3 and y[0] == "u" and isinstance(y[1], str) and y[1].startswith("++")
                                           and y[2][0] == "l" and y[2][1] in scans)
    if not any(gen(el) for _, _, el in cfg.elements()):
        raise AnalysisBroken("checkTokenList no longer looks notations up")
    st = guard.must_state(cfg, gen_el=gen, kill_el=kill, entry=True)
    rb = guard.reachable(cfg)
    bad = [cfg.line_of(p) for p in cfg.preds[cfg.exit] if p in rb and not cfg.throws(p) and not st(p, len(cfg.blocks[p]["els"]))]
    # the gen may sit in the terminator condition of a block: handle blocks whose condition holds the lookup
    rep.ob("C07.e", "DTDValidator::checkTokenList", not bad, "each delimited token is looked up before the function returns" if not bad else
           "DTDValidator::checkTokenList can return (via line %s) after stepping over a token without looking it up among the declared "
           "notations: the last name of a NOTATION list is never checked" % bad, "src/xercesc/validators/DTD/DTDValidator.cpp")


ATTR_VALIDATION_FNS = [("DGXMLScanner::scanStartTag", "src/xercesc/internal/DGXMLScanner.cpp"),
                       ("DGXMLScanner::scanStartTagNS", "src/xercesc/internal/DGXMLScanner.cpp"),
                       ("DGXMLScanner::buildAttList", "src/xercesc/internal/DGXMLScanner.cpp"),
                       ("IGXMLScanner::scanStartTag", "src/xercesc/internal/IGXMLScanner.cpp"),
                       ("IGXMLScanner::buildAttList", "src/xercesc/internal/IGXMLScanner2.cpp")]
# the one site that is meaningless for a DTD: attribute wildcards exist only in schema grammars
ATTR_VALIDATION_SCHEMA_ONLY = "attDefForWildCard"


def attr_value_validated_rule(rep):
    rep.rule("C07.f", "with validation on and a DTD grammar, every attribute value the DTD-aware scanners produce — given in the "
             "start tag or faulted in from a default — is handed to the validator (VC: Attribute Value Type and the ID/IDREF/ENTITY/"
             "NOTATION bookkeeping that hangs off it): each validateAttrValue call site of DGXMLScanner / IGXMLScanner start-tag "
             "handling stays reachable under fValidate with the grammar type DTD; a site fenced off by a grammar-type test silently "
             "stops validating that class of values")
    P = lambda c: isinstance(c[1], str) and c[1].endswith("::validateAttrValue")

    def assume(x):
        if x[0] == "f" and x[1].endswith("::fValidate"):
            return True
        if x[0] == "b" and x[1] in ("==", "!=") and any(isinstance(y, list) and y[0] == "f" and y[1].endswith("::fGrammarType") for y in (x[2], x[3])):
            e = [y for y in (x[2], x[3]) if isinstance(y, list) and y[0] == "e"]
            if e:
                is_dtd = e[0][1].endswith("DTDGrammarType")
                return is_dtd if x[1] == "==" else (not is_dtd)
        return None
    n = 0
    for q, fl in ATTR_VALIDATION_FNS:
        g = core.run_xa([os.path.join(core.REPO, fl)], cfg="^" + re.escape(q) + "$", flat=False)
        cfg = guard.Cfg(g.cfg(q))
        live = {(b, i) for b, i, el in guard.reachable_sites(cfg, P, assume)}
        for b, i, el in guard.sites(cfg, P):
            calls = [c for c in guard.el_top_calls(el) if P(c)]
            if calls and calls[0][3] and calls[0][3][0] == ["l", ATTR_VALIDATION_SCHEMA_ONLY]:
                continue
            n += 1
            ok = (b, i) in live
            rep.ob("C07.f", "%s@validateAttrValue:%s" % (q, el.get("l")), ok, "reached when validating against a DTD" if ok else
                   "%s: the validateAttrValue call at line %s cannot be reached with fValidate set and a DTD grammar — these attribute "
                   "values are no longer validated against their declared type" % (q, el.get("l")), "%s:%s" % (fl, el.get("l", 0)))
    rep.floor("C07.f", n, 7)


def run(rep):
    f = core.library_facts()
    rep.units.update(os.path.relpath(t, core.REPO) for t in f.tus)
    severity_rule(rep)
    glushkov_rule(rep)
    cdata_content_rule(rep)
    token_list_rule(rep)
    attr_value_validated_rule(rep)
    diag.run(rep, f, "C07")
    dispatch.run(rep, f, "C07")
    rep.undecided += ["that the automaton built from a content model accepts exactly the declared language (DFA construction, nullability, "
                      "follow sets): value-level", "attribute typing, ID/IDREF logic, standalone-declaration constraints",
                      "identical effect of defaults/entities with validation on and off"]
    return ("Static: validity-diagnostics matrix per validator/scanner function, severity functions folded over every validity code, "
            "content-model dispatch coverage. Decides that each validity check still reports and that no validity error is fatal, not "
            "the verdict.")
