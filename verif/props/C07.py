"""C07 — DTD validation reports a validity error iff a validity constraint is violated.

C07.a  validity diagnostics matrix (DIAG): DTDValidator, IG/DG scanners, DTDScanner, content models
C07.b  a validity violation is never fatal: XMLValid's severity functions folded over every enumerator
C07.c  content-model dispatch over ContentSpecNode::NodeTypes / ModelTypes (DISPATCH)
"""
import os

from .. import core, sxeval
from ..core import AnalysisBroken
from ..engines import diag, dispatch


def severity_rule(rep):
    rep.rule("C07.b", "no validity code is fatal: XMLValid::errorType / isFatal / isError / isWarning, folded for every XMLValid "
             "enumerator, classify each as error or warning and none as fatal (the F range of XMLValid holds only its two bounds); "
             "XMLValidator::emitError derives the severity from XMLValid::errorType")
    g = core.run_xa([os.path.join(core.REPO, "src/xercesc/framework/XMLValidator.cpp")], st=r"^XMLValid::", flat=True)
    en = g.enums.get("XMLValid::Codes")
    if not en:
        raise AnalysisBroken("enum XMLValid::Codes vanished")
    items = dict(en["items"])
    et = dict(g.enums["XMLErrorReporter::ErrTypes"]["items"])
    codes = [(n, v) for n, v in en["items"] if not n.endswith("Bounds") and n != "NoError"]
    if len(codes) < 70:
        raise AnalysisBroken("XMLValid::Codes shrank to %d codes" % len(codes))
    s = g.st("XMLValid::errorType")
    fat = [n for n, v in codes if sxeval.run_st(s["body"], {"toCheck": v}) == et["ErrType_Fatal"]]
    unk = [n for n, v in codes if sxeval.run_st(s["body"], {"toCheck": v}) not in (et["ErrType_Error"], et["ErrType_Warning"], et["ErrType_Fatal"])]
    rep.count(len(codes))
    rep.ob("C07.b", "XMLValid::errorType", not fat and not unk, "%d validity codes, each classified error or warning" % len(codes) if not fat and not unk else
           ("validity codes classified FATAL: %s" % fat[:6] if fat else "validity codes with no severity: %s" % unk[:6]), "%s:%d" % (s["file"], s["line"]))
    s2 = g.st("XMLValid::isFatal")
    fat2 = [n for n, v in codes if sxeval.run_st(s2["body"], {"toCheck": v})]
    rep.ob("C07.b", "XMLValid::isFatal", not fat2, "false for every validity code" if not fat2 else "true for %s" % fat2[:6], "%s:%d" % (s2["file"], s2["line"]))
    # emitError uses errorType
    fns = [fn for fn in g.fns_named("XMLValidator::emitError")]
    ok = bool(fns) and all(any(x["k"] == "call" and x["x"][1] == "XMLValid::errorType" for x in fn["_facts"]) for fn in fns)
    rep.ob("C07.b", "XMLValidator::emitError", ok, "%d overloads take the severity from XMLValid::errorType" % len(fns) if ok else
           "an XMLValidator::emitError overload no longer derives the severity from XMLValid::errorType", "src/xercesc/framework/XMLValidator.cpp")


def run(rep):
    f = core.library_facts()
    rep.units.update(os.path.relpath(t, core.REPO) for t in f.tus)
    severity_rule(rep)
    diag.run(rep, f, "C07")
    dispatch.run(rep, f, "C07")
    rep.undecided += ["that the automaton built from a content model accepts exactly the declared language (DFA construction, nullability, "
                      "follow sets): value-level", "attribute typing, ID/IDREF logic, standalone-declaration constraints",
                      "identical effect of defaults/entities with validation on and off"]
    return ("Static: validity-diagnostics matrix per validator/scanner function, severity functions folded over every validity code, "
            "content-model dispatch coverage. Decides that each validity check still reports and that no validity error is fatal, not "
            "the verdict.")
