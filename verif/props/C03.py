"""C03 — reported content equals the document's infoset; SAX, SAX2, DOM and pull parse agree.

C03.a  forwarding/event matrix (DIAG engine over calls): every internal scanner event that an API adapter
       (SAXParser, SAX2XMLReaderImpl, AbstractDOMParser, DOMLSParserImpl, XSDDOMParser) turned into public-API
       effects on the pinned tree is still turned into those effects; every event each scanner function
       delivered is still delivered (per class and function, closed over same-object calls)
C03.b  entity-reference event balance: every EndOfEntityException handler of the content-level scanning
       functions (scanContent, scanNext, scanCharData) of each scanner delivers endEntityReference
"""
import os
import re

from .. import core
from ..core import AnalysisBroken, sx_walk
from ..engines import diag
from .C13 import _exprs

CONTENT_FUNCS = ("scanContent", "scanNext", "scanCharData")
SCANNERS = ("IGXMLScanner", "DGXMLScanner", "SGXMLScanner", "WFXMLScanner")


def _handlers(s):
    if not isinstance(s, list) or not s:
        return
    if s[0] == "try":
        for h in s[2]:
            yield h
    for y in s[1:]:
        if isinstance(y, list):
            if y and isinstance(y[0], list):
                for z in y:
                    for h in _handlers(z):
                        yield h
            else:
                for h in _handlers(y):
                    yield h


def eoe_rule(rep, f):
    rep.rule("C03.b", "entity-reference event balance: in scanContent, scanNext and scanCharData of each of the four scanners every "
             "handler for EndOfEntityException (the point where a general entity's replacement text ends) calls "
             "endEntityReference on the document handler — progressive and one-shot parsing, and all scanners, deliver the "
             "same entity boundaries")
    names = ["%s::%s" % (s, fn) for s in SCANNERS for fn in CONTENT_FUNCS]
    fns = [fn for q in names for fn in f.fns_named(q)]
    if len(fns) < 12:
        raise AnalysisBroken("content-level scanning functions vanished: %d of 12 found" % len(fns))
    tus = sorted(set(os.path.join(core.REPO, fn["file"]) for fn in fns))
    g = core.run_xa(tus, st="^(" + "|".join(re.escape(q) for q in names) + ")$", flat=False)
    n = 0
    for q in names:
        for s in g.sts.get(q, []):
            k = 0
            for htype, hbody in _handlers(s["body"]):
                if htype != "EndOfEntityException":
                    continue
                k += 1
                n += 1
                calls = set(y[1].split("::")[-1] for e in _exprs(hbody) for y in sx_walk(e) if y[0] == "c")
                ok = "endEntityReference" in calls
                rep.ob("C03.b", "%s@catch(EndOfEntityException)#%d" % (q, k), ok, "delivers endEntityReference" if ok else
                       "%s swallows the end of an entity without delivering endEntityReference: SAX2 endEntity is lost and DOM content "
                       "after the reference ends up inside the entity-reference node" % q, "%s:%d" % (s["file"], s["line"]))
            if k == 0:
                rep.ob("C03.b", q, False, "%s no longer handles EndOfEntityException" % q, "%s:%d" % (s["file"], s["line"]))
    rep.floor("C03.b", n, 12)


COLLAPSE_SCHEMA = {
    "SGXMLScanner::normalizeAttValue": "schema-only scanner: the attribute types it sees come from simple types whose whiteSpace facet is "
                                       "collapse, which XML Schema applies to the value whatever its lexical origin — a referenced tab "
                                       "is collapsed there by specification, so the reference status is not an input of this site",
}
COLLAPSE_SITES = [("IGXMLScanner::normalizeAttValue", "src/xercesc/internal/IGXMLScanner2.cpp"),
                  ("IGXMLScanner::scanAttValue", "src/xercesc/internal/IGXMLScanner2.cpp"),
                  ("DGXMLScanner::scanAttValue", "src/xercesc/internal/DGXMLScanner.cpp"),
                  ("SGXMLScanner::normalizeAttValue", "src/xercesc/internal/SGXMLScanner.cpp"),
                  ("DTDScanner::scanAttValue", "src/xercesc/validators/DTD/DTDScanner.cpp")]


def collapse_rule(rep):
    from ..engines import advance
    rep.rule("C03.c", "attribute-value normalisation of tokenized types (XML 1.0 3.3.3: leading and trailing spaces discarded, runs "
             "of spaces replaced by one): the two-state machine (InWhitespace / InContent, with the seen-a-token flag) in the five "
             "places that implement it — IG/SG normalizeAttValue, IG/DG scanAttValue, DTDScanner::scanAttValue for defaults — folded "
             "over every (state, flag, whitespace?, came-from-a-character-reference?, is #x20?) combination does exactly: in "
             "InWhitespace a non-blank emits one separating space iff a token was seen, enters InContent and is kept; a blank is "
             "dropped; in InContent a blank enters InWhitespace and is dropped, a non-blank is kept and sets the flag. A "
             "character reference to anything but #x20 is never a blank. Unknown side conditions (standalone checks) fork and "
             "must not change the outcome")
    pat = "^(" + "|".join(re.escape(q) for q, _ in COLLAPSE_SITES) + ")$"
    g = core.run_xa(sorted({os.path.join(core.REPO, fl) for _, fl in COLLAPSE_SITES}), st=pat, flat=False)

    def find(n, out):
        if not isinstance(n, list) or not n:
            return
        if isinstance(n[0], list):
            for c in n:
                find(c, out)
            return
        if n[0] == "if" and n[1][0] == "b" and n[1][1] == "==" and n[1][2][0] == "l" and n[1][3][0] == "e" and n[1][3][1].endswith("::InWhitespace"):
            out.append(n)
            return
        for c in n[1:]:
            if isinstance(c, list):
                find(c, out)
    total = 0
    for q, fl in COLLAPSE_SITES:
        nodes = []
        for st in g.sts.get(q, []):
            find(st["body"], nodes)
        if len(nodes) != 1:
            raise AnalysisBroken("%s: expected one `if (state == InWhitespace) ... else if (state == InContent)` machine, found %d" % (q, len(nodes)))
        node = nodes[0]
        S = node[1][2][1]
        INWS = node[1][3][2]
        enums = {x[1].split("::")[-1]: x[2] for x in sx_walk(node) if isinstance(x, list) and x and x[0] == "e" and "::In" in x[1]}
        if set(enums) != {"InWhitespace", "InContent"}:
            raise AnalysisBroken("%s: machine states are %s" % (q, sorted(enums)))
        INC = enums["InContent"]
        locs = {x[1] for x in sx_walk(node) if isinstance(x, list) and len(x) == 2 and x[0] == "l"}
        flags = sorted(v for v in locs if v not in (S, "nextCh", "srcPtr") and v.lower().startswith("first"))
        if len(flags) != 1:
            raise AnalysisBroken("%s: cannot identify the seen-a-token flag among %s" % (q, sorted(locs)))
        FLAG = flags[0]
        has_esc = "escaped" in locs
        # Every one of these places receives characters that came from character references (the 0xFFFF marker of
        # the raw attribute buffer, or scanEntityRef's `escaped` out-parameter), so the reference status is always an
        # input of the specification even when the machine does not consult it.
        exempt = COLLAPSE_SCHEMA.get(q)

        def hook(x, st, it):
            nm = x[1].split("::")[-1]
            if nm == "isWhitespace" and x[3] == [["l", "nextCh"]]:
                return st.v["__ws"]
            if nm == "append" and x[1].startswith("XMLBuffer::"):
                st.events.append("SP" if x[3] == [["g", "chSpace"]] else "CH")
                return advance.TOP
            return NotImplemented
        for st0 in (INWS, INC):
            for first in (0, 1):
                for ws, sp in ((0, 0), (1, 0), (1, 1)):
                    for esc in (0, 1):
                        blank = bool(sp) or (bool(ws) and not esc)
                        if exempt and esc:
                            continue
                        env = {S: st0, FLAG: first, "__ws": ws, "nextCh": 0x20 if sp else (0x09 if ws else 0x41), "g:chSpace": 0x20}
                        if has_esc:
                            env["escaped"] = esc
                        it = advance.Interp(call_hook=hook)
                        outs = set()
                        for kind, s2 in it.run(node, advance.State(env)):
                            outs.add((kind, s2.v.get(S), s2.v.get(FLAG), tuple(s2.events)))
                        if st0 == INWS:
                            want = ("continue", INWS, first, ()) if blank else ("next", INC, 1, ("SP",) if first else ())
                        else:
                            want = ("continue", INWS, first, ()) if blank else ("next", INC, 1, ())
                        total += 1
                        key = "%s/%s/first=%d/%s%s" % (q, "InWhitespace" if st0 == INWS else "InContent", first,
                                                        "space" if sp else ("tab-or-newline" if ws else "char"), "/charref" if esc else "")
                        ok = outs == {want}

                        def show(o):
                            return "%s, state %s, flag %s, emits %s" % ({"next": "keeps the character", "continue": "drops the character"}.get(o[0], o[0]),
                                                                        "InWhitespace" if o[1] == INWS else "InContent", o[2], list(o[3]))
                        rep.ob("C03.c", key, ok, show(want) if ok else
                               "%s: in %s (token seen: %d) a %s%s -> %s; normalisation requires: %s" % (
                                   q, "InWhitespace" if st0 == INWS else "InContent", first, "character reference to " if esc else "",
                                   "#x20" if sp else ("tab/newline" if ws else "non-blank character"),
                                   " | ".join(show(o) for o in sorted(outs, key=str)), show(want)), fl)
    rep.floor("C03.c", total, 60)


def escaped_flag_rule(rep, f):
    from ..engines import guard
    rep.rule("C03.d", "the came-from-a-reference flag belongs to one character: in every scanning loop that hands a local flag to "
             "scanEntityRef(.., flag) (attribute values, character data, entity literals of the four scanners and the DTD scanner) "
             "each read of the flag is preceded, since the last character was fetched (getNextChar*), by `flag = false` or by the "
             "scanEntityRef call that sets it (CFG must-dataflow: generated by those, killed by fetching the next character) — a "
             "flag that survives into the next character makes literal `<`, tabs and newlines after a reference count as escaped")
    fns = {}
    for x in f.kind("call"):
        c = x["x"]
        if c[1].split("::")[-1] == "scanEntityRef" and c[3] and c[3][-1][0] == "l":
            fns.setdefault((x["_fn"]["q"], x["_fn"]["file"]), set()).add(c[3][-1][1])
    if len(fns) < 8:
        raise AnalysisBroken("fewer than 8 functions pass a local flag to scanEntityRef (%d)" % len(fns))
    tus = sorted({os.path.join(core.REPO, fl) for (_, fl) in fns if fl.endswith(".cpp")})
    g = core.run_xa(tus, cfg="^(" + "|".join(sorted({re.escape(q) for (q, _) in fns})) + ")$", flat=False)
    n = 0
    for (q, fl), flags in sorted(fns.items()):
        for raw in g.cfgs.get(q, []):
            cfg = guard.Cfg(raw)
            for L in sorted(flags):
                V = ["l", L]

                def gen(el, V=V):
                    x = el.get("x")
                    if x and x[0] == "b" and x[1] == "=" and x[2] == V and x[3] in (["i", 0], ["cast", "bool", ["i", 0]]):
                        return True
                    for d in el.get("decl", []):
                        if d[0] == V[1] and d[2] in (["i", 0],):
                            return True
                    return any(c[0] == "c" and c[1].split("::")[-1] == "scanEntityRef" and c[3] and c[3][-1] == V for c in guard.el_top_calls(el))

                def kill(el):
                    return any(c[0] == "c" and c[1].split("::")[-1] in ("getNextChar", "getNextCharIfNot", "peekNextChar")
                               for c in guard.el_top_calls(el))
                st = guard.must_state(cfg, gen_el=gen, kill_el=kill)
                bad = []
                reads = 0
                for bid, blk in cfg.blocks.items():
                    t = blk.get("term")
                    c = t and t.get("cond")
                    if c and guard.mentions(c, lambda s_, V=V: s_ == V):
                        reads += 1
                        if not st(bid, len(blk["els"])):
                            bad.append(t.get("l"))
                if not reads:
                    continue
                n += 1
                rep.ob("C03.d", "%s/%s" % (q, L), not bad, "%d reads of %s, each after a reset or scanEntityRef for the current character" % (reads, L) if not bad else
                       "%s: the flag %s is tested at line %s although it has not been reset (nor set by scanEntityRef) since the next "
                       "character was fetched: the value left by an earlier character reference is used" % (q, L, sorted(set(bad))),
                       "%s:%s" % (fl, sorted(set(bad))[0] if bad else raw.get("line", 0)))
    rep.floor("C03.d", n, 8)


def eol_rule(rep):
    from ..engines import advance
    rep.rule("C03.e", "end-of-line handling (XML 1.0 2.11, XML 1.1 2.11): XMLReader::handleEOL, the one place where line ends are "
             "folded, interpreted for every combination of (character, following character, whether that character is already in the "
             "buffer / arrives with a refill / does not exist, external or internal entity, NEL recognition on or off): in an external "
             "entity CR LF and (with NEL recognition) CR NEL become one LF — the second character is consumed also when it only "
             "arrives with the refill — a lone CR becomes LF, NEL and LSEP become LF exactly when NEL recognition is on, every other "
             "character is untouched; in an internal entity nothing is changed or consumed; each folded line end counts one line")
    g = core.run_xa([os.path.join(core.REPO, "src/xercesc/internal/XMLReader.cpp")], st=r"^XMLReader::handleEOL$", flat=False)
    body = g.st("XMLReader::handleEOL")["body"]
    enums = {}
    for x in sx_walk(body):
        if isinstance(x, list) and x and x[0] == "e":
            enums[x[1].split("::")[-1]] = x[2]
    if "Source_External" not in enums:
        raise AnalysisBroken("handleEOL no longer distinguishes external entities (Source_External)")
    CR, LF, NEL, LSEP = 0x0D, 0x0A, 0x85, 0x2028
    names = {CR: "CR", LF: "LF", NEL: "NEL", LSEP: "LSEP", 0x61: "'a'", 0x62: "'b'"}
    n = 0
    for cur in (CR, LF, NEL, LSEP, 0x61):
        for nxt in (LF, NEL, 0x62):
            for avail in ("buffered", "refill", "none"):
                for ext in (1, 0):
                    for nel in (0, 1):
                        START = 100

                        def arr(i, st, nxt=nxt):
                            return nxt if (i == START and st.v["f:XMLReader::fCharsAvail"] > START) else advance.TOP

                        def hook(x, st, it, avail=avail):
                            if x[1].split("::")[-1] == "refreshCharBuffer":
                                if avail == "refill":
                                    st.v["f:XMLReader::fCharsAvail"] = START + 1
                                    return 1
                                return 0
                            return NotImplemented
                        env = {"p:curCh": cur, "p:inDecl": 0, "g:chCR": CR, "g:chLF": LF, "g:chNEL": NEL, "g:chLineSeparator": LSEP,
                               "f:XMLReader::fCharIndex": START, "f:XMLReader::fCharsAvail": START + (1 if avail == "buffered" else 0),
                               "f:XMLReader::fSource": enums["Source_External"] if ext else enums["Source_External"] + 1,
                               "f:XMLReader::fNEL": nel, "f:XMLReader::fCurLine": 10, "f:XMLReader::fCurCol": 5,
                               "arr:XMLReader::fCharBuf": arr}
                        it = advance.Interp(call_hook=hook)
                        outs = set()
                        for kind, s2 in it.run(body, advance.State(env)):
                            outs.add((s2.v.get("p:curCh"), s2.v.get("f:XMLReader::fCharIndex") - START, s2.v.get("f:XMLReader::fCurLine") - 10))
                        if ext:
                            if cur == CR:
                                eat = 1 if (avail != "none" and (nxt == LF or (nxt == NEL and nel))) else 0
                                want = (LF, eat, 1)
                            elif cur == LF:
                                want = (LF, 0, 1)
                            elif cur in (NEL, LSEP):
                                want = (LF, 0, 1) if nel else (cur, 0, 0)
                            else:
                                want = (cur, 0, 0)
                        else:
                            want = (cur, 0, None)       # line accounting of internal entities is not prescribed
                        got_ok = len(outs) == 1 and all(o[0] == want[0] and o[1] == want[1] and (want[2] is None or o[2] == want[2]) for o in outs)
                        n += 1
                        key = "%s+%s/%s/%s/nel=%d" % (names[cur], names[nxt], avail, "external" if ext else "internal", nel)

                        def show(o):
                            return "delivers %s, consumes %s following character(s), counts %s line(s)" % (
                                names.get(o[0], o[0]), o[1], "?" if o[2] is None else o[2])
                        rep.ob("C03.e", key, got_ok, show(want) if got_ok else
                               "XMLReader::handleEOL for %s followed by %s (%s) in an %s entity with NEL recognition %s: %s; required: %s" % (
                                   names[cur], names[nxt], {"buffered": "already in the buffer", "refill": "arriving with the next refill",
                                                            "none": "no further character"}[avail], "external" if ext else "internal",
                                   "on" if nel else "off", " | ".join(show(o) for o in sorted(outs, key=str)), show(want)),
                               "src/xercesc/internal/XMLReader.cpp")
    rep.floor("C03.e", n, 150)


ATOMIC_EXEMPT = {
    "IGXMLScanner::scanDocTypeDecl": "error recovery after a missing `>` of the DOCTYPE: both outcomes report a fatal error, no content is delivered from here",
    "DGXMLScanner::scanDocTypeDecl": "same error recovery as in IGXMLScanner",
    "DTDScanner::scanIgnoredSection": "inside an ignored conditional section every character is discarded anyway",
}
SCAN_TUS = ["src/xercesc/internal/IGXMLScanner.cpp", "src/xercesc/internal/IGXMLScanner2.cpp", "src/xercesc/internal/DGXMLScanner.cpp",
            "src/xercesc/internal/SGXMLScanner.cpp", "src/xercesc/internal/WFXMLScanner.cpp", "src/xercesc/internal/XSAXMLScanner.cpp",
            "src/xercesc/internal/XMLScanner.cpp", "src/xercesc/validators/DTD/DTDScanner.cpp"]


def atomic_delimiter_rule(rep):
    from ..engines import guard
    rep.rule("C03.f", "a multi-character delimiter is recognised atomically: the reader's skippedChar / skippedString / skippedSpace "
             "consume what they match, so a condition `skippedX(a) && skippedX(b)` (CFG: the true edge of one consuming test leads "
             "straight into a second one that shares its false target) leaves `a` consumed when `b` does not follow — e.g. the second "
             "`]` of `]]` inside a CDATA section would be dropped. No such pair exists in the scanners; delimiters are matched with "
             "one skippedString call")
    g = core.run_xa([os.path.join(core.REPO, t) for t in SCAN_TUS],
                    cfg=r"^(IGXMLScanner|DGXMLScanner|SGXMLScanner|WFXMLScanner|XSAXMLScanner|XMLScanner|DTDScanner)::", flat=False)
    CONSUME = ("skippedChar", "skippedString", "skippedStringLong", "skippedSpace")

    def consuming(c):
        while c and c[0] == "u" and c[1] == "!":
            return False        # a negated test: the continuing edge is the 'not matched' one
        return bool(c) and c[0] == "c" and c[1].split("::")[-1] in CONSUME
    nfun = ntests = 0
    for q, raws in sorted(g.cfgs.items()):
        for raw in raws:
            cfg = guard.Cfg(raw)
            nfun += 1
            for bid, blk in cfg.blocks.items():
                t = blk.get("term")
                if not t or len(blk["succ"]) != 2 or not consuming(t.get("cond")):
                    continue
                ntests += 1
                b2 = blk["succ"][0]
                if b2 is None:
                    continue
                blk2 = cfg.blocks[b2]
                t2 = blk2.get("term")
                if t2 and len(blk2["succ"]) == 2 and consuming(t2.get("cond")) and blk2["succ"][1] == blk["succ"][1] and \
                        all(guard.el_top_calls(e) == [] or e.get("x") == t2.get("cond") or consuming(e.get("x")) for e in blk2["els"]):
                    ex = ATOMIC_EXEMPT.get(q)
                    rep.ob("C03.f", "%s@%s" % (q, core.sx_str(t["cond"])), bool(ex), ("exempt: " + ex) if ex else
                           "%s (line %s) tests %s && %s: when the first matches and the second does not, the character consumed by the "
                           "first is lost" % (q, t.get("l"), core.sx_str(t["cond"]), core.sx_str(t2["cond"])), "%s:%s" % (cfg.file, t.get("l", 0)))
    rep.count(ntests)
    rep.ob("C03.f", "scanners", True, "%d consuming tests in %d scanner functions, none chained with && outside the three exempt places" % (ntests, nfun), "")
    rep.floor("C03.f", ntests, 60)


def locator_entity_rule(rep):
    from ..engines import guard
    rep.rule("C03.g", "positions come from the enclosing external entity, however deep the nesting: ReaderMgr::getLastExtEntity, which "
             "the Locator and every error position go through, walks down the reader stack in a loop (CFG cycle) whose body tests "
             "each stacked entity with isExternal() — internal entities can be nested to any depth, so a fixed number of steps "
             "reports line numbers relative to an intermediate entity's text and a null system id")
    g = core.run_xa([os.path.join(core.REPO, "src/xercesc/internal/ReaderMgr.cpp")], cfg=r"^ReaderMgr::getLastExtEntity$", flat=False)
    cfg = guard.Cfg(g.cfg("ReaderMgr::getLastExtEntity"))
    # blocks on a cycle
    def reach(b0):
        seen, work = set(), list(cfg.succs(b0))
        while work:
            b = work.pop()
            if b in seen:
                continue
            seen.add(b)
            work.extend(cfg.succs(b))
        return seen
    cyc = {b for b in cfg.blocks if b in reach(b)}
    tests = [b for b in cyc if (cfg.blocks[b].get("term") or {}).get("cond") and guard.mentions(
        cfg.blocks[b]["term"]["cond"], lambda y: isinstance(y, list) and y and y[0] == "c" and y[1].split("::")[-1] == "isExternal")]
    ok = bool(tests)
    rep.ob("C03.g", "ReaderMgr::getLastExtEntity", ok, "stack walked in a loop that tests isExternal()" if ok else
           "ReaderMgr::getLastExtEntity no longer walks the reader stack in a loop testing isExternal(): for internal entities nested "
           "more than one deep the position reported is that inside an intermediate internal entity", "src/xercesc/internal/ReaderMgr.cpp")


def run(rep):
    f = core.library_facts()
    rep.units.update(os.path.relpath(t, core.REPO) for t in f.tus)
    diag.run(rep, f, "C03")
    from ..engines import dispatch
    dispatch.run(rep, f, "C03")
    eoe_rule(rep, f)
    collapse_rule(rep)
    escaped_flag_rule(rep, f)
    eol_rule(rep)
    atomic_delimiter_rule(rep)
    locator_entity_rule(rep)
    rep.undecided += ["every value-level clause: line-end and attribute-value normalisation, entity expansion results, character references, "
                      "DTD defaulting, line numbers — not applicable to static analysis",
                      "that the forwarded arguments are the right ones"]
    return ("Static: event/forwarding matrix over resolved calls (which public-API effects each adapter callback and each "
            "scanner function can reach) against the confirmed baseline, and the entity-boundary notification in every "
            "end-of-entity handler. Decides that no event kind is dropped by an adapter or a scanner, not the delivered values.")
