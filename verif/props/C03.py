"""C03 — reported content equals the document's infoset; SAX, SAX2, DOM and pull parse agree.

C03.a  forwarding/event matrix (DIAG engine over calls): every internal scanner event that an API adapter
       (SAXParser, SAX2XMLReaderImpl, AbstractDOMParser, DOMLSParserImpl, XSDDOMParser) turned into public-API
       effects on the pinned tree is still turned into those effects; every event each scanner function
       delivered is still delivered (per class and function, closed over same-object calls)
C03.b  entity-reference event balance: every EndOfEntityException handler of the content-level scanning
       functions (scanContent, scanNext, scanCharData) of each scanner delivers endEntityReference
"""
import os
import re

from .. import core
from ..core import AnalysisBroken, sx_walk
from ..engines import diag
from .C13 import _exprs

CONTENT_FUNCS = ("scanContent", "scanNext", "scanCharData")
SCANNERS = ("IGXMLScanner", "DGXMLScanner", "SGXMLScanner", "WFXMLScanner")


def _handlers(s):
    if not isinstance(s, list) or not s:
        return
    if s[0] == "try":
        for h in s[2]:
            yield h
    for y in s[1:]:
        if isinstance(y, list):
            if y and isinstance(y[0], list):
                for z in y:
                    for h in _handlers(z):
                        yield h
            else:
                for h in _handlers(y):
                    yield h


def eoe_rule(rep, f):
    rep.rule("C03.b", "entity-reference event balance: in scanContent, scanNext and scanCharData of each of the four scanners every "
             "handler for EndOfEntityException (the point where a general entity's replacement text ends) calls "
             "endEntityReference on the document handler — progressive and one-shot parsing, and all scanners, deliver the "
             "same entity boundaries")
    names = ["%s::%s" % (s, fn) for s in SCANNERS for fn in CONTENT_FUNCS]
    fns = [fn for q in names for fn in f.fns_named(q)]
    if len(fns) < 12:
        raise AnalysisBroken("content-level scanning functions vanished: %d of 12 found" % len(fns))
    tus = sorted(set(os.path.join(core.REPO, fn["file"]) for fn in fns))
    g = core.run_xa(tus, st="^(" + "|".join(re.escape(q) for q in names) + ")$", flat=False)
    n = 0
    for q in names:
        for s in g.sts.get(q, []):
            k = 0
            for htype, hbody in _handlers(s["body"]):
                if htype != "EndOfEntityException":
                    continue
                k += 1
                n += 1
                calls = set(y[1].split("::")[-1] for e in _exprs(hbody) for y in sx_walk(e) if y[0] == "c")
                ok = "endEntityReference" in calls
                rep.ob("C03.b", "%s@catch(EndOfEntityException)#%d" % (q, k), ok, "delivers endEntityReference" if ok else
                       "%s swallows the end of an entity without delivering endEntityReference: SAX2 endEntity is lost and DOM content "
                       "after the reference ends up inside the entity-reference node" % q, "%s:%d" % (s["file"], s["line"]))
            if k == 0:
                rep.ob("C03.b", q, False, "%s no longer handles EndOfEntityException" % q, "%s:%d" % (s["file"], s["line"]))
    rep.floor("C03.b", n, 12)


def run(rep):
    f = core.library_facts()
    rep.units.update(os.path.relpath(t, core.REPO) for t in f.tus)
    diag.run(rep, f, "C03")
    from ..engines import dispatch
    dispatch.run(rep, f, "C03")
    eoe_rule(rep, f)
    rep.undecided += ["every value-level clause: line-end and attribute-value normalisation, entity expansion results, character references, "
                      "DTD defaulting, line numbers — not applicable to static analysis",
                      "that the forwarded arguments are the right ones"]
    return ("Static: event/forwarding matrix over resolved calls (which public-API effects each adapter callback and each "
            "scanner function can reach) against the confirmed baseline, and the entity-boundary notification in every "
            "end-of-entity handler. Decides that no event kind is dropped by an adapter or a scanner, not the delivered values.")
