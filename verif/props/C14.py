"""C14 — live lists, iterators, walkers and ranges stay consistent under mutation.

C14.a  notify on mutate: iterator/range notifications bracket the link writes of the two tree mutators;
       every character-data edit and every splitText variant notifies the ranges; every in-place change
       that live lists observe bumps the change counter
C14.b  who-may-call the silent fast path (appendChildFast / set*Fast)
C14.c  registry pairing: ranges and iterators are registered on creation and unregistered on detach/release
C14.d  notification callbacks tolerate the initial state (null-initialised members are tested before use)
C14.e  the two boundary points of a Range are treated alike (start/end symmetry of the update callbacks)
C14.f  DOMException / DOMRangeException matrix (DIAG)
"""
import json
import os
import re

from .. import core, sxeval
from ..core import AnalysisBroken, sx_walk, sx_str
from ..engines import diag, guard
from .C13 import LINK, _exprs

DOMIMPL = "src/xercesc/dom/impl/"


def _top_calls(stmt):
    r = set()
    for e in _exprs(stmt):
        for y in sx_walk(e):
            if y[0] == "c":
                r.add(y[1].split("::")[-1])
    return r


def _has_link_write(stmt):
    for e in _exprs(stmt):
        for y in sx_walk(e):
            if y[0] == "b" and y[1] == "=" and isinstance(y[2], list) and y[2] and y[2][0] == "f" and y[2][1] in LINK:
                return True
    return False


def _has_return(stmt):
    if not isinstance(stmt, list) or not stmt:
        return False
    if stmt[0] == "return":
        return True
    return any(_has_return(y) if not (y and isinstance(y[0], list)) else any(_has_return(z) for z in y)
               for y in stmt[1:] if isinstance(y, list))


def notify_rule(rep, f):
    rep.rule("C14.a", "notify on mutate (structured statement order + CFG must-follow): DOMParentNode::removeChild notifies the "
             "node iterators (removeNode) and the ranges (updateRangeForDeletedNode) in statements that precede the first link "
             "write; DOMParentNode::insertBefore notifies the ranges (updateRangeForInsertedNode) after the last link write "
             "with no return in between; every normal path from a link write in either passes changed(); each character-data "
             "edit calls the matching range callback after changing the buffer; all splitText variants call updateSplitInfo; "
             "every function that changes an element's name in place calls changed()")
    g = core.run_xa([os.path.join(core.REPO, DOMIMPL + "DOMParentNode.cpp")],
                    st=r"^DOMParentNode::(insertBefore|removeChild)$", cfg=r"^DOMParentNode::(insertBefore|removeChild)$", flat=False)
    for q, before, after in (("DOMParentNode::removeChild", ["removeNode", "updateRangeForDeletedNode"], []),
                             ("DOMParentNode::insertBefore", [], ["updateRangeForInsertedNode"])):
        s = g.st(q)
        body = s["body"][1]
        idx_w = [i for i, st in enumerate(body) if _has_link_write(st)]
        if not idx_w:
            raise AnalysisBroken("%s no longer writes links at statement level" % q)
        first, last = idx_w[0], idx_w[-1]
        for name in before:
            pos = [i for i, st in enumerate(body) if name in _top_calls(st)]
            ok = bool(pos) and max(pos) < first and not any(_has_return(body[i]) and i > min(pos) and i < first and False for i in range(len(body)))
            rep.ob("C14.a/order", "%s/%s" % (q, name), ok,
                   "%s is called before the first link write" % name if ok else
                   ("%s no longer calls %s" % (q, name) if not pos else "%s calls %s only after links have been rewritten" % (q, name)),
                   "%s:%d" % (s["file"], s["line"]))
        for name in after:
            pos = [i for i, st in enumerate(body) if name in _top_calls(st)]
            ok = bool(pos) and min(pos) > last and not any(_has_return(body[i]) for i in range(last + 1, min(pos)))
            rep.ob("C14.a/order", "%s/%s" % (q, name), ok,
                   "%s is called after the last link write, no return in between" % name if ok else
                   ("%s no longer calls %s" % (q, name) if not pos else "%s can return between linking the node and calling %s" % (q, name)),
                   "%s:%d" % (s["file"], s["line"]))
        cfg = guard.Cfg(g.cfg(q))

        def is_lw(el):
            x = el.get("x")
            return bool(x and x[0] == "b" and x[1] == "=" and x[2][0] == "f" and x[2][1] in LINK)

        def is_changed(el):
            return any(x[0] == "c" and x[1].split("::")[-1] == "changed" for x in guard.el_top_calls(el))
        res = guard.must_follow(cfg, is_lw, is_changed)
        bad = [el.get("l") for b, i, el, ok in res if not ok]
        rep.ob("C14.a/changed", q, bool(res) and not bad, "%d link writes, each followed by changed() on every normal path" % len(res) if not bad else
               "link write at line %s can reach the function exit without changed(): live node lists would not refresh" % bad[:3],
               "%s:%s" % (cfg.file, bad[0] if bad else 0))
    # character data edits
    table = {"DOMCharacterDataImpl::deleteData": "updateRangeForDeletedText", "DOMCharacterDataImpl::insertData": "updateRangeForInsertedText",
             "DOMCharacterDataImpl::setNodeValue": "receiveReplacedText",
             "DOMTextImpl::splitText": "updateSplitInfo", "DOMCDATASectionImpl::splitText": "updateSplitInfo",
             "DOMCommentImpl::splitText": "updateSplitInfo", "DOMProcessingInstructionImpl::splitText": "updateSplitInfo"}
    for q, cb in sorted(table.items()):
        fns = f.fns_named(q)
        if not fns:
            raise AnalysisBroken("anchor %s vanished" % q)
        fn = fns[0]
        calls = [x for x in fn["_facts"] if x["k"] == "call" and x["x"][1] == "DOMRangeImpl::" + cb]
        muts = [x["l"] for x in fn["_facts"] if (x["k"] == "call" and x["x"][1].split("::")[-1] in ("set", "append", "insertAt", "deleteData", "setNodeValue", "chop", "setValue", "insertBefore") and
                                                 x["x"][2] and guard.mentions(x["x"][2], lambda s: s[0] == "f" and s[1].endswith("fDataBuf") or s == ["this"]))]
        ok = bool(calls) and (not muts or min(c["l"] for c in calls) > min(muts))
        rep.ob("C14.a/text", "%s/%s" % (q, cb), ok, "ranges are told (%s) after the data changed" % cb if ok else
               ("%s no longer calls DOMRangeImpl::%s: ranges in the edited node keep stale offsets" % (q, cb) if not calls else
                "%s calls %s before changing the data" % (q, cb)), "%s:%d" % (fn["file"], fn["line"]))
    # replaceData = delete + insert
    fn = f.fn("DOMCharacterDataImpl::replaceData")
    names = [x["x"][1].split("::")[-1] for x in fn["_facts"] if x["k"] == "call"]
    ok = "deleteData" in names and "insertData" in names
    rep.ob("C14.a/text", "DOMCharacterDataImpl::replaceData", ok, "implemented as deleteData + insertData (both notify)" if ok else
           "replaceData no longer goes through the notifying deleteData/insertData", "%s:%d" % (fn["file"], fn["line"]))
    # in-place name changes bump the change counter
    writers = {}
    for x in f.kind("fld"):
        if x["f"] in ("DOMElementImpl::fName", "DOMElementNSImpl::fLocalName") and x["how"] == "write" and not x["_fn"].get("ctor"):
            writers.setdefault(x["_fn"]["q"], x)
    callers = {}
    for x in f.kind("call"):
        callers.setdefault(x["x"][1], set()).add(x["_fn"]["q"])

    def bumps(q, depth=0):
        fns = f.fns_named(q)
        if any(y["k"] == "call" and y["x"][1].split("::")[-1] == "changed" for fn in fns for y in fn["_facts"]):
            return True
        if depth > 2:
            return False
        cs = [c for c in callers.get(q, ()) if not any(fn.get("ctor") for fn in f.fns_named(c))]
        return bool(cs) and all(bumps(c, depth + 1) for c in cs)
    k = 0
    for q, x in sorted(writers.items()):
        k += 1
        ok = bumps(q)
        rep.ob("C14.a/rename", q, ok, "changes an element name in place and bumps the change counter (itself or every non-constructor caller)" if ok else
               "%s changes an element's name in place without changed(): live getElementsByTagName lists keep their cached result" % q,
               "%s:%d" % (x["_fn"]["file"], x["l"]))
    rep.floor("C14.a/rename", k, 2)


FAST = {"DOMParentNode::appendChildFast": {"AbstractDOMParser": "tree builder: nodes are new and no range can exist in a document under construction",
                                           "DOMAttrImpl": "attribute value text node created by setValue/constructor on a value-less attribute",
                                           "XSDDOMParser": "schema DOM builder", "DOMLSParserImpl": "tree builder"},
        "DOMAttrMapImpl::setNamedItemFast": {"AbstractDOMParser": "tree builder", "XSDDOMParser": "schema DOM builder", "DOMElementImpl": "internal: used by the element's own fast attribute setter"},
        "DOMAttrMapImpl::setNamedItemNSFast": {"AbstractDOMParser": "tree builder", "XSDDOMParser": "schema DOM builder", "DOMElementImpl": "internal"},
        "DOMElementImpl::setAttributeNodeFast": {"AbstractDOMParser": "tree builder", "XSDDOMParser": "schema DOM builder"},
        "DOMElementImpl::setAttributeNodeNSFast": {"AbstractDOMParser": "tree builder", "XSDDOMParser": "schema DOM builder"}}


def fastpath_rule(rep, f):
    rep.rule("C14.b", "who-may-call (closed world): the unchecked, non-notifying fast paths (appendChildFast, set*Fast) are called "
             "only by the parser's tree builders and by the attribute value setter")
    n = 0
    for x in f.kind("call"):
        callee = x["x"][1]
        if callee not in FAST:
            continue
        cls = x["_fn"].get("cls", "")
        n += 1
        ok = cls in FAST[callee]
        rep.ob("C14.b", "%s<-%s" % (callee.split("::")[-1], x["_fn"]["q"]), ok,
               "allowed caller: %s" % FAST[callee].get(cls) if ok else
               "%s calls the silent fast path %s (no guards, no range/iterator notification)" % (x["_fn"]["q"], callee),
               "%s:%d" % (x["_fn"]["file"], x["l"]))
    rep.floor("C14.b", n, 9)


def registry_rule(rep, f):
    rep.rule("C14.c", "registry pairing: DOMDocumentImpl::createRange/createNodeIterator add the new object to the document's "
             "registry on every path; DOMRangeImpl::detach (and release through it) / DOMNodeIteratorImpl::detach remove it")
    for q, add in (("DOMDocumentImpl::createRange", "fRanges"), ("DOMDocumentImpl::createNodeIterator", "fNodeIterators")):
        fn = f.fn(q)
        ok = any(x["k"] == "call" and x["x"][1].split("::")[-1] == "addElement" and x["x"][2] and x["x"][2][0] == "f" and x["x"][2][1].endswith(add)
                 for x in fn["_facts"])
        rep.ob("C14.c", q, ok, "registers the object in %s" % add if ok else "%s no longer registers the object in %s: mutations will not update it" % (q, add),
               "%s:%d" % (fn["file"], fn["line"]))
    for q, rm in (("DOMRangeImpl::detach", "removeRange"), ("DOMNodeIteratorImpl::detach", "removeNodeIterator")):
        fn = f.fn(q)
        ok = any(x["k"] == "call" and x["x"][1].split("::")[-1] == rm for x in fn["_facts"])
        rep.ob("C14.c", q, ok, "unregisters through %s" % rm if ok else "%s no longer calls %s: a dead object stays registered and is called back" % (q, rm),
               "%s:%d" % (fn["file"], fn["line"]))
    for q, via in (("DOMRangeImpl::release", "detach"), ("DOMNodeIteratorImpl::release", "detach")):
        fn = f.fn(q)
        ok = any(x["k"] == "call" and x["x"][1].split("::")[-1] == via for x in fn["_facts"])
        rep.ob("C14.c", q, ok, "release goes through detach" if ok else "%s frees the object without detaching it from the document" % q,
               "%s:%d" % (fn["file"], fn["line"]))


def initial_state_rule(rep, f):
    rep.rule("C14.d", "callbacks tolerate the initial state: in DOMNodeIteratorImpl::removeNode and the members it reaches, a "
             "member pointer that the constructor initialises to null (or a local copy of it) is dereferenced only after a "
             "null test on every path (CFG must-analysis)")
    cls = "DOMNodeIteratorImpl"
    nullinit = set()
    for fn in f.fns_named(cls + "::" + cls):
        for x in fn["_facts"]:
            if x["k"] == "fld" and x["how"] == "init" and x.get("v") in (["i", 0],):
                nullinit.add(x["f"])
    nullinit = {x for x in nullinit if any(c[0] == x.split("::")[-1] and "*" in c[1] for c in f.classes[cls]["fields"])}
    if not nullinit:
        raise AnalysisBroken("no null-initialised pointer member found in %s" % cls)
    # closure of removeNode over own-class calls
    seen, work = set(), [cls + "::removeNode"]
    while work:
        q = work.pop()
        if q in seen:
            continue
        seen.add(q)
        for fn in f.fns_named(q):
            for x in fn["_facts"]:
                if x["k"] == "call" and x.get("ccls") == cls and (x["x"][2] is None or x["x"][2] == ["this"]):
                    work.append(x["x"][1])
    g = core.run_xa([os.path.join(core.REPO, DOMIMPL + "DOMNodeIteratorImpl.cpp")],
                    cfg="^(" + "|".join(re.escape(q) for q in sorted(seen)) + ")$", flat=False)
    n = 0
    for q in sorted(seen):
        for raw in g.cfgs.get(q, []):
            cfg = guard.Cfg(raw)
            bad = _null_deref(cfg, nullinit)
            n += 1
            rep.ob("C14.d", q, not bad, "null-initialised members %s are tested before use" % sorted(x.split("::")[-1] for x in nullinit) if not bad else
                   "%s dereferences %s at line %s although it is still null before the iterator's first step: any removeChild in the "
                   "document crashes while such an iterator is alive" % (q, bad[0][1], bad[0][0]), "%s:%s" % (cfg.file, bad[0][0] if bad else 0))
    rep.floor("C14.d", n, 3)


def _null_deref(cfg, fields):
    """may-analysis: MAYBE = names (null-initialised members and locals copied from them) that may still hold the
    initial null on some path; a test for non-null removes the name on the edge it protects; returns [(line, name)]
    for member calls through a name in MAYBE."""
    IN = {b: None for b in cfg.blocks}
    IN[cfg.entry] = frozenset(fields)
    out = []

    def name_of(x):
        if isinstance(x, list) and x and x[0] == "f" and len(x) == 2 and x[1] in fields:
            return x[1]
        if isinstance(x, list) and x and x[0] == "l":
            return x[1]
        return None

    def flow(bid, report):
        st = IN[bid]
        if st is None:
            return None
        maybe = set(st)
        for el in cfg.blocks[bid]["els"]:
            if "decl" in el:
                for name, ty, init in el["decl"]:
                    if init is not None and name_of(init) in maybe:
                        maybe.add(name)
                    else:
                        maybe.discard(name)
            x = el.get("x")
            if x is None:
                continue
            if x[0] == "c" and x[2] is not None:
                t = name_of(x[2])
                if t in maybe and report:
                    out.append((el.get("l"), t.split("::")[-1]))
            if x[0] == "b" and x[1] == "=":
                t = name_of(x[2])
                if t is not None:
                    if name_of(x[3]) in maybe:
                        maybe.add(t)
                    else:
                        maybe.discard(t)
        outs = []
        blk = cfg.blocks[bid]
        term = blk.get("term")
        for idx, s in enumerate(blk["succ"]):
            if s is None:
                continue
            mm = set(maybe)
            if term and len(blk["succ"]) == 2 and term.get("cond") is not None:
                c = term["cond"]
                val = idx == 0
                while c[0] == "u" and c[1] == "!":
                    c = c[2]
                    val = not val
                t = name_of(c)
                if t and val:
                    mm.discard(t)
                if c[0] == "b" and c[1] in ("!=", "==") and (c[3] == ["i", 0] or c[2] == ["i", 0]):
                    t = name_of(c[2] if c[3] == ["i", 0] else c[3])
                    if t and ((c[1] == "!=") == val):
                        mm.discard(t)
            outs.append((s, frozenset(mm)))
        return outs
    work = [cfg.entry]
    it = 0
    while work and it < 5000:
        it += 1
        b = work.pop()
        o = flow(b, False)
        if o is None:
            continue
        for s, st in o:
            new = st if IN[s] is None else (IN[s] | st)
            if new != IN[s]:
                IN[s] = new
                work.append(s)
    for b in cfg.blocks:
        flow(b, True)
    return sorted(set(out))


def symmetry_rule(rep):
    rep.rule("C14.e", "the two boundary points of a Range are treated alike: in every DOMRangeImpl update callback "
             "(updateRangeForInsertedText/DeletedText/InsertedNode/DeletedNode, receiveReplacedText, updateSplitInfo) the "
             "statements that adjust the start boundary equal, after renaming Start<->End, the statements that adjust the "
             "end boundary (statement order inside a block ignored)")
    g = core.run_xa([os.path.join(core.REPO, DOMIMPL + "DOMRangeImpl.cpp")],
                    st=r"^DOMRangeImpl::(updateRangeFor\w+|receiveReplacedText|updateSplitInfo)$", flat=False)

    def norm(x):
        if isinstance(x, list):
            if x and x[0] == "if":
                return ["if", norm(x[1]), norm(x[2]), norm(x[3])]
            if x and x[0] in ("expr", "return"):
                return [x[0], norm(x[1])]
            if x and x[0] == "block":
                return ["block", sorted((norm(c) for c in x[1]), key=lambda z: json.dumps(z))]
            if x and x[0] == "decl":
                return ["decl", [[d[0], d[1], norm(d[2])] for d in x[1]]]
            if x and x[0] in ("while", "do"):
                return [x[0], norm(x[1]), norm(x[2])]
            if x and x[0] == "for":
                return ["for"] + [norm(y) for y in x[1:5]]
            return [norm(y) for y in x]
        return x
    n = 0
    for q, sts in sorted(g.sts.items()):
        for s in sts:
            S, E = [], []
            for st in s["body"][1]:
                if not st or st[0] != "if":
                    continue
                js = json.dumps(norm(st))
                hs, he = "fStart" in js, "fEnd" in js
                if hs and not he:
                    S.append(js)
                elif he and not hs:
                    E.append(js.replace("fEnd", "fStart"))
            if not S and not E:
                continue
            n += 1
            ok = sorted(S) == sorted(E)
            rep.ob("C14.e", q, ok, "%d start-boundary statement(s) mirror the end-boundary statement(s)" % len(S) if ok else
                   "%s adjusts the start boundary differently from the end boundary (DOM Range treats both alike)" % q,
                   "%s:%d" % (s["file"], s["line"]))
    rep.floor("C14.e", n, 5)


def tombstone_rule(rep, f):
    rep.rule("C14.f", "getElementById keeps finding what is in the tree: DOMNodeIDMap is an open-addressing table whose find() probes "
             "until an empty (null) slot; DOMNodeIDMap::remove must therefore leave a non-null tombstone in the slot it frees — every "
             "assignment to a slot of fTable in remove() stores a non-null constant — or the probe chains of later-inserted, "
             "colliding IDs are cut and elements that are still in the document are no longer found")
    n = 0
    for x in f.kind("asg"):
        if x["_fn"]["q"] != "DOMNodeIDMap::remove":
            continue
        l = x["lhs"]
        if not (l[0] == "x" and l[1] == ["f", "DOMNodeIDMap::fTable"]):
            continue
        n += 1
        r = x["rhs"]
        while r[0] == "cast":
            r = r[2]
        nonnull = (r[0] == "i" and r[1] != 0) or (r[0] == "u" and r[1] == "-" and r[2][0] == "i" and r[2][1] != 0)
        rep.ob("C14.f", "DOMNodeIDMap::remove@slot:%d" % n, nonnull, "freed slot keeps a tombstone (%s)" % sx_str(x["rhs"]) if nonnull else
               "DOMNodeIDMap::remove (line %s) stores %s into the freed slot: find() stops probing at an empty slot, so IDs that were "
               "inserted after a collision with this one are lost to getElementById" % (x.get("l"), sx_str(x["rhs"])),
               "%s:%s" % (x["_fn"]["file"], x.get("l", 0)))
    rep.floor("C14.f", n, 1)


def delete_data_rule(rep, rid="C14.g"):
    rep.rule(rid, "character-data deletion is consistent with itself (DOMCharacterDataImpl::deleteData): (1) the count is bounded by "
             "the data length before `offset + count` is formed (an assignment `count = len` under `count > len` precedes the sum on "
             "every path), so the sum cannot wrap for the delete-to-the-end idiom deleteData(n, (XMLSize_t)-1); (2) the live ranges "
             "are told exactly what was removed: the count passed to updateRangeForDeletedText is the variable that sizes the edit "
             "(new length = len - count), not the caller's raw argument")
    g = core.run_xa([os.path.join(core.REPO, "src/xercesc/dom/impl/DOMCharacterDataImpl.cpp")], cfg=r"^DOMCharacterDataImpl::deleteData$", flat=False)
    cfg = guard.Cfg(g.cfg("DOMCharacterDataImpl::deleteData"))
    # the variable that sizes the edit: newLen = <len> - V
    V = LEN = None
    for b, i, el in cfg.elements():
        for d in el.get("decl", []):
            r = d[2]
            if r and r[0] == "b" and r[1] == "-" and r[2][0] == "l" and r[3][0] in ("l", "p"):
                LEN, V = r[2], r[3]
    if V is None:
        raise AnalysisBroken("deleteData: the new length is no longer computed as len - count")

    def name(v):
        return v[1] if v[0] == "l" else v[2]
    # (1) clamp precedes the sum
    def is_clamp(el):
        x = el.get("x")
        return bool(x) and x[0] == "b" and x[1] == "=" and name(x[2]) == name(V) if (x and x[0] == "b" and x[1] == "=" and x[2][0] in ("l", "p")) else False

    def is_clamp_to_len(el):
        x = el.get("x")
        return bool(x) and x[0] == "b" and x[1] == "=" and x[2][0] in ("l", "p") and name(x[2]) == name(V) and x[3] == LEN

    def has_sum(x):
        return guard.mentions(x, lambda y: isinstance(y, list) and len(y) == 4 and y[0] == "b" and y[1] == "+" and
                              {y[2][0], y[3][0]} <= {"l", "p"} and name(V) in (name(y[2]), name(y[3])))
    clamp_edges = set()
    for bid, blk in cfg.blocks.items():
        t = blk.get("term")
        c = t and t.get("cond")
        if c and c[0] == "b" and c[1] in (">", ">=") and c[2][0] in ("l", "p") and name(c[2]) == name(V) and c[3] == LEN:
            s0 = blk["succ"][0]
            if s0 is not None and any(is_clamp_to_len(e) for e in cfg.blocks[s0]["els"]):
                clamp_edges.add((bid, 1))       # the false edge: count <= len already
    st = guard.must_state(cfg, gen_el=is_clamp_to_len, gen_edge=lambda p, k: (p, k) in clamp_edges)
    sums = []
    for bid, blk in cfg.blocks.items():
        t = blk.get("term")
        if t and t.get("cond") and has_sum(t["cond"]):
            sums.append((bid, len(blk["els"]), t.get("l")))
        for i, el in enumerate(blk["els"]):
            x = el.get("x")
            if x and x[0] == "b" and has_sum(x):
                sums.append((bid, i, el.get("l")))
    if not sums:
        rep.notes.append("%s: deleteData forms no sum of the offset and the count on this tree; the overflow clause has nothing to check" % rid)
    bad = sorted({l for b, i, l in sums if not st(b, i)})
    rep.ob(rid, "deleteData/clamp", not bad, ("count bounded by the length before offset + count" if sums else "no offset + count formed") if not bad else
           "DOMCharacterDataImpl::deleteData forms offset + %s at line %s without having bounded %s by the data length first: for a count near "
           "the maximum the sum wraps and the data grows instead of being truncated" % (name(V), bad, name(V)),
           "src/xercesc/dom/impl/DOMCharacterDataImpl.cpp:%s" % (bad[0] if bad else 0))
    # (2) ranges get the same count
    ss = guard.sites(cfg, lambda x: x[0] == "c" and x[1].split("::")[-1] == "updateRangeForDeletedText" and len(x[3]) == 3)
    if not ss:
        raise AnalysisBroken("deleteData no longer notifies the ranges")
    for b, i, el in ss:
        a = el["x"][3][2]
        ok = a[0] in ("l", "p") and name(a) == name(V)
        rep.ob(rid, "deleteData/notify", ok, "ranges are given the count that sized the edit" if ok else
               "DOMCharacterDataImpl::deleteData (line %s) tells the ranges that %s characters were deleted while the data was shortened by %s: "
               "boundary points behind the deletion move by the wrong amount" % (el.get("l"), core.sx_str(a), name(V)),
               "src/xercesc/dom/impl/DOMCharacterDataImpl.cpp:%s" % el.get("l", 0))


def boundary_compare_rule(rep):
    rep.rule("C14.h", "compareBoundaryPoints orders two boundary points as DOM Range defines (DOMRangeImpl::compareBoundaryPoints, the "
             "three offset-deciding cases evaluated for every small offset/index combination): same container — the sign of "
             "offsetA - offsetB; a child C of A's container holds B — A is before B exactly when offsetA <= index(C); a child C of "
             "B's container holds A — A is before B exactly when index(C) < offsetB. The strictness of the two mixed cases differs "
             "and is what places a point directly in front of the child correctly")
    g = core.run_xa([os.path.join(core.REPO, "src/xercesc/dom/impl/DOMRangeImpl.cpp")], st=r"^DOMRangeImpl::compareBoundaryPoints$", flat=False)
    body = g.st("DOMRangeImpl::compareBoundaryPoints")["body"]
    where = "src/xercesc/dom/impl/DOMRangeImpl.cpp"
    cases = []

    def walk(n):
        if isinstance(n, list) and n and n[0] == "if" and isinstance(n[1], list):
            c = n[1]
            if c[0] == "b" and c[1] == "==" and sorted([c[2], c[3]]) == [["l", "pointA"], ["l", "pointB"]]:
                cases.append(("same-container", n[2], n[-1]))
            elif c[0] == "c" and c[1].endswith("::isAncestorOf") and len(c[3]) == 2 and c[3][1] in (["l", "pointA"], ["l", "pointB"]):
                cases.append(("child-of-A-holds-B" if c[3][1][1] == "pointB" else "child-of-B-holds-A", n[2], n[-1]))
        if isinstance(n, list):
            for k in n:
                walk(k)
    walk(body)
    want = {"same-container": lambda a, b, i: (a > b) - (a < b),
            "child-of-A-holds-B": lambda a, b, i: -1 if a <= i else 1,
            "child-of-B-holds-A": lambda a, b, i: -1 if i < b else 1}
    seen = set()
    for name, blk, line in cases:
        seen.add(name)
        bad = []
        for a in range(4):
            for b in range(4):
                for i in range(3):
                    def call(x, env, i=i):
                        if x[1].endswith("::indexOf"):
                            return i
                        raise sxeval.Unmodelled("call of %s in a boundary-point case" % x[1])
                    try:
                        got = sxeval.run_st(blk, {"offsetA": a, "offsetB": b, "__call__": call})
                    except sxeval.Unmodelled as e:
                        if "falls off" in str(e):
                            got = None
                        else:
                            raise
                    exp = want[name](a, b, i)
                    if got != exp:
                        bad.append("offsetA=%d offsetB=%d index=%d: %s, DOM Range says %d" % (a, b, i, "no result" if got is None else got, exp))
                    if name == "same-container":
                        break
        rep.ob("C14.h", "compareBoundaryPoints/%s" % name, not bad, "every combination of offsets 0..3 and child index 0..2 agrees with DOM Range" if not bad else
               "compareBoundaryPoints, case '%s' (line %s): %s%s" % (name, line, "; ".join(bad[:3]), " (+%d more)" % (len(bad) - 3) if len(bad) > 3 else ""),
               "%s:%s" % (where, line))
    if len(seen) < 3:
        raise AnalysisBroken("compareBoundaryPoints: cases no longer recognised (%s of 3)" % sorted(seen))


def iterator_fixup_rule(rep):
    from ..engines import advance
    rep.rule("C14.i", "a NodeIterator keeps its position when its reference node is removed (DOM Traversal 1.1.1: the position is the "
             "reference node plus before/after): DOMNodeIteratorImpl::removeNode interpreted for both directions and both answers of "
             "nextNode — when the new reference node is the one *before* the removed subtree the iterator is positioned after it "
             "(fForward true), when it is the one *following* the subtree the iterator stays before it (fForward false); otherwise the "
             "next previousNode()/nextNode() call returns the reference node a second time or skips it")
    g = core.run_xa([os.path.join(core.REPO, "src/xercesc/dom/impl/DOMNodeIteratorImpl.cpp")], st=r"^DOMNodeIteratorImpl::removeNode$", flat=False)
    body = g.st("DOMNodeIteratorImpl::removeNode")["body"]
    PREV, NEXT, OLD = 101, 202, 303      # distinct non-null node identities
    n = 0
    for fwd in (0, 1):
        for has_next in (0, 1):
            def hook(x, st, it, has_next=has_next):
                nm = x[1] if isinstance(x[1], str) else ""
                if nm.endswith("::matchNodeOrParent"):
                    return 1
                if nm.endswith("::previousNode"):
                    return PREV
                if nm.endswith("::nextNode"):
                    return NEXT if has_next else 0
                return NotImplemented
            it = advance.Interp(call_hook=hook)
            st0 = advance.State({"f:DOMNodeIteratorImpl::fForward": fwd, "f:DOMNodeIteratorImpl::fDetached": 0,
                                 "f:DOMNodeIteratorImpl::fCurrentNode": OLD, "p:node": 1})
            bad = []
            outs = 0
            for kind, s2 in it.run(body, st0):
                outs += 1
                cur, f2 = s2.v.get("f:DOMNodeIteratorImpl::fCurrentNode"), s2.v.get("f:DOMNodeIteratorImpl::fForward")
                if cur == PREV and f2 != 1:
                    bad.append("the reference node becomes the node before the removed subtree but fForward is %s" % f2)
                elif cur == NEXT and f2 != 0:
                    bad.append("the reference node becomes the node after the removed subtree but fForward is %s" % f2)
                elif cur not in (PREV, NEXT):
                    bad.append("the reference node is not moved off the subtree that is being removed")
            if not outs:
                raise AnalysisBroken("DOMNodeIteratorImpl::removeNode: no normal path under fForward=%d" % fwd)
            n += 1
            rep.ob("C14.i", "removeNode/%s/%s" % ("forward" if fwd else "backward", "next-exists" if has_next else "no-next"), not bad,
                   "position kept" if not bad else "DOMNodeIteratorImpl::removeNode (%s iteration, %s): %s" %
                   ("forward" if fwd else "backward", "a node follows the removed subtree" if has_next else "nothing follows the removed subtree", bad[0]),
                   "src/xercesc/dom/impl/DOMNodeIteratorImpl.cpp")
    rep.floor("C14.i", n, 4)


def removed_ancestor_rule(rep):
    rep.rule("C14.j", "a Range whose boundary container lies inside a removed subtree is moved out of it (DOM Range 2.12.2): in "
             "DOMRangeImpl::updateRangeForDeletedNode, for a live node that is not the one the range itself is removing and is not a "
             "child of the boundary container, every normal path consults isAncestorOf(node, <that container>) — for the start and "
             "for the end container separately; a path that returns without asking leaves the boundary point inside the detached "
             "subtree (container no longer in the tree)")
    q = "DOMRangeImpl::updateRangeForDeletedNode"
    g = core.run_xa([os.path.join(core.REPO, "src/xercesc/dom/impl/DOMRangeImpl.cpp")], cfg="^" + q + "$", flat=False)
    cfg = guard.Cfg(g.cfg(q))

    def strip(x):
        while isinstance(x, list) and x and x[0] == "cast":
            x = x[2]
        return x

    def is_parent_of_node(x):
        x = strip(x)
        return isinstance(x, list) and x[:1] == ["c"] and isinstance(x[1], str) and x[1].endswith("::getParentNode") and strip(x[2])[:1] == ["p"]

    def is_field(x, name):
        x = strip(x)
        return isinstance(x, list) and x[:1] == ["f"] and x[1].endswith("::" + name)
    n = 0
    for cont in ("fStartContainer", "fEndContainer"):
        def assume(x, cont=cont):
            x = strip(x)
            if isinstance(x, list) and len(x) == 4 and x[0] == "b" and x[1] in ("==", "!="):
                a, b = strip(x[2]), strip(x[3])
                for u, v in ((a, b), (b, a)):
                    if u[:1] == ["p"] and v == ["i", 0]:
                        return x[1] == "!="                                   # the removed node exists
                    if is_field(u, "fRemoveChild") and v[:1] == ["p"]:
                        return x[1] == "!="                                   # not the range's own removal
                    if is_parent_of_node(u) and is_field(v, cont):
                        return x[1] == "!="                                   # not a child of this boundary container
            return None

        def consults(bid, cont=cont):
            for el in cfg.blocks[bid]["els"]:
                for c in guard.el_top_calls(el):
                    if isinstance(c[1], str) and c[1].endswith("::isAncestorOf") and len(c[3]) == 2 and is_field(c[3][1], cont):
                        return True
            return False
        if not any(consults(b) for b in cfg.blocks):
            raise AnalysisBroken("%s no longer asks isAncestorOf(node, %s)" % (q, cont))
        seen = guard.reachable(cfg, assume=assume, stop=lambda b: consults(b) or cfg.throws(b))
        ok = cfg.exit not in seen
        n += 1
        rep.ob("C14.j", "updateRangeForDeletedNode/%s" % cont, ok, "ancestor relation consulted on every path" if ok else
               "%s can return for a node that is not a child of %s without asking whether the node is an ancestor of it: a range "
               "whose %s boundary lies inside the removed subtree is not moved out" % (q, cont, "start" if "Start" in cont else "end"),
               "%s:%s" % (cfg.file, min([el["l"] for _b, _i, el in cfg.elements() if el.get("l")] or [0])))
    rep.floor("C14.j", n, 2)


def run(rep):
    f = core.library_facts()
    rep.units.update(os.path.relpath(t, core.REPO) for t in f.tus)
    notify_rule(rep, f)
    fastpath_rule(rep, f)
    registry_rule(rep, f)
    initial_state_rule(rep, f)
    symmetry_rule(rep)
    tombstone_rule(rep, f)
    delete_data_rule(rep)
    boundary_compare_rule(rep)
    iterator_fixup_rule(rep)
    removed_ancestor_rule(rep)
    diag.run(rep, f, "C14")
    from ..engines import dispatch
    dispatch.run(rep, f, "C14")
    rep.undecided += ["positions of iterators and range boundaries after a history (value-level)",
                      "results of the range content operations (extract/clone/delete/insert/surround)",
                      "getElementById after removal of the element (left as observed: the ID map is not pruned)"]
    return ("Static: statement-order and CFG must-follow rules for the notifications around link writes; closed-world callers "
            "of the silent fast paths; registry pairing; a null-ness must-analysis for the iterator callbacks; structural "
            "start/end symmetry of the range callbacks; exception matrix. Decides these necessary conditions, not the positions "
            "after a history.")
