"""C05 — transcoders and encoding detection: table clauses (DESIGN.md §4 C05).

C05.a  single-byte code pages: from/to tables vs. independent code-page data,
       sortedness (binary-search precondition), round trip
C05.b  UTF-8 structural tables vs. the bit layout of UTF-8
C05.c  registry agreement: encoding name -> transcoder class, key == name,
       endian polarity, recogniser slots, parallel tables, auto-sense prefixes
"""
import os
import re

from .. import core, sxeval
from ..core import AnalysisBroken

U = "src/xercesc/util/"
PAGES = {
    # file -> (python codec used as independent reference, documented exceptions {byte: unicode})
    "XMLEBCDICTranscoder.cpp": ("cp037", {}),
    "XMLIBM1140Transcoder.cpp": ("cp1140", {}),
    # CP1047 = CP037 with six code points permuted (^ and not-sign, [ and Y-acute, ] and diaeresis);
    # 0x15 (NL) is mapped to LF as in the z/OS Unix convention used by this transcoder.
    "XMLIBM1047Transcoder.cpp": ("cp037", {0x15: 0x0A, 0x5F: 0x5E, 0xB0: 0xAC, 0xAD: 0x5B, 0xBA: 0xDD, 0xBD: 0x5D, 0xBB: 0xA8}),
    # Windows-1252: the five bytes undefined in the code page are passed through as C1 controls (Windows best fit)
    "XMLWin1252Transcoder.cpp": ("cp1252", {0x81: 0x81, 0x8D: 0x8D, 0x8F: 0x8F, 0x90: 0x90, 0x9D: 0x9D}),
}


def codepage_rule(rep, f):
    rep.rule("C05.a", "for IBM037, IBM1140, IBM1047, Windows-1252: gFromTable[256] equals the reference code page "
             "(python codecs cp037/cp1140/cp1252; CP1047 = CP037 + 7 documented positions; 1252 + 5 documented C1 pass-throughs); "
             "gToTable is strictly ascending in intCh (binary search precondition), gToTableSz equals its extent, and "
             "every byte round-trips: from[to[from[b]]] == from[b] with to[] consistent with from[]")
    for fn, (codec, exc) in PAGES.items():
        file = U + fn
        ft = f.table("gFromTable", file)["v"]
        tt = f.table("gToTable", file)["v"]
        sz = f.table("gToTableSz", file)["v"]
        if len(ft) != 256:
            raise AnalysisBroken("gFromTable in %s has %d entries" % (fn, len(ft)))
        diffs = []
        for b in range(256):
            if b in exc:
                want = exc[b]
            else:
                try:
                    want = ord(bytes([b]).decode(codec))
                except UnicodeDecodeError:
                    want = None
            rep.count()
            if want != ft[b]:
                diffs.append("byte 0x%02X -> U+%04X, reference %s" % (b, ft[b], "U+%04X" % want if want is not None else "undefined"))
        rep.ob("C05.a/from", fn + ":gFromTable", not diffs, "256 entries equal the reference %s" % codec if not diffs else "; ".join(diffs[:6]), file)
        keys = [r[0] for r in tt]
        asc = all(keys[i] < keys[i + 1] for i in range(len(keys) - 1))
        rep.ob("C05.a/sorted", fn + ":gToTable", asc and sz == len(tt),
               "%d records strictly ascending, gToTableSz=%d" % (len(tt), sz) if asc and sz == len(tt) else
               "not strictly ascending or size mismatch (records=%d, gToTableSz=%d)" % (len(tt), sz), file)
        to = {}
        for intCh, extCh in tt:
            to.setdefault(intCh, extCh)
        bad = []
        image = set(ft)
        for b in range(256):
            rep.count()
            u = ft[b]
            if u not in to:
                bad.append("U+%04X (byte 0x%02X) has no to-table record" % (u, b))
            elif ft[to[u]] != u:
                bad.append("U+%04X encodes to 0x%02X which decodes to U+%04X" % (u, to[u], ft[to[u]]))
        # extra (best-fit) records must not shadow and must encode to a byte in range
        for intCh, extCh in tt:
            rep.count()
            if not (0 <= extCh <= 255):
                bad.append("record U+%04X -> %d out of byte range" % (intCh, extCh))
            elif intCh in image and ft[extCh] != intCh:
                bad.append("record U+%04X -> 0x%02X contradicts the from-table" % (intCh, extCh))
        rep.ob("C05.a/roundtrip", fn, not bad, "every byte round-trips; %d best-fit extras" % (len(tt) - len(image)) if not bad else "; ".join(bad[:6]), file)


def utf8_rule(rep, f):
    rep.rule("C05.b", "gUTFBytes/gUTFByteIndicator/gUTFByteIndicatorTest/gUTFOffsets/gFirstByteMark equal the values "
             "computed from the UTF-8 bit layout (Unicode 3.9 Table 3-6): trail count per lead byte, lead prefix/mask per "
             "length, accumulated prefix bits per length, encoder lead marks")
    file = U + "XMLUTF8Transcoder.cpp"
    ub = f.table("gUTFBytes", file)["v"]
    exp = []
    for b in range(256):
        # ASCII and continuation/overlong leads 80..C1 cost nothing here (rejected by the indicator test); C2.. = real leads
        if b < 0xC2: exp.append(0)
        elif b < 0xE0: exp.append(1)
        elif b < 0xF0: exp.append(2)
        elif b < 0xF8: exp.append(3)
        elif b < 0xFC: exp.append(4)
        else: exp.append(5)
    bad = [b for b in range(256) if ub[b] != exp[b]]
    rep.count(256)
    rep.ob("C05.b", "gUTFBytes", not bad, "256 entries" if not bad else "entries %s differ" % [hex(b) for b in bad[:8]], file)
    ind = f.table("gUTFByteIndicator", file)["v"]
    tst = f.table("gUTFByteIndicatorTest", file)["v"]
    off = f.table("gUTFOffsets", file)["v"]
    fbm = f.table("gFirstByteMark", file)["v"]
    e_ind = [0x00, 0xC0, 0xE0, 0xF0, 0xF8, 0xFC]          # n ones then a zero
    e_tst = [0x80, 0xE0, 0xF0, 0xF8, 0xFC, 0xFE]          # mask covering the n+1 prefix bits
    e_off = []
    for n in range(6):
        # decoding accumulates (byte) then <<6 per trail byte: the prefix bits to remove
        v = e_ind[n] << (6 * n) if n else 0
        for k in range(n):
            v += 0x80 << (6 * k)
        e_off.append(v & 0xFFFFFFFF)
    e_fbm = [0x00, 0x00, 0xC0, 0xE0, 0xF0, 0xF8, 0xFC]    # indexed by encoded length
    for name, got, want in (("gUTFByteIndicator", ind, e_ind), ("gUTFByteIndicatorTest", tst, e_tst),
                            ("gUTFOffsets", [x & 0xFFFFFFFF for x in off], e_off), ("gFirstByteMark", fbm, e_fbm)):
        rep.count(len(want))
        rep.ob("C05.b", name, got == want, "%s" % [hex(x) for x in got] if got == want else
               "%s, expected %s" % ([hex(x) for x in got], [hex(x) for x in want]), file)


FAMILY = [
    (r"^XERCES-XMLCH$", "XMLChTranscoder", None),
    (r"^(US[-_]?)?ASCII$", "XMLASCIITranscoder", None),
    (r"^UTF-?8$", "XMLUTF8Transcoder", None),
    (r"^(ISO[-_]?8859-1|IBM-?819|CP819|LATIN[-_]?1|L1|CSISOLATIN1|ISO-IR-100)$", "XML88591Transcoder", None),
    (r"^UTF-16 ?\(?LE\)?$", "XMLUTF16Transcoder", "LE"),
    (r"^UTF-16 ?\(?BE\)?$", "XMLUTF16Transcoder", "BE"),
    (r"^(UTF-?16|UCS-?2|IBM-?1200|ISO-10646-UCS-2)$", "XMLUTF16Transcoder", "native"),
    (r"^UCS-4 ?\(?LE\)?$", "XMLUCS4Transcoder", "LE"),
    (r"^UCS-4 ?\(?BE\)?$", "XMLUCS4Transcoder", "BE"),
    (r"^(UCS[-_]?4|UTF-?32|ISO-10646-UCS-4)$", "XMLUCS4Transcoder", "native"),
    (r"^(EBCDIC|EBCDIC-CP-US|IBM-?037|CP037)$", "XMLEBCDICTranscoder", None),
    (r"^IBM-?1047$", "XMLIBM1047Transcoder", None),
    (r"^(IBM-?0?1140|CCSID0?1140|CP0?1140)$", "XMLIBM1140Transcoder", None),
    (r"^(WINDOWS-1252|CP1252)$", "XMLWin1252Transcoder", None),
]
RECOG_FAMILY = {"EBCDIC": "XMLEBCDICTranscoder", "UCS_4B": ("XMLUCS4Transcoder", "BE"), "UCS_4L": ("XMLUCS4Transcoder", "LE"),
                "US_ASCII": "XMLASCIITranscoder", "UTF_8": "XMLUTF8Transcoder", "UTF_16B": ("XMLUTF16Transcoder", "BE"),
                "UTF_16L": ("XMLUTF16Transcoder", "LE"), "XERCES_XMLCH": "XMLChTranscoder"}


def _family(name):
    for rx, cls, end in FAMILY:
        if re.match(rx, name):
            return cls, end
    return None


def _polarity(x):
    """classify a 'swapped' expression: 'LE' if == fgXMLChBigEndian, 'BE' if == !fgXMLChBigEndian, 'native' if false."""
    if x == ["g", "XMLPlatformUtils::fgXMLChBigEndian"]:
        return "LE"
    if x == ["u", "!", ["g", "XMLPlatformUtils::fgXMLChBigEndian"]]:
        return "BE"
    if x == ["i", 0]:
        return "native"
    return "?" + core.sx_str(x)


def registry_rule(rep, f):
    rep.rule("C05.c", "XMLTransService::initTransService (straight-line 'table as code'): every gMappings->put(KEY, new "
             "ENameMapFor<T>(NAME[, swapped])) has KEY == NAME, the resolved name belongs to T's family in the IANA alias "
             "oracle, endian-sensitive maps have the polarity their name demands; every auto-sensable XMLRecognizer::Encodings "
             "value has a recogniser slot of the right family; gEncodingNameMap order equals the enum; encodingForName folded "
             "over every registered name agrees with the oracle; auto-sense prefixes equal '<?xml ' in the named encoding")
    strs = {}
    for q, t in f.tables.items():
        if q.startswith("XMLUni::fg") and isinstance(t["v"], list):
            v = t["v"]
            strs[q] = "".join(chr(c) for c in v[:v.index(0)] if isinstance(c, int)) if 0 in v else None
    s = f.st("XMLTransService::initTransService")
    env = {}
    puts = 0
    slots = {}
    unknown = []

    def handle_call(c, line):
        nonlocal puts
        name = c[1].split("::")[-1]
        recv = c[2]
        if name == "put" and recv == ["g", "XMLTransService::gMappings"]:
            key, val = c[3][0], c[3][1]
            while key[0] == "cast":
                key = key[2]
            if key[0] != "g" or val[0] != "n":
                raise AnalysisBroken("unmodelled registration at TransService.cpp:%d" % line)
            m = re.match(r"E(Endian)?NameMapFor<(\w+)>", val[1])
            if not m:
                raise AnalysisBroken("unmodelled map type %s" % val[1])
            endian, cls = bool(m.group(1)), m.group(2)
            nm = val[3][0]
            kstr = strs.get(key[1])
            if kstr is None:
                raise AnalysisBroken("encoding name constant %s not resolved" % key[1])
            puts += 1
            inst = "put(%s=%r)" % (key[1].split("::")[-1], kstr)
            where = "src/xercesc/util/TransService.cpp:%d" % line
            if nm != key:
                rep.ob("C05.c/key==name", inst, False, "key %s registered with map named %s" % (key[1], core.sx_str(nm)), where)
                return
            fam = _family(kstr)
            if fam is None:
                unknown.append(kstr)
                return
            ok = fam[0] == cls
            what = "%r -> %s" % (kstr, cls)
            if ok and fam[1] is not None:
                if not endian:
                    ok = False
                    what += " (endian-sensitive name registered without swap flag)"
                else:
                    sw = val[3][1]
                    if sw[0] == "l":
                        sw = env.get(sw[1], sw)
                    pol = _polarity(sw)
                    ok = pol == fam[1]
                    what += " swapped=%s" % pol
            elif not ok:
                what += ", oracle family %s" % fam[0]
            rep.ob("C05.c/family", inst, ok, what, where)
        elif name == "setElementAt" and recv == ["g", "XMLTransService::gMappingsRecognizer"]:
            val, idx = c[3][0], c[3][1]
            if idx[0] != "e" or val[0] != "n":
                raise AnalysisBroken("unmodelled recogniser slot at line %d" % line)
            m = re.match(r"E(Endian)?NameMapFor<(\w+)>", val[1])
            cls = m.group(2)
            pol = None
            if m.group(1):
                sw = val[3][1]
                if sw[0] == "l":
                    sw = env.get(sw[1], sw)
                pol = _polarity(sw)
            slots[idx[1].split("::")[-1]] = (cls, pol, line)

    for stt in s["body"][1]:
        if stt[0] == "expr":
            x = stt[1]
            if x[0] == "c":
                handle_call(x, stt[2])
            elif x[0] == "b" and x[1] == "=" and x[2][0] == "l":
                env[x[2][1]] = x[3]
        elif stt[0] == "decl":
            for nm, _ty, init, _cap in stt[1]:
                if init is not None:
                    env[nm] = init
    rep.floor("C05.c", puts, 48)
    if unknown:
        rep.notes.append("registered names unknown to the alias oracle (not judged): %s" % unknown)
    en = f.enums.get("XMLRecognizer::Encodings")
    if not en:
        raise AnalysisBroken("enum XMLRecognizer::Encodings vanished")
    count = dict(en["items"])["Encodings_Count"]
    for name, val in en["items"]:
        if val >= count or name in ("Encodings_Min", "Encodings_Max"):
            continue
        want = RECOG_FAMILY.get(name)
        if want is None:
            raise AnalysisBroken("new auto-sensed encoding %s unknown to the oracle" % name)
        got = slots.get(name)
        wcls, wpol = want if isinstance(want, tuple) else (want, None)
        ok = got is not None and got[0] == wcls and got[1] == wpol
        rep.ob("C05.c/recognizer-slot", name, ok, "slot %s -> %s" % (name, got[:2] if got else None), "src/xercesc/util/TransService.cpp:%s" % (got[2] if got else "?"))
    # parallel table gEncodingNameMap
    nm = f.table("gEncodingNameMap")["v"]
    order = [n for n, v in sorted(((n, v) for n, v in en["items"] if v < count and n not in ("Encodings_Min", "Encodings_Max")), key=lambda t: t[1])]
    bad = []
    for i, n in enumerate(order):
        ref = nm[i].get("ref") if i < len(nm) and isinstance(nm[i], dict) else None
        sname = strs.get(ref)
        fam = _family(sname) if sname else None
        want = RECOG_FAMILY[n]
        wcls, wpol = want if isinstance(want, tuple) else (want, None)
        rep.count()
        if fam is None or fam[0] != wcls or (wpol and fam[1] != wpol):
            bad.append("%s -> %s (%r)" % (n, ref, sname))
    rep.ob("C05.c/name-map", "gEncodingNameMap", not bad and len(nm) == count, "%d slots in enum order" % len(nm) if not bad else "; ".join(bad), "src/xercesc/framework/XMLRecognizer.cpp")
    # encodingForName folded over every encoding-name constant
    efn = f.st("XMLRecognizer::encodingForName")
    items = dict(en["items"])
    bad = []
    n = 0
    for q, sname in sorted(strs.items()):
        if not re.search(r"EncodingString\d*$", q) or sname is None or q == "XMLUni::fgEncodingString":
            continue
        got = _fold_encoding_for_name(efn["body"], q, strs)
        fam = _family(sname)
        n += 1
        rep.count()
        if fam is None:
            continue
        exp_names = {
            ("XMLChTranscoder", None): {"XERCES_XMLCH"}, ("XMLASCIITranscoder", None): {"US_ASCII"}, ("XMLUTF8Transcoder", None): {"UTF_8"},
            ("XMLUTF16Transcoder", "LE"): {"UTF_16L"}, ("XMLUTF16Transcoder", "BE"): {"UTF_16B"},
            ("XMLUCS4Transcoder", "LE"): {"UCS_4L"}, ("XMLUCS4Transcoder", "BE"): {"UCS_4B"},
        }.get(fam)
        if exp_names is None:
            # names the recogniser deliberately leaves to 'other' or resolves by platform endianness
            if fam[1] == "native" and sname in ("UTF-16", "UCS4"):
                exp_names = {"UTF_16B", "UTF_16L"} if fam[0] == "XMLUTF16Transcoder" else {"UCS_4B", "UCS_4L"}
            else:
                exp_names = {"OtherEncoding"}
        if not (got <= exp_names and got):
            bad.append("%r -> %s, expected %s" % (sname, sorted(got), sorted(exp_names)))
    rep.ob("C05.c/encodingForName", "XMLRecognizer::encodingForName", not bad, "folded over %d encoding-name constants" % n if not bad else "; ".join(bad[:5]),
           "%s:%d" % (efn["file"], efn["line"]))
    # auto-sense prefixes
    pre = {"fgASCIIPre": "ascii", "fgEBCDICPre": "cp037", "fgUTF16BPre": "utf-16-be", "fgUTF16LPre": "utf-16-le",
           "fgUCS4BPre": "utf-32-be", "fgUCS4LPre": "utf-32-le"}
    for nm_, codec in pre.items():
        got = [x & 0xFF for x in f.table("XMLRecognizer::" + nm_)["v"]]
        want = list("<?xml ".encode(codec))
        rep.count(len(want))
        rep.ob("C05.c/prefix", nm_, got == want, "equals '<?xml ' in %s" % codec if got == want else "got %s expected %s" % (got, want), "src/xercesc/framework/XMLRecognizer.cpp")
    lens = {"fgASCIIPreLen": 6, "fgEBCDICPreLen": 6, "fgUTF16PreLen": 12, "fgUCS4PreLen": 24, "fgUTF8BOMLen": 3}
    for nm_, want in lens.items():
        got = f.table("XMLRecognizer::" + nm_)["v"]
        rep.ob("C05.c/prefix", nm_, got == want, "%d" % got, "src/xercesc/framework/XMLRecognizer.cpp")
    bom = [x & 0xFF for x in f.table("XMLRecognizer::fgUTF8BOM")["v"]]
    rep.ob("C05.c/prefix", "fgUTF8BOM", bom == [0xEF, 0xBB, 0xBF], "%s" % [hex(b) for b in bom], "src/xercesc/framework/XMLRecognizer.cpp")


def _fold_encoding_for_name(body, const_q, strs):
    """symbolically fold encodingForName for encName == the constant const_q.
    compareString(encName, K) is 0 iff the strings are equal; pointer equality
    encName == K holds iff same constant.  Returns the set of possible enum names
    (a conditional on the platform endianness yields two)."""
    me = strs[const_q]

    def val(x):
        t = x[0]
        if t == "c" and x[1].endswith("XMLString::compareString"):
            a, b = x[3][0], x[3][1]
            k = b if a[0] == "p" else a
            if k[0] != "g" or strs.get(k[1]) is None:
                raise AnalysisBroken("unmodelled compareString operand in encodingForName")
            return 0 if strs[k[1]] == me else 1
        if t == "b" and x[1] == "==" and (x[2][0] == "p" or x[3][0] == "p"):
            k = x[3] if x[2][0] == "p" else x[2]
            return 1 if k == ["g", const_q] else 0
        if t == "b" and x[1] == "||":
            return 1 if (val(x[2]) or val(x[3])) else 0
        if t == "b" and x[1] == "&&":
            return 1 if (val(x[2]) and val(x[3])) else 0
        if t == "u" and x[1] == "!":
            return 0 if val(x[2]) else 1
        raise AnalysisBroken("unmodelled condition in encodingForName: %s" % core.sx_str(x))

    def ret(x):
        if x[0] == "e":
            return {x[1].split("::")[-1]}
        if x[0] == "?" and len(x) == 4:
            return ret(x[2]) | ret(x[3])
        if x[0] == "cast":
            return ret(x[2])
        raise AnalysisBroken("unmodelled return in encodingForName")

    def run(s):
        t = s[0]
        if t == "block":
            for c in s[1]:
                r = run(c)
                if r is not None:
                    return r
            return None
        if t == "if":
            return run(s[2]) if val(s[1]) else (run(s[3]) if s[3] else None)
        if t == "return":
            return ret(s[1])
        if t in ("null",):
            return None
        raise AnalysisBroken("unmodelled statement %s in encodingForName" % t)
    r = run(body)
    if r is None:
        raise AnalysisBroken("encodingForName falls off its end")
    return r


TUS = [U + x for x in PAGES] + [U + "XMLUTF8Transcoder.cpp", U + "TransService.cpp", U + "XMLUni.cpp",
                               "src/xercesc/framework/XMLRecognizer.cpp"]


def truncation_rule(rep):
    from ..engines import guard
    rep.rule("C05.e", "no silent truncation: XMLReader::xcodeMoreChars reports 'no more characters' (return 0) only directly behind "
             "the test that the raw byte buffer is empty — when undecoded bytes are left and the stream is exhausted it must raise an "
             "error instead (a truncated multi-byte sequence at the end of the input is illegal, not ignorable)")
    g = core.run_xa([os.path.join(core.REPO, "src/xercesc/internal/XMLReader.cpp")], cfg=r"^XMLReader::xcodeMoreChars$", flat=False)
    cfg = guard.Cfg(g.cfg("XMLReader::xcodeMoreChars"))
    n = 0
    for bid, i, el in cfg.elements():
        if el.get("ret") != ["i", 0]:
            continue
        n += 1
        bad = []
        for p in cfg.preds[bid]:
            pb = cfg.blocks[p]
            t = pb.get("term")
            if not t or t.get("cond") is None or len(pb["succ"]) != 2:
                bad.append("unconditional")
                continue
            k = pb["succ"].index(bid)
            c = t["cond"]
            ok = k == 0 and c[0] == "b" and c[1] == "==" and c[2] == ["f", "XMLReader::fRawBytesAvail"] and c[3] == ["i", 0]
            if not ok:
                bad.append(core.sx_str(c))
        rep.ob("C05.e", "xcodeMoreChars@return0:%d" % n, not bad, "reached only when the raw buffer is empty" if not bad else
               "xcodeMoreChars also returns 'no more characters' behind %s: bytes of an incomplete character at the end of the input are "
               "dropped without any error" % bad, "%s:%s" % (cfg.file, el.get("l")))
    if n == 0:
        raise AnalysisBroken("xcodeMoreChars has no end-of-input return (idiom changed)")


def bom_once_rule(rep):
    from ..engines import guard
    rep.rule("C05.f", "a byte-order mark is consumed exactly once: in XMLReader::doInitDecode (which steps fRawBufIndex over the BOM "
             "and then over an XML/text declaration, if any) every plain assignment to fRawBufIndex either restores a position "
             "saved *after* the BOM was skipped (a local assigned from fRawBufIndex) or lies on a path that ends in a throw — a "
             "normal path that rewinds the index to a constant hands the BOM bytes to the transcoder as content (U+FEFF in front "
             "of the document), so the same document with and without BOM no longer yields the same content")
    g = core.run_xa([os.path.join(core.REPO, "src/xercesc/internal/XMLReader.cpp")], cfg=r"^XMLReader::doInitDecode$", flat=False)
    cfg = guard.Cfg(g.cfg("XMLReader::doInitDecode"))
    F = ["f", "XMLReader::fRawBufIndex"]
    saved = set()
    for bid, i, el in cfg.elements():
        x = el.get("x")
        if x and x[0] == "b" and x[1] == "=" and x[2][0] == "l" and x[3] == F:
            saved.add(x[2][1])
    n = 0
    for bid, i, el in cfg.elements():
        x = el.get("x")
        if not (x and x[0] == "b" and x[1] == "=" and x[2] == F):
            continue
        n += 1
        rhs = x[3]
        while rhs[0] == "cast":
            rhs = rhs[2]
        if rhs[0] == "l" and rhs[1] in saved:
            rep.ob("C05.f", "doInitDecode@assign:%d" % n, True, "restores the position saved after the BOM (%s)" % rhs[1], "%s:%s" % (cfg.file, el.get("l")))
            continue
        # must end in a throw: no normal path from here to the function exit
        els = cfg.blocks[bid]["els"]
        thrown = any((e2.get("x") or [None])[0] == "t" for e2 in els[i + 1:]) or cfg.blocks[bid].get("noret")
        escapes = False
        if not thrown:
            seen, work = set(), list(cfg.succs(bid))
            while work:
                b = work.pop()
                if b in seen:
                    continue
                seen.add(b)
                if b == cfg.exit:
                    escapes = True
                    break
                if cfg.throws(b):
                    continue
                work.extend(cfg.succs(b))
        rep.ob("C05.f", "doInitDecode@assign:%d" % n, not escapes,
               "rewinds to %s only on a path that throws" % core.sx_str(rhs) if not escapes else
               "XMLReader::doInitDecode (line %s) sets fRawBufIndex = %s on a path that returns normally: a byte-order mark that was "
               "already skipped is decoded again as content" % (el.get("l"), core.sx_str(rhs)), "%s:%s" % (cfg.file, el.get("l")))
    rep.floor("C05.f", n, 8)


ELEM_SIZE = {"XMLByte": 1, "char": 1, "unsigned char": 1, "UCS4Ch": 4, "UTF16Ch": 2, "XMLCh": 2}
ADVANCE_TARGETS = [
    # function, file, table that yields the sequence length (None: fixed-width), domain of that length
    ("XMLUTF8Transcoder::transcodeFrom", "src/xercesc/util/XMLUTF8Transcoder.cpp", "gUTFBytes", range(0, 6)),
    ("XMLUCS4Transcoder::transcodeFrom", "src/xercesc/util/XMLUCS4Transcoder.cpp", None, [None]),
]


def utf8_advance_rule(rep, rid="C05.g"):
    from ..engines import advance
    rep.rule(rid, "consumed bytes are accounted for (path-exhaustive abstract interpretation of one round of the decoding loops of "
             "XMLUTF8Transcoder::transcodeFrom — for every sequence length 0..5 given by the lead byte — and "
             "XMLUCS4Transcoder::transcodeFrom; data-dependent tests fork, throwing paths end): on every way out of a round — "
             "next round, break — the source pointer has advanced by exactly the sum of the character sizes recorded in that "
             "round, and by nothing when no character was stored. A round that leaves bytes counted as eaten without a decoded "
             "character or an exception skips input silently; one that un-reads too little restarts in the middle of a sequence "
             "at the next buffer boundary")
    total = 0
    for q, fl, lentab, dom in ADVANCE_TARGETS:
        g = core.run_xa([os.path.join(core.REPO, fl)], st="^" + q + "$", flat=False)
        body = g.st(q)["body"]
        loops = [n for n in body[1] if isinstance(n, list) and n and n[0] == "while"]
        if len(loops) != 1 or loops[0][2][0] != "block":
            raise AnalysisBroken("%s: expected one decoding while loop with a block body" % q)
        stmts = loops[0][2][1]
        start, K = 0, None
        if lentab:
            start = None
            for i, n in enumerate(stmts):
                if n[0] == "decl" and len(n[1]) == 1 and n[1][0][2] and any(
                        isinstance(x, list) and x and x[0] == "g" and x[1] == lentab for x in core.sx_walk(n[1][0][2])):
                    start, K = i + 1, n[1][0][0]
            if start is None:
                raise AnalysisBroken("%s: the sequence length is no longer read from %s" % (q, lentab))
        # the three cursors: locals initialised from the source / charSizes / toFill parameters
        cur, scale = {}, 1
        for n in body[1]:
            if isinstance(n, list) and n and n[0] == "decl":
                for name, ty, init, _c in n[1]:
                    while init and init[0] == "cast":
                        init = init[2]
                    if init and init[0] == "p" and init[2] not in cur:
                        cur[init[2]] = name
                        if init[2] == "srcData":
                            et = ty.replace("const", "").replace("*", "").strip()
                            if et not in ELEM_SIZE:
                                raise AnalysisBroken("%s: source cursor of unknown element type %s" % (q, ty))
                            scale = ELEM_SIZE[et]
        for need in ("srcData", "charSizes", "toFill"):
            if need not in cur:
                raise AnalysisBroken("%s: no cursor local initialised from parameter %s" % (q, need))
        for k in dom:
            paths, bad = advance.check_round(stmts[start:], {K: k} if K else {}, cur["srcData"], cur["charSizes"], cur["toFill"], scale)
            total += paths
            key = "%s/len=%d" % (q.split("::")[-2].replace("XML", "").replace("Transcoder", "") + "::transcodeFrom" if K is None else "transcodeFrom", (k + 1) if K else scale)
            what = "%d path(s) through a round: advance == recorded sizes on each" % paths
            if bad:
                kind, adv, sizes, trace = bad[0]
                what = ("%s: for a sequence of %d byte(s) the path %s leaves the round (%s) with the source pointer advanced by %d "
                        "byte(s) but character sizes recorded for %d (%s) — bytes are %s" % (
                            q, (k + 1) if K else scale, " ".join("%d:%s" % (l, "T" if v else "F") for l, v in trace[-6:]),
                            {"next": "next round", "break": "break"}.get(kind, kind), adv, sum(sizes), sizes,
                            "counted as eaten without being decoded or reported" if adv > sum(sizes) else "decoded twice or the cursor moved backwards"))
            rep.ob(rid, key, not bad, what, "%s:%s" % (fl, bad[0][3][-1][0] if bad and bad[0][3] else loops[0][-1]))
    rep.count(total)
    rep.floor(rid, total, 14)


def contradictory_declaration_rule(rep):
    from ..engines import advance
    rep.rule("C05.i", "an encoding declaration that names the other auto-sensed family is rejected: XMLReader::setEncoding interpreted "
             "path-exhaustively for every endian-neutral UTF-16 / UCS-4 name it recognises and every auto-sensed encoding — it "
             "returns false (the scanners then report ContradictoryEncoding) unless the reader was sensed in the same family, and "
             "never false when it was; a document sensed as UTF-16 that declares UCS-4 (or the reverse) would otherwise be decoded "
             "with the wrong unit size or silently accepted")
    g = core.run_xa([os.path.join(core.REPO, "src/xercesc/internal/XMLReader.cpp")], st=r"^XMLReader::setEncoding$", flat=False)
    body = g.st("XMLReader::setEncoding")["body"]
    en = g.enums.get("XMLRecognizer::Encodings")
    if not en:
        raise AnalysisBroken("enum XMLRecognizer::Encodings not found")
    vals = {n_: v for n_, v in en["items"] if n_ != "Encodings_Count"}
    names = set()

    def collect(n):
        if isinstance(n, list):
            if n and n[0] == "g" and re.search(r"fg(UTF16|UCS4)EncodingString\d*$", n[1]):
                names.add(n[1])
            for k in n:
                collect(k)
    collect(body)
    fam_of_name = lambda nm: "UTF_16" if "UTF16" in nm else "UCS_4"
    fam_of_enc = lambda e: e[:-1] if e[:-1] in ("UTF_16", "UCS_4") else None
    n = 0
    for nm in sorted(names):
        for ename, ev_ in sorted(vals.items()):
            def hook(x, st, it, nm=nm):
                if x[1] == "XMLString::equals" and len(x[3]) == 2:
                    gs = [a for a in x[3] if a[0] == "g"]
                    if len(gs) == 1 and re.search(r"EncodingString\d*$", gs[0][1]):
                        return 1 if gs[0][1] == nm else 0
                return NotImplemented
            it = advance.Interp(call_hook=hook)
            outs = set()
            for kind, s2 in it.run(body, advance.State({"f:XMLReader::fForcedEncoding": 0, "f:XMLReader::fEncoding": ev_})):
                outs.add(s2.v.get("__ret"))
            same = fam_of_name(nm) == fam_of_enc(ename)
            ok = (outs <= {1} and outs) if same else outs == {0}
            n += 1
            rep.ob("C05.i", "%s/%s" % (nm.split("::")[-1], ename), bool(ok), "accepted" if same else "rejected" if ok else
                   "XMLReader::setEncoding with the declared name %s on a reader sensed as %s returns %s; expected %s" %
                   (nm.split("::")[-1], ename, sorted(outs, key=str), "true" if same else "false (contradictory declaration)"),
                   "src/xercesc/internal/XMLReader.cpp")
    rep.floor("C05.i", n, 12 * 9)


def run(rep):
    tus = [os.path.join(core.REPO, t) for t in TUS]
    f = core.run_xa(tus, tables=r"^g(From|To)Table|^gUTF|^gFirstByteMark$|^XMLUni::fg\w*Encoding|^gEncodingNameMap$|^XMLRecognizer::fg",
                    st=r"^XMLTransService::initTransService$|^XMLRecognizer::encodingForName$", flat=False)
    rep.units.update(TUS)
    codepage_rule(rep, f)
    utf8_rule(rep, f)
    registry_rule(rep, f)
    from ..engines import diag
    lf = core.library_facts()
    diag.run(rep, lf, "C05")
    from ..engines import dispatch
    dispatch.run(rep, lf, "C05")
    from . import C12
    C12.eaten_rule(rep, lf, "C05.d")
    bom_once_rule(rep)
    utf8_advance_rule(rep)
    from . import C04
    C04.icu_flush_rule(rep, "C05.h")
    rep.units.update(os.path.relpath(t, core.REPO) for t in lf.tus)
    truncation_rule(rep)
    contradictory_declaration_rule(rep)
    rep.undecided += ["the decoding/encoding code itself (second-byte ranges for E0/ED/F0/F4 leads, surrogate pairing, "
                      "block-boundary deferral, UTF-16/UCS-4 loops, ICU converters, BOM/declaration reconciliation): value-level, not applicable"]
    rep.assumptions += ["reference code pages: python's cp037/cp1140/cp1252 codecs (independent of the repository)",
                        "IANA alias oracle transcribed in verif/props/C05.py"]
    return ("Static table rules, exhaustive over every table entry: intrinsic single-byte code pages against independent "
            "code-page data, sortedness and round trip; UTF-8 structural tables against the UTF-8 bit layout; the "
            "encoding-name registry read as a table from straight-line code and compared with an alias oracle; "
            "recogniser parallel tables and auto-sense prefixes. Decides table correctness only, not the transcoding loops.")
