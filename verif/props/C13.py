"""C13 — DOM mutation keeps the tree well-formed.

C13.a  who-may-write the tree links (closed world)
C13.b  guard completeness before linking: the throwing guards the DOM specification requires precede
       the first link write of every link mutator (structured statement tree), including the
       ancestor-or-self guard of insertBefore
C13.c  validate before mutate: no argument-validating call / DOMException throw is reachable (CFG) after
       a tree-mutating call in the same DOM operation ("... raise DOMException and leave the tree unchanged")
C13.d  stack-or-heap temporaries in dom/impl are sized for the terminator (ARRAYS, shared with C01.b)
C13.e  DOMException matrix (DIAG)
"""
import os
import re

from .. import core
from ..core import AnalysisBroken, sx_walk, sx_str
from ..engines import diag, guard

LINK = ("DOMNodeImpl::fOwnerNode", "DOMParentNode::fFirstChild", "DOMChildNode::previousSibling", "DOMChildNode::nextSibling")

# confirmed link writers (role)
WRITERS = {
    "DOMParentNode::insertBefore": "the checked child-list mutator",
    "DOMParentNode::removeChild": "the checked child-list mutator",
    "DOMParentNode::appendChildFast": "parser fast path (callers restricted, see C14.b)",
    "DOMParentNode::lastChild": "private setter of the last-child back link used by the two mutators",
    "DOMParentNode::DOMParentNode": "constructor",
    "DOMChildNode::DOMChildNode": "constructor",
    "DOMNodeImpl::DOMNodeImpl": "constructor",
    "DOMNodeImpl::setOwnerDocument": "adoptNode/import: re-homes a detached node",
    "DOMAttrImpl::setOwnerElement": "attribute ownership, called by the attribute maps",
    "DOMAttrMapImpl::setNamedItem": "checked attribute map mutator", "DOMAttrMapImpl::setNamedItemNS": "checked attribute map mutator",
    "DOMAttrMapImpl::removeNamedItem": "checked attribute map mutator", "DOMAttrMapImpl::removeNamedItemNS": "checked attribute map mutator",
    "DOMAttrMapImpl::removeNamedItemAt": "checked attribute map mutator",
    "DOMAttrMapImpl::setNamedItemFast": "parser fast path", "DOMAttrMapImpl::setNamedItemNSFast": "parser fast path",
    "DOMAttrMapImpl::cloneContent": "clone of an attribute map into a new element",
    "DOMNamedNodeMapImpl::setNamedItem": "checked named-node map mutator (entities/notations)",
    "DOMNamedNodeMapImpl::setNamedItemNS": "checked named-node map mutator",
    "DOMNamedNodeMapImpl::removeNamedItem": "checked named-node map mutator",
    "DOMNamedNodeMapImpl::removeNamedItemNS": "checked named-node map mutator",
    "DOMNamedNodeMapImpl::cloneMap": "clone of a named-node map",
}


def owner_rule(rep, f):
    rep.rule("C13.a", "who-may-write (closed world over the library): the parent link, first-child link and sibling links "
             "(DOMNodeImpl::fOwnerNode, DOMParentNode::fFirstChild, DOMChildNode::previousSibling/nextSibling) are assigned "
             "only in the confirmed link mutators; a new writer is reported by name")
    w = {}
    for x in f.kind("fld"):
        if x["f"] in LINK and x["how"] in ("write", "inc", "init", "addr", "refarg"):
            if x["how"] == "init":
                continue
            w.setdefault(x["_fn"]["q"], []).append((x["f"].split("::")[-1], x["l"], x["_fn"]["file"]))
    n = 0
    for q, ws in sorted(w.items()):
        n += len(ws)
        ok = q in WRITERS
        rep.ob("C13.a", q, ok, "%d link writes: %s" % (len(ws), WRITERS.get(q)) if ok else
               "%s assigns tree link %s (line %d) but is not a confirmed link mutator" % (q, ws[0][0], ws[0][1]), "%s:%d" % (ws[0][2], ws[0][1]))
    rep.count(n)
    rep.floor("C13.a", n, 40)
    for q in ("DOMParentNode::insertBefore", "DOMParentNode::removeChild"):
        if q not in w:
            raise AnalysisBroken("%s no longer writes the tree links (anchor changed)" % q)


# ------------------------------------------------------------------ C13.b
def _contains_link_write(s):
    for x in _exprs(s):
        for y in sx_walk(x):
            if y[0] == "b" and y[1] == "=" and isinstance(y[2], list) and y[2] and y[2][0] == "f" and y[2][1] in LINK:
                return True
    return False


def _exprs(s):
    """all expressions of a statement subtree."""
    if not isinstance(s, list) or not s:
        return
    t = s[0]
    if t == "expr":
        yield s[1]
    elif t == "decl":
        for d in s[1]:
            if d[2] is not None:
                yield d[2]
    elif t == "return":
        if s[1] is not None:
            yield s[1]
    elif t == "block":
        for c in s[1]:
            for e in _exprs(c):
                yield e
    elif t == "if":
        yield s[1]
        for e in _exprs(s[2]):
            yield e
        for e in _exprs(s[3]):
            yield e
    elif t in ("while", "do"):
        yield s[1]
        for e in _exprs(s[2]):
            yield e
    elif t == "for":
        for e in _exprs(s[1]):
            yield e
        if s[2] is not None:
            yield s[2]
        if s[3] is not None:
            yield s[3]
        for e in _exprs(s[4]):
            yield e
    elif t == "switch":
        yield s[1]
        for e in _exprs(s[2]):
            yield e
    elif t in ("case",):
        for e in _exprs(s[2]):
            yield e
    elif t == "default":
        for e in _exprs(s[1]):
            yield e
    elif t == "try":
        for e in _exprs(s[1]):
            yield e


def _pure_throw(s):
    """the DOMException code if statement s consists solely of `throw DOMException(CODE ...)`."""
    if s is None:
        return None
    if s[0] == "block":
        if len(s[1]) != 1:
            return None
        return _pure_throw(s[1][0])
    if s[0] == "expr" and s[1] and s[1][0] == "t":
        for y in sx_walk(s[1]):
            if y[0] == "e" and y[1].startswith("DOMException::"):
                return y[1].split("::")[-1]
        return "?"
    return None


def guards_before_first_write(body):
    """[(code, cond, [enclosing conds])] in front of the first statement that writes a link."""
    out = []
    found = [False]

    def scan(stmts, under):
        for s in stmts:
            if found[0]:
                return
            if s is None:
                continue
            if _contains_link_write(s):
                if s[0] == "block":
                    scan(s[1], under)
                elif s[0] == "if":
                    code = _pure_throw(s[2])
                    if code and not _contains_link_write(s[2]):
                        out.append((code, s[1], list(under)))
                        scan([s[3]], under)
                    elif _contains_link_write(s[2]) and not _contains_link_write(s[3]):
                        # writes only in the then-branch; a throwing else-branch is a guard on the negated condition
                        scan([s[2]], under + [s[1]])
                    else:
                        # writes on both sides: guards inside either branch do not dominate; stop here
                        # (an `else if (c) throw` chain is handled by recursing into the else side first)
                        if s[3] is not None and _contains_link_write(s[3]) and not _contains_link_write(s[2]):
                            scan([s[3]], under)
                        else:
                            found[0] = True
                else:
                    found[0] = True
                return
            # no link write in s: collect guards
            collect(s, under)

    def collect(s, under):
        if s[0] == "if":
            code = _pure_throw(s[2])
            if code:
                out.append((code, s[1], list(under)))
                if s[3] is not None:
                    collect(s[3], under)
                return
            # guards nested under a condition (the conditional ancestor walk)
            if s[2] is not None:
                for c in (s[2][1] if s[2][0] == "block" else [s[2]]):
                    if c is not None:
                        collect(c, under + [s[1]])
            if s[3] is not None:
                for c in (s[3][1] if s[3][0] == "block" else [s[3]]):
                    if c is not None:
                        collect(c, under + [["u", "!", s[1]]])
        elif s[0] == "block":
            for c in s[1]:
                if c is not None:
                    collect(c, under)
        elif s[0] in ("for", "while", "do"):
            b = s[4] if s[0] == "for" else s[2]
            if b is not None:
                for c in (b[1] if b[0] == "block" else [b]):
                    if c is not None:
                        collect(c, under + [["loop"]])
    scan(body[1] if body[0] == "block" else [body], [])
    return out


def _m(x, pred):
    return guard.mentions(x, pred)


def _calls(x, name):
    return _m(x, lambda s: s[0] == "c" and s[1].split("::")[-1] == name)


def _param(x, i=None, name=None):
    return _m(x, lambda s: s[0] == "p" and (i is None or s[1] == i) and (name is None or s[2] == name))


# required guards: function -> [(label, code, predicate(cond, under))]
def _req():
    ro = ("readonly", "NO_MODIFICATION_ALLOWED_ERR", lambda c, u: _calls(c, "isReadOnly") or _calls(c, "readOnly"))
    wd = ("wrong-document", "WRONG_DOCUMENT_ERR", lambda c, u: _calls(c, "getOwnerDocument") and c[0] == "b" and c[1] == "!=")
    inuse = ("in-use attribute", "INUSE_ATTRIBUTE_ERR", lambda c, u: _calls(c, "isOwned") or _calls(c, "getOwnerElement"))
    nf = ("not-found", "NOT_FOUND_ERR", "anywhere")   # the map search loop unlinks only what it found and throws when it found nothing
    R = {
        "DOMParentNode::insertBefore": [
            ro, wd,
            ("self", "HIERARCHY_REQUEST_ERR",
             lambda c, u: not u and c[0] == "b" and c[1] == "==" and _param(c, 0) and (_calls(c, "getContainingNode") or _m(c, lambda s: s == ["this"]))),
            ("ancestor", "HIERARCHY_REQUEST_ERR", None),     # special: see ancestor_guard
            ("reference child is a child", "NOT_FOUND_ERR", lambda c, u: _param(c, 1) and _calls(c, "getParentNode") and _calls(c, "getContainingNode")),
            ("legal child type", "HIERARCHY_REQUEST_ERR", lambda c, u: _calls(c, "isKidOK")),
        ],
        "DOMParentNode::removeChild": [
            ro, ("old child is a child", "NOT_FOUND_ERR", lambda c, u: _param(c, 0) and _calls(c, "getParentNode") and _calls(c, "getContainingNode"))],
    }
    for cls in ("DOMAttrMapImpl", "DOMNamedNodeMapImpl"):
        for nm in ("setNamedItem", "setNamedItemNS"):
            R["%s::%s" % (cls, nm)] = [ro, wd, inuse]
        for nm in ("removeNamedItem", "removeNamedItemNS"):
            R["%s::%s" % (cls, nm)] = [ro, nf]
    R["DOMAttrMapImpl::removeNamedItemAt"] = [ro, nf]
    for nm in ("setNamedItem", "setNamedItemNS"):
        R["DOMAttrMapImpl::" + nm] = R["DOMAttrMapImpl::" + nm] + [
            ("argument is an attribute", "HIERARCHY_REQUEST_ERR", lambda c, u: _calls(c, "getNodeType"))]
    return R


def ancestor_guard(body):
    """the cycle guard of insertBefore: a loop over the ancestors of the container that compares each with the inserted node,
    followed by a HIERARCHY_REQUEST_ERR throw; it may be skipped only when the inserted node has no children.
    returns (found, problem)"""
    problems = []
    found = [False]

    def walk(s, under):
        if not isinstance(s, list) or not s:
            return
        if s[0] == "block":
            for c in s[1]:
                walk(c, under)
        elif s[0] == "if":
            walk(s[2], under + [s[1]])
            walk(s[3], under + [["u", "!", s[1]]])
        elif s[0] == "for":
            init, cond, inc, b = s[1], s[2], s[3], s[4]
            cmpnew = any(_m(e, lambda y: y[0] == "b" and y[1] in ("!=", "==") and _param(y, 0)) for e in _exprs(b)) or \
                (cond is not None and _m(cond, lambda y: y[0] == "b" and y[1] in ("!=", "==") and _param(y, 0)))
            climbs = inc is not None and _calls(inc, "getParentNode")
            if cmpnew and climbs:
                found[0] = True
                # start of the walk: the container's parent (self is checked separately) or the container
                start_ok = any(_calls(e, "getContainingNode") for e in _exprs(init))
                if not start_ok:
                    problems.append("the ancestor walk does not start at the container")
                for u in under:
                    uu = u
                    ok = uu[0] == "c" and uu[1].split("::")[-1] == "hasChildNodes" and uu[2] and uu[2][0] == "p" and uu[2][1] == 0
                    if not ok:
                        problems.append("the ancestor walk is skipped unless %s: only 'the inserted node has children' is a sound "
                                        "reason to skip it" % sx_str(u))
    walk(body, [])
    return found[0], problems


def guards_rule(rep, f):
    rep.rule("C13.b", "guard completeness before linking (structured statement tree): in every checked link mutator the first "
             "statement that writes a tree link is preceded, on the statement path leading to it, by an `if (...) throw "
             "DOMException(CODE)` guard of each kind the DOM specification requires (read-only target, wrong document, "
             "attribute in use, reference/old child not a child, illegal child type, inserted node is the container itself); "
             "insertBefore's ancestor walk starts at the container and is skipped only when the inserted node has no children")
    R = _req()
    names = sorted(R)
    tus = sorted(set(os.path.join(core.REPO, fn["file"]) for q in names for fn in f.fns_named(q) if fn["file"].endswith(".cpp")))
    g = core.run_xa(tus, st="^(" + "|".join(re.escape(q) for q in names) + ")$", flat=False)
    n = 0
    for q in names:
        sts = g.sts.get(q)
        if not sts:
            raise AnalysisBroken("link mutator %s vanished" % q)
        for s in sts:
            gs = guards_before_first_write(s["body"])
            have = [(c, sx_str(cond)) for c, cond, u in gs]
            for label, code, pred in R[q]:
                n += 1
                if pred is None:
                    found, problems = ancestor_guard(s["body"])
                    thrown = any(c == code and u and any(_calls(x, "hasChildNodes") for x in u) for c, cond, u in gs)
                    ok = found and not problems and thrown
                    rep.ob("C13.b", "%s/%s" % (q, label), ok,
                           "ancestor walk from the container, skipped only for childless nodes, throws %s" % code if ok else
                           ("; ".join(problems) if problems else "no ancestor walk comparing the inserted node with the container's ancestors precedes the first link write"),
                           "%s:%d" % (s["file"], s["line"]))
                    continue
                if pred == "anywhere":
                    ok = any(_pure_throw(["expr", e]) == code for e in _exprs(s["body"]) if e and e[0] == "t")
                    rep.ob("C13.b", "%s/%s" % (q, label), ok, "throws %s when the item is not in the map" % code if ok else
                           "%s never reports %s" % (q, code), "%s:%d" % (s["file"], s["line"]))
                    continue
                ok = any(c == code and pred(cond, u) for c, cond, u in gs)
                rep.ob("C13.b", "%s/%s" % (q, label), ok,
                       "guarded: throws %s" % code if ok else
                       "%s links nodes without first rejecting '%s' with %s (guards found before the first link write: %s)" % (q, label, code, have),
                       "%s:%d" % (s["file"], s["line"]))
    rep.floor("C13.b", n, 30)


# ------------------------------------------------------------------ C13.c
MUTATING = {"removeChild", "removeAttributeNode", "insertBefore", "appendChild", "replaceChild", "setAttributeNode", "setAttributeNodeNS",
            "removeNamedItem", "removeNamedItemNS", "setNamedItem", "setNamedItemNS", "removeAttribute", "removeAttributeNS",
            "removeNamedItemAt", "appendChildFast"}
VALIDATING = {"createElementNS", "createAttributeNS", "createElement", "createAttribute", "createProcessingInstruction",
              "createEntityReference", "createDocumentType", "setPrefix"}
# operations whose later throw is specified/benign (one symbol, one reason)
VBM_EXEMPT = {
    "DOMParentNode::insertBefore": "document-fragment case: the prescan rejects illegal children before any child is moved; the moves then call the checked insertBefore recursively",
    "DOMDocumentImpl::importNode": "builds a new detached subtree in the target document: a failure leaves the target tree unchanged (the partial copy is unreachable)",
    "DOMDocumentImpl::DOMDocumentImpl": "constructor: a failure destroys the document being built",
}


def validate_before_mutate(rep, f):
    rep.rule("C13.c", "validate before mutate (CFG): in every function under dom/impl that calls a tree-mutating operation "
             "(removeChild, insertBefore, removeAttributeNode, setNamedItem ...), no `throw DOMException` and no call of a "
             "name-validating factory (createElementNS, createAttributeNS, ...) is reachable after such a call — a rejected "
             "operation must leave the tree unchanged")
    cands = {}
    for q, fns in f.by_q.items():
        for fn in fns:
            if "/dom/impl/" not in fn["file"] or not fn["file"].endswith(".cpp"):
                continue
            m = [x for x in fn["_facts"] if x["k"] == "call" and x["x"][1].split("::")[-1] in MUTATING]
            v = [x for x in fn["_facts"] if (x["k"] == "call" and x["x"][1].split("::")[-1] in VALIDATING) or x["k"] == "throw"]
            if m and v:
                cands[q] = fn["file"]
    if len(cands) < 4:
        raise AnalysisBroken("only %d functions mix mutation and validation under dom/impl" % len(cands))
    tus = sorted(set(os.path.join(core.REPO, x) for x in cands.values()))
    g = core.run_xa(tus, cfg="^(" + "|".join(re.escape(q) for q in sorted(cands)) + ")$", flat=False)

    def is_mut(el):
        return any(x[0] == "c" and x[1].split("::")[-1] in MUTATING for x in guard.el_top_calls(el))

    def is_val(el):
        for x in guard.el_top_calls(el):
            if x[0] == "c" and x[1].split("::")[-1] in VALIDATING:
                return True
            if x[0] == "t" and "DOMException" in str(x[2] if len(x) > 2 else ""):
                return True
        return False
    n = 0
    for q in sorted(cands):
        for raw in g.cfgs.get(q, []):
            cfg = guard.Cfg(raw)
            bad = []
            for bid, i, el in cfg.elements():
                if not is_mut(el):
                    continue
                # validating events later in the same block
                for e2 in cfg.blocks[bid]["els"][i + 1:]:
                    if is_val(e2):
                        bad.append((el.get("l"), e2.get("l")))
                seen, work = set(), list(cfg.succs(bid))
                while work:
                    b = work.pop()
                    if b in seen:
                        continue
                    seen.add(b)
                    for e2 in cfg.blocks[b]["els"]:
                        if is_val(e2):
                            bad.append((el.get("l"), e2.get("l")))
                    work.extend(cfg.succs(b))
            n += 1
            if q in VBM_EXEMPT:
                rep.ob("C13.c", q, True, "exempt: " + VBM_EXEMPT[q], cfg.file)
                continue
            rep.ob("C13.c", q, not bad, "no validation can fail after the first tree mutation" if not bad else
                   "%s mutates the tree at line %s and can still throw / validate at line %s: a rejected operation leaves the tree changed" % (q, bad[0][0], bad[0][1]),
                   "%s:%s" % (cfg.file, bad[0][0] if bad else 0), detail={"pairs": sorted(set(bad))[:10]})
    rep.floor("C13.c", n, 4)


# DOM Level 3 Core 1.1.1 "The DOM Structure Model": which node types may be children of which
_CONTENT = ["ELEMENT_NODE", "PROCESSING_INSTRUCTION_NODE", "COMMENT_NODE", "TEXT_NODE", "CDATA_SECTION_NODE", "ENTITY_REFERENCE_NODE"]
HIERARCHY = {
    "DOCUMENT_NODE": ["ELEMENT_NODE", "PROCESSING_INSTRUCTION_NODE", "COMMENT_NODE", "DOCUMENT_TYPE_NODE"],
    "DOCUMENT_FRAGMENT_NODE": _CONTENT, "ENTITY_REFERENCE_NODE": _CONTENT, "ELEMENT_NODE": _CONTENT, "ENTITY_NODE": _CONTENT,
    "ATTRIBUTE_NODE": ["TEXT_NODE", "ENTITY_REFERENCE_NODE"],
    "DOCUMENT_TYPE_NODE": [], "PROCESSING_INSTRUCTION_NODE": [], "COMMENT_NODE": [], "TEXT_NODE": [], "CDATA_SECTION_NODE": [],
    "NOTATION_NODE": [],
}


def hierarchy_rule(rep):
    rep.rule("C13.e", "hierarchy table: DOMDocumentImpl::isKidOK's constant table kidOK[parent type], bit (1 << child type), equals "
             "the structure model of DOM Level 3 Core 1.1.1 for all 12 x 12 (parent, child) node-type pairs (exhaustive; the "
             "whitespace-text-under-document extension is outside the table), and the function indexes it by the parent's type "
             "and tests the child's bit")
    tu = os.path.join(core.REPO, "src/xercesc/dom/impl/DOMDocumentImpl.cpp")
    g = core.run_xa([tu], tables=r"^kidOK$", flat=True)
    t = g.table("kidOK")
    en = g.enums.get("DOMNode::NodeType")
    if not en:
        raise AnalysisBroken("enum DOMNode::NodeType not found")
    val = {n: v for n, v in en["items"]}
    if set(val) != set(HIERARCHY):
        raise AnalysisBroken("DOMNode::NodeType no longer has exactly the twelve DOM node types")
    tab = t["v"]
    n = 0
    for p, kids in sorted(HIERARCHY.items()):
        for c in sorted(HIERARCHY):
            n += 1
            got = val[p] < len(tab) and bool(tab[val[p]] & (1 << val[c]))
            want = c in kids
            if got != want:
                rep.ob("C13.e", "kidOK[%s]/%s" % (p, c), False,
                       "isKidOK's table %s a %s as child of a %s; DOM Core says it is %s" % (
                           "allows" if got else "rejects", c, p, "allowed" if want else "not allowed"),
                       "src/xercesc/dom/impl/DOMDocumentImpl.cpp:%s" % t.get("line", 0))
    rep.count(n)
    rep.ob("C13.e", "kidOK", True, "%d (parent, child) pairs agree with DOM Core" % n, "src/xercesc/dom/impl/DOMDocumentImpl.cpp:%s" % t.get("line", 0))
    # use of the table
    fn = [x for x in g.kind("ret") if x["_fn"]["q"] == "DOMDocumentImpl::isKidOK"]
    uses = [s for x in fn for s in sx_walk(x["x"]) if isinstance(s, list) and len(s) == 4 and s[0] == "b" and s[1] == "&"
            and s[2][0] == "x" and s[2][1] == ["g", "kidOK"] and s[3][0] == "b" and s[3][1] == "<<" and s[3][2] == ["i", 1]]
    if not uses:
        raise AnalysisBroken("DOMDocumentImpl::isKidOK no longer tests (kidOK[p] & 1 << ch) in its return expression")
    decl = {x["name"]: x.get("init") for x in g.kind("local") if x["_fn"]["q"] == "DOMDocumentImpl::isKidOK"}
    u = uses[0]
    pi, ci = u[2][2], u[3][3]

    def src(v):
        i = decl.get(v[1]) if v[0] == "l" else None
        for s in sx_walk(i or []):
            if isinstance(s, list) and s and s[0] == "c" and s[1].endswith("::getNodeType"):
                return s[2]
        return None
    sp, sc = src(pi), src(ci)
    ok = sp is not None and sc is not None and sp[0] == "p" and sc[0] == "p" and sp[1] == 0 and sc[1] == 1
    rep.ob("C13.e", "isKidOK/index", ok, "indexed by the parent's type, tested against the child's bit" if ok else
           "DOMDocumentImpl::isKidOK indexes kidOK by %s and tests the bit of %s: parent and child are mixed up" % (
               sx_str(sp) if sp else sx_str(pi), sx_str(sc) if sc else sx_str(ci)), "src/xercesc/dom/impl/DOMDocumentImpl.cpp")


def supplementary_names_rule(rep):
    rep.rule("C13.f", "the DOM's name checks accept what the parser accepts: the parser's name scanner (XMLReader::getName / getNCName) "
             "takes the surrogate pairs of U+10000..U+EFFFF (lead D800..DB7F) as name characters for both XML versions; "
             "DOMDocumentImpl::isXMLName / isValidQName delegate to XMLChar1_0 / XMLChar1_1 ::isValidName, isValidNCName, "
             "isValidNmtoken, isValidQName, each of which must therefore test the lead-surrogate range (a comparison with 0xDB7F) "
             "or delegate to one that does — otherwise createElement / createProcessingInstruction throw INVALID_CHARACTER_ERR for "
             "names the parser produced, and a DOM build of a well-formed document fails where SAX succeeds")
    tu = os.path.join(core.REPO, "src/xercesc/util/XMLChar.cpp")
    g = core.run_xa([tu], st=r"^XMLChar1_[01]::isValid(Name|NCName|Nmtoken|QName)$", flat=False)
    handles = {}
    calls = {}
    for q, sts in g.sts.items():
        for st in sts:
            key = q
            has = any(isinstance(x, list) and len(x) == 2 and x[0] == "i" and x[1] == 0xDB7F for x in sx_walk(st["body"]))
            handles[key] = handles.get(key, True) and has if key in handles else has
            for x in sx_walk(st["body"]):
                if isinstance(x, list) and x and x[0] == "c" and x[1] in g.sts and x[1] != q:
                    calls.setdefault(key, set()).add(x[1])
    if len(handles) < 8:
        raise AnalysisBroken("XMLChar name validators not found (%d)" % len(handles))
    for q in sorted(handles):
        ok = handles[q] or any(handles.get(c) for c in calls.get(q, ()))
        rep.ob("C13.f", q, ok, "tests the lead-surrogate range D800..DB7F" + ("" if handles[q] else " through " + ", ".join(sorted(calls.get(q, ())))) if ok else
               "%s looks every UTF-16 code unit up in the BMP table and never pairs surrogates: a name containing a character of "
               "U+10000..U+EFFFF, which the parser accepts, is rejected by the DOM (createElement, createProcessingInstruction, "
               "setPrefix ...) and by a DOM build of a well-formed document" % q, "src/xercesc/util/XMLChar.cpp")


def attr_identity_rule(rep, rid="C13.g"):
    rep.rule(rid, "removeAttributeNode removes the node it was given: in DOMElementImpl::removeAttributeNode the removal from the "
             "attribute map is controlled (CFG controlling conditions) by the comparison of the attribute found under that name with "
             "the oldAttr argument — an Attr of another element (or a free-standing one) with the same name must raise NOT_FOUND_ERR, "
             "not make this element lose its own attribute; and DOMAttrImpl::setValue marks the attribute as specified on every "
             "normal path (a changed value of a DTD-defaulted attribute must not be discarded as default content)")
    g = core.run_xa([os.path.join(core.REPO, "src/xercesc/dom/impl/DOMElementImpl.cpp"), os.path.join(core.REPO, "src/xercesc/dom/impl/DOMAttrImpl.cpp")],
                    cfg=r"^(DOMElementImpl::removeAttributeNode|DOMAttrImpl::setValue)$", flat=False)
    cfg = guard.Cfg(g.cfg("DOMElementImpl::removeAttributeNode"))
    ss = guard.sites(cfg, lambda x: x[0] == "c" and x[1].split("::")[-1] in ("removeNamedItemAt", "removeNamedItem"))
    if not ss:
        raise AnalysisBroken("DOMElementImpl::removeAttributeNode no longer removes from the attribute map")
    for bid, i, el in ss:
        ok = False
        for cond, pol, _p in guard.controlling(cfg, bid):
            if cond[0] == "b" and cond[1] in ("==", "!=") and (cond[1] == "==") == pol and any(
                    isinstance(y, list) and y and y[0] == "p" and y[2] == "oldAttr" for side in (cond[2], cond[3]) for y in sx_walk(side)):
                ok = True
        rep.ob(rid, "removeAttributeNode@remove", ok, "removal only when the attribute found is the argument" if ok else
               "DOMElementImpl::removeAttributeNode (line %s) removes the attribute found under the name without comparing it with the "
               "oldAttr argument" % el.get("l"), "src/xercesc/dom/impl/DOMElementImpl.cpp:%s" % el.get("l", 0))
    c2 = guard.Cfg(g.cfg("DOMAttrImpl::setValue"))

    def marks(el):
        return any(c[0] == "c" and c[1].split("::")[-1] == "isSpecified" and c[3] and c[3][0] == ["i", 1] for c in guard.el_top_calls(el))
    st = guard.must_state(c2, gen_el=marks)
    bad = [c2.line_of(p) for p in c2.preds[c2.exit] if not c2.throws(p) and not st(p, len(c2.blocks[p]["els"]))]
    rep.ob(rid, "DOMAttrImpl::setValue/specified", not bad, "specified flag set on every normal path" if not bad else
           "DOMAttrImpl::setValue can return (via line %s) without marking the attribute as specified: a DTD-defaulted attribute whose value "
           "the application changed is still treated as default content" % bad, "src/xercesc/dom/impl/DOMAttrImpl.cpp")


def replace_self_rule(rep):
    rep.rule("C13.h", "replacing an attribute by itself changes nothing: in DOMAttrMapImpl::setNamedItem / setNamedItemNS the node found "
             "under the name is disowned (isOwned(false)) only under a test that it is not the argument itself, or the function has "
             "already rejected an argument that is owned (INUSE_ATTRIBUTE_ERR thrown for any owned argument) — otherwise the "
             "attribute stays in the map without an owner element and a second element can adopt it")
    g = core.run_xa([os.path.join(core.REPO, "src/xercesc/dom/impl/DOMAttrMapImpl.cpp")], cfg=r"^DOMAttrMapImpl::setNamedItem(NS)?$", flat=False)
    n = 0
    for q in ("DOMAttrMapImpl::setNamedItem", "DOMAttrMapImpl::setNamedItemNS"):
        cfg = guard.Cfg(g.cfg(q))
        ss = guard.sites(cfg, lambda x: x[0] == "c" and x[1].split("::")[-1] == "isOwned" and x[3] == [["i", 0]])
        if not ss:
            raise AnalysisBroken("%s no longer disowns the replaced attribute" % q)
        # an unconditional rejection of owned arguments: a throwing guard whose condition is just arg->isOwned()
        strict = False
        for bid, blk in cfg.blocks.items():
            t = blk.get("term")
            c = t and t.get("cond")
            if c and c[0] == "c" and c[1].split("::")[-1] == "isOwned" and not c[3] and blk["succ"][0] is not None:
                # the true edge (argument already owned) never reaches the disowning statement: it ends in the throw
                seen, work = set(), [blk["succ"][0]]
                while work:
                    b = work.pop()
                    if b in seen:
                        continue
                    seen.add(b)
                    if not cfg.throws(b):
                        work.extend(cfg.succs(b))
                if not any(b2 in seen for b2, _, _ in ss):
                    strict = True
        for bid, i, el in ss:
            n += 1
            ok = strict
            for cond, pol, _p in guard.controlling(cfg, bid):
                if cond[0] == "b" and cond[1] == "!=" and pol and any(isinstance(y, list) and y and y[0] == "p" for side in (cond[2], cond[3]) for y in sx_walk(side)) \
                        and cond[3] != ["i", 0] and cond[2] != ["i", 0]:
                    ok = True
            rep.ob("C13.h", "%s@disown" % q, ok, "the replaced node is disowned only when it is another node" if ok else
                   "%s (line %s) disowns the node found under the name even when it is the argument itself: the attribute remains in "
                   "the map with no owner element" % (q, el.get("l")), "src/xercesc/dom/impl/DOMAttrMapImpl.cpp:%s" % el.get("l", 0))
    rep.floor("C13.h", n, 2)


def release_purges_user_data_rule(rep):
    rep.rule("C13.j", "release() leaves no user data behind: the per-document user-data table is keyed by node address and released "
             "nodes are recycled, so DOMDocumentImpl::callUserDataHandlers must reach its `operation == NODE_DELETED` decision (and "
             "removeKey under it) on every normal path on which the table exists — whatever the node's records or handlers are; "
             "a path that leaves earlier lets the next node created at that address inherit the dead node's data")
    g = core.run_xa([os.path.join(core.REPO, "src/xercesc/dom/impl/DOMDocumentImpl.cpp")], cfg=r"^DOMDocumentImpl::callUserDataHandlers$", flat=False)
    cfg = guard.Cfg(g.cfg("DOMDocumentImpl::callUserDataHandlers"))

    def is_deleted_test(x):
        return isinstance(x, list) and len(x) == 4 and x[0] == "b" and x[1] in ("==", "!=") and \
            any(isinstance(y, list) and y and y[0] == "e" and y[1].endswith("NODE_DELETED") for y in (x[2], x[3]))
    tests = {bid for bid, i, el in cfg.elements() if guard.mentions(guard.el_sx(el), is_deleted_test)}
    for bid, b in cfg.blocks.items():
        if "term" in b and guard.mentions(b["term"].get("cond"), is_deleted_test):
            tests.add(bid)
    removes = guard.sites(cfg, lambda c: c[1].endswith("::removeKey"))
    if not tests or not removes:
        raise AnalysisBroken("callUserDataHandlers: the NODE_DELETED decision / removeKey call is no longer recognised")
    table = lambda x: True if (x[0] == "f" and x[1].endswith("::fUserDataTable")) else None
    seen = guard.reachable(cfg, assume=table, stop=lambda b: b in tests or cfg.throws(b))
    ok = cfg.exit not in seen
    rep.ob("C13.j", "callUserDataHandlers@NODE_DELETED", ok, "every normal path with a table reaches the purge decision" if ok else
           "DOMDocumentImpl::callUserDataHandlers can return, with the user-data table present, without reaching the "
           "`operation == NODE_DELETED` purge (removeKey): the records of a released node stay in the table under its address",
           "%s:%s" % (cfg.file, cfg.line_of(min(tests))))


def _strip(x):
    while isinstance(x, list) and x and x[0] == "cast":
        x = x[2]
    return x


def run(rep):
    f = core.library_facts()
    rep.units.update(os.path.relpath(t, core.REPO) for t in f.tus)
    owner_rule(rep, f)
    guards_rule(rep, f)
    validate_before_mutate(rep, f)
    hierarchy_rule(rep)
    supplementary_names_rule(rep)
    attr_identity_rule(rep)
    replace_self_rule(rep)
    release_purges_user_data_rule(rep)
    from . import C14
    C14.delete_data_rule(rep, "C13.i")
    from ..engines import arrays
    arrays.soh_rule(rep, f, "C13.d", lambda fn: "/dom/impl/" in fn["file"])
    diag.run(rep, f, "C13")
    from ..engines import dispatch
    dispatch.run(rep, f, "C13")
    rep.undecided += ["equality with a reference DOM over operation histories", "offset arithmetic results, attribute map ordering",
                      "ownerDocument uniformity after adoptNode/importNode of deep subtrees"]
    rep.assumptions += ["a guard is an `if` whose controlled statement is exactly one `throw DOMException(CODE ...)`"]
    return ("Static: closed-world who-may-write census of the four tree-link members; guard completeness before the first "
            "link write of every checked mutator from the structured statement trees (incl. the ancestor-or-self predicate); "
            "CFG reachability of validation after mutation; sizing of stack-or-heap temporaries; DOMException matrix. Decides "
            "these necessary conditions, not equivalence with a reference DOM.")
