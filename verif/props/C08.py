"""C08 — XML Schema structure validation accepts exactly the schema-valid instances.

C08.a  schema validity / schema-component diagnostics matrix (DIAG): SchemaValidator, IG/SG scanners, TraverseSchema, ...
C08.b  particle/content dispatch over ContentSpecNode::NodeTypes and ModelTypes (DISPATCH)
C08.c  conversion discipline: every datatype validation issued by the validation layer runs inside a try whose
       XMLException handler reports a validity error (a facet violation never escapes as a foreign exception)
"""
import os

from .. import core
from ..core import AnalysisBroken
from ..engines import diag, dispatch

LAYER = ("SchemaValidator", "IGXMLScanner", "SGXMLScanner", "TraverseSchema", "XSAXMLScanner", "DTDValidator")


def conversion_rule(rep, f):
    rep.rule("C08.c", "conversion discipline: every call of DatatypeValidator::validate (any override) made by the validation layer "
             "(SchemaValidator, the scanners, TraverseSchema) lies inside a try block of the same function that has an "
             "XMLException (or catch-all) handler — lexical and facet violations surface as XMLExceptions and must be turned into "
             "validity / schema errors there")
    n = 0
    for x in f.kind("call"):
        c = x["x"]
        if c[1].split("::")[-1] != "validate" or not f.is_derived(x.get("ccls") or "", "DatatypeValidator"):
            continue
        fn = x["_fn"]
        if fn.get("cls") not in LAYER:
            continue
        tries = [t for t in fn["_facts"] if t["k"] == "try" and t["from"] <= x["l"] <= t["to"]]
        ok = any(("XMLException" in t["h"]) or ("..." in t["h"]) for t in tries)
        n += 1
        rep.ob("C08.c", "%s@validate:%d" % (fn["q"], n), ok, "inside try/catch(XMLException)" if ok else
               "%s validates a value at line %d outside any XMLException handler: an invalid value raises an exception through the "
               "scanner instead of a validity error" % (fn["q"], x["l"]), "%s:%d" % (fn["file"], x["l"]))
    rep.floor("C08.c", n, 10)


CHAIN_STEP = ("::getBaseComplexTypeInfo", "::getBaseValidator")
CHAIN_PROPS = ("::getDerivedBy",)


def chain_walk_rule(rep, f):
    import re
    rep.rule("C08.d", "a walk up a type's derivation chain looks at the step it is standing on: in every loop that advances a local "
             "through getBaseComplexTypeInfo()/getBaseValidator() (xsi:type blocking, substitution-group blocking, restriction "
             "checks), the derivation method consulted inside the loop is that local's — read from any other object the loop tests "
             "the same step over and over, and a block/final constraint on an intermediate derivation step is not enforced")
    have = {}
    for x in f.kind("call"):
        nm = x["x"][1]
        if isinstance(nm, str) and "/validators/schema/" in x["_fn"]["file"]:
            if nm.endswith(CHAIN_PROPS):
                have.setdefault(x["_fn"]["q"], set()).add("prop")
            elif nm.endswith(CHAIN_STEP):
                have.setdefault(x["_fn"]["q"], set()).add("step")
            have.setdefault(x["_fn"]["q"], set()).add("file:" + x["_fn"]["file"])
    fns = {q: [v[5:] for v in vs if v.startswith("file:")][0] for q, vs in have.items() if {"prop", "step"} <= vs}
    byfile = {}
    for q, fl in fns.items():
        byfile.setdefault(fl, []).append(q)
    trees = {}
    for fl, qs in sorted(byfile.items()):
        g = core.run_xa([os.path.join(core.REPO, fl)], st="^(" + "|".join(re.escape(q) for q in sorted(qs)) + ")$", flat=False)
        for q in qs:
            trees[q] = g.st(q)["body"]
    n = 0
    for q, fl in sorted(fns.items()):
        body = trees[q]
        loops = []

        def find(nd):
            if isinstance(nd, list):
                if nd and nd[0] in ("while", "for"):
                    loops.append(nd)
                for k in nd:
                    find(k)
        find(body)
        for lp in loops:
            steps, reads = set(), []

            def scan(nd):
                if isinstance(nd, list):
                    if len(nd) == 4 and nd[0] == "b" and nd[1] == "=" and isinstance(nd[2], list) and nd[2][:1] == ["l"] and \
                            isinstance(nd[3], list) and nd[3][:1] == ["c"] and isinstance(nd[3][1], str) and nd[3][1].endswith(CHAIN_STEP) and nd[3][2] == nd[2]:
                        steps.add(nd[2][1])
                    if nd[:1] == ["c"] and isinstance(nd[1], str) and nd[1].endswith(CHAIN_PROPS):
                        reads.append(nd)
                    for k in nd:
                        scan(k)
            scan(lp)
            if not steps or not reads:
                continue
            line = lp[-1] if isinstance(lp[-1], int) else 0
            for r in reads:
                n += 1
                recv = r[2]
                ok = isinstance(recv, list) and recv[:1] == ["l"] and recv[1] in steps
                rep.ob("C08.d", "%s@loop:%s/%s" % (q, line, r[1].split("::")[-1]), ok, "reads the current step (%s)" % sorted(steps)[0] if ok else
                       "%s: the loop at line %s walks %s up the derivation chain but takes %s from %s — every iteration examines the "
                       "same derivation step" % (q, line, sorted(steps)[0], r[1].split("::")[-1], core.sx_str(recv) if recv else "?"),
                       "%s:%s" % (fl, line))
    rep.floor("C08.d", n, 3)


def run(rep):
    f = core.library_facts()
    rep.units.update(os.path.relpath(t, core.REPO) for t in f.tus)
    conversion_rule(rep, f)
    chain_walk_rule(rep, f)
    diag.run(rep, f, "C08")
    dispatch.run(rep, f, "C08")
    rep.undecided += ["acceptance of exactly the schema-valid instances: occurrence counting, wildcard namespace algebra, substitution groups, "
                      "derivation/blocking checks, UPA — value-level", "reported type information and defaults"]
    return ("Static: schema diagnostics matrix (SchemaValidator, scanners, TraverseSchema's 140 codes per traverse/check function), "
            "particle dispatch coverage, containment of datatype-validation exceptions. Decides that each check still reports, not "
            "the verdict.")
