"""C08 — XML Schema structure validation accepts exactly the schema-valid instances.

C08.a  schema validity / schema-component diagnostics matrix (DIAG): SchemaValidator, IG/SG scanners, TraverseSchema, ...
C08.b  particle/content dispatch over ContentSpecNode::NodeTypes and ModelTypes (DISPATCH)
C08.c  conversion discipline: every datatype validation issued by the validation layer runs inside a try whose
       XMLException handler reports a validity error (a facet violation never escapes as a foreign exception)
"""
import os

from .. import core
from ..core import AnalysisBroken
from ..engines import diag, dispatch

LAYER = ("SchemaValidator", "IGXMLScanner", "SGXMLScanner", "TraverseSchema", "XSAXMLScanner", "DTDValidator")


def conversion_rule(rep, f):
    rep.rule("C08.c", "conversion discipline: every call of DatatypeValidator::validate (any override) made by the validation layer "
             "(SchemaValidator, the scanners, TraverseSchema) lies inside a try block of the same function that has an "
             "XMLException (or catch-all) handler — lexical and facet violations surface as XMLExceptions and must be turned into "
             "validity / schema errors there")
    n = 0
    for x in f.kind("call"):
        c = x["x"]
        if c[1].split("::")[-1] != "validate" or not f.is_derived(x.get("ccls") or "", "DatatypeValidator"):
            continue
        fn = x["_fn"]
        if fn.get("cls") not in LAYER:
            continue
        tries = [t for t in fn["_facts"] if t["k"] == "try" and t["from"] <= x["l"] <= t["to"]]
        ok = any(("XMLException" in t["h"]) or ("..." in t["h"]) for t in tries)
        n += 1
        rep.ob("C08.c", "%s@validate:%d" % (fn["q"], n), ok, "inside try/catch(XMLException)" if ok else
               "%s validates a value at line %d outside any XMLException handler: an invalid value raises an exception through the "
               "scanner instead of a validity error" % (fn["q"], x["l"]), "%s:%d" % (fn["file"], x["l"]))
    rep.floor("C08.c", n, 10)


def run(rep):
    f = core.library_facts()
    rep.units.update(os.path.relpath(t, core.REPO) for t in f.tus)
    conversion_rule(rep, f)
    diag.run(rep, f, "C08")
    dispatch.run(rep, f, "C08")
    rep.undecided += ["acceptance of exactly the schema-valid instances: occurrence counting, wildcard namespace algebra, substitution groups, "
                      "derivation/blocking checks, UPA — value-level", "reported type information and defaults"]
    return ("Static: schema diagnostics matrix (SchemaValidator, scanners, TraverseSchema's 140 codes per traverse/check function), "
            "particle dispatch coverage, containment of datatype-validation exceptions. Decides that each check still reports, not "
            "the verdict.")
