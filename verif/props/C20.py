"""C20 — XInclude processing yields the specified merged tree and detects inclusion loops.

C20.a  loop guards dominate the nested parse (CFG must-precede)
C20.b  inclusion-history push/pop pairing (CFG must-follow) and recursion lies between them
C20.c  XInclude diagnostics matrix (DIAG)
C20.d  XInclude processing is reachable only with the doXInclude feature on (CFG, unreachable under !fDoXInclude)
C20.e  refill-with-carry agreement in the text inclusion (shared with C04.d)
"""
import os
import re

from .. import core
from ..core import AnalysisBroken, sx_walk
from ..engines import diag, guard
from . import C04

XI = "src/xercesc/xinclude/XIncludeUtils.cpp"


def _calls(el, name):
    return any(x[0] == "c" and x[1].split("::")[-1] == name for x in guard.el_top_calls(el))


NULLABLE_NAV = ("getLastChild", "getFirstChild", "getPreviousSibling", "getNextSibling")


def cursor_rule(rep, rid="C20.h"):
    rep.rule(rid, "the tree builder's cursor survives an inclusion that yields nothing: in the DOM builders (AbstractDOMParser, "
             "DOMLSParserImpl) an assignment of fCurrentNode from a navigation getter that returns null for 'no such node' "
             "(getLastChild, getFirstChild, getPreviousSibling, getNextSibling) either is a conditional with a non-null "
             "alternative or is followed on every normal path by a test of fCurrentNode — docCharacters dereferences the cursor, "
             "so `<xi:include><xi:fallback/></xi:include>text` as only content crashed the parser")
    tus = [os.path.join(core.REPO, "src/xercesc/parsers/AbstractDOMParser.cpp"), os.path.join(core.REPO, "src/xercesc/parsers/DOMLSParserImpl.cpp")]
    g = core.run_xa(tus, cfg=r"^(AbstractDOMParser|DOMLSParserImpl)::", flat=False)
    F = "AbstractDOMParser::fCurrentNode"
    n = 0
    for q, raws in sorted(g.cfgs.items()):
        for raw in raws:
            cfg = guard.Cfg(raw)

            def is_nav_assign(el):
                x = el.get("x")
                if not (x and x[0] == "b" and x[1] == "=" and x[2][0] == "f" and x[2][1] == F):
                    return False
                r = x[3]
                while r[0] == "cast":
                    r = r[2]
                return r[0] == "c" and r[1].split("::")[-1] in NULLABLE_NAV

            def is_test(el):
                return False
            sites = [(b, i, el) for b, i, el in cfg.elements() if is_nav_assign(el)]
            if not sites:
                continue
            # a following null test = a branch whose condition mentions the cursor
            tested_blocks = set()
            for bid, blk in cfg.blocks.items():
                t = blk.get("term")
                c = t and t.get("cond")
                if c and guard.mentions(c, lambda s_: isinstance(s_, list) and len(s_) >= 2 and s_[0] == "f" and s_[1] == F):
                    tested_blocks.add(bid)
            for b, i, el in sites:
                n += 1
                # every path from the assignment reaches a testing block before the exit
                ok = True
                seen, work = set(), [b]
                while work:
                    x = work.pop()
                    if x in seen:
                        continue
                    seen.add(x)
                    if x in tested_blocks:
                        continue
                    if x == cfg.exit:
                        ok = False
                        break
                    if cfg.throws(x):
                        continue
                    work.extend(cfg.succs(x))
                rep.ob(rid, "%s@fCurrentNode:%d" % (q, n), ok,
                       "null result is tested before the callback returns" if ok else
                       "%s (line %s) leaves fCurrentNode = %s, which is null when there is no such node, without a test: the next "
                       "character-data callback dereferences it" % (q, el.get("l"), core.sx_str(el["x"][3])),
                       "%s:%s" % (cfg.file, el.get("l", 0)))
    rep.floor(rid, n, 1)


def run(rep):
    f = core.library_facts()
    g = core.run_xa([os.path.join(core.REPO, XI), os.path.join(core.REPO, "src/xercesc/parsers/AbstractDOMParser.cpp")],
                    cfg=r"^XIncludeUtils::|^AbstractDOMParser::(parse|endElement|parseFirst)$", flat=False)
    rep.units.update([XI, "src/xercesc/parsers/AbstractDOMParser.cpp"])

    rep.rule("C20.a", "loop detection dominates inclusion: in XIncludeUtils::doXIncludeXMLFileDOM every path to the nested "
             "parser.parse(...) passes the test isInCurrentInclusionHistoryStack(href) and the test href == base URI of the "
             "including document; the failing edge of each reports the circular-inclusion error and returns without parsing")
    cfg = guard.Cfg(g.cfg("XIncludeUtils::doXIncludeXMLFileDOM"))

    def report_code(cfg, start):
        seen, work = set(), [start]
        while work and len(seen) < 6:
            b = work.pop()
            if b in seen or b is None:
                continue
            seen.add(b)
            for el in cfg.blocks[b]["els"]:
                for x in guard.el_sx(el):
                    for y in sx_walk(x):
                        if y[0] == "e" and y[1].startswith("XMLErrs::XInclude"):
                            return y[1].split("::")[-1]
            work.extend(cfg.succs(b))
        return None
    for label, pred, code in (
            ("history", lambda c: guard.mentions(c, lambda s: s[0] == "c" and s[1].endswith("::isInCurrentInclusionHistoryStack")), "XIncludeCircularInclusionLoop"),
            ("self", lambda c: guard.mentions(c, lambda s: s[0] == "c" and s[1].endswith("::equals")) and
             guard.mentions(c, lambda s: s[0] == "c" and s[1].split("::")[-1] in ("getBaseURI", "getDocumentURI")), "XIncludeCircularInclusionDocIncludesSelf")):
        gs = guard.guards(cfg, pred)
        good = {}
        for (b, k), t in gs.items():
            leaving = cfg.blocks[b]["succ"][1 - k]
            if report_code(cfg, leaving) == code:
                good[(b, k)] = t
        res = guard.must_precede(cfg, lambda el: False, lambda el: any(x[0] == "c" and x[1].split("::")[-1] in ("parse", "parseURI") and
                                                                     x[1].split("::")[0].endswith("Parser") for x in guard.el_top_calls(el)),
                                 edge_a=lambda b, k: (b, k) in good)
        if not res:
            raise AnalysisBroken("doXIncludeXMLFileDOM no longer parses the included document (anchor changed)")
        bad = [el.get("l") for b, i, el, ok in res if not ok]
        rep.ob("C20.a", "doXIncludeXMLFileDOM/" + label, bool(good) and not bad,
               "%d nested parse call(s) dominated by the %s guard reporting %s" % (len(res), label, code) if good and not bad else
               ("the %s guard (%s) is missing" % (label, code) if not good else "nested parse at line %s is reachable without the %s guard" % (bad, label)),
               "%s" % cfg.file)

    rep.rule("C20.b", "inclusion-history pairing: in every function that calls addDocumentURIToCurrentInclusionHistoryStack each "
             "normal path from the push to the function exit passes popFromCurrentInclusionHistoryStack, and the recursive "
             "processing of the included children is reachable from the push (the included document is 'in progress' while "
             "its content is processed)")
    n = 0
    for q, raws in sorted(g.cfgs.items()):
        for raw in raws:
            c2 = guard.Cfg(raw)
            if q.endswith("::addDocumentURIToCurrentInclusionHistoryStack"):
                continue
            pushes = [(b, i, el) for b, i, el in c2.elements() if _calls(el, "addDocumentURIToCurrentInclusionHistoryStack")]
            if not pushes:
                continue
            n += 1
            res = guard.must_follow(c2, lambda el: _calls(el, "addDocumentURIToCurrentInclusionHistoryStack"),
                                    lambda el: _calls(el, "popFromCurrentInclusionHistoryStack"))
            bad = [el.get("l") for b, i, el, ok in res if not ok]
            rep.ob("C20.b/pair", q, not bad, "%d push(es), each popped on every normal path" % len(res) if not bad else
                   "%s pushes onto the inclusion history at line %s but can return without popping: later includes of that file are "
                   "reported as circular (or the enclosing file is popped too early)" % (q, bad), "%s:%s" % (c2.file, bad[0] if bad else pushes[0][2].get("l")))
            # and the other way round: nothing is popped that this function did not push
            res2 = guard.must_precede(c2, lambda el: _calls(el, "addDocumentURIToCurrentInclusionHistoryStack"),
                                      lambda el: _calls(el, "popFromCurrentInclusionHistoryStack"))
            bad2 = [el.get("l") for b, i, el, ok in res2 if not ok]
            rep.ob("C20.b/unpaired-pop", q, not bad2, "%d pop(s), each behind a push on every path" % len(res2) if not bad2 else
                   "%s pops the inclusion history at line %s on a path on which it pushed nothing (a text inclusion, a failed include): "
                   "the entry of an enclosing document still being processed is removed, and a loop through it is no longer detected" % (q, bad2),
                   "%s:%s" % (c2.file, bad2[0] if bad2 else pushes[0][2].get("l")))
            # recursion between push and pop
            reach = set()
            for b, i, el in pushes:
                seen, work = set(), [b]
                while work:
                    x = work.pop()
                    if x in seen:
                        continue
                    seen.add(x)
                    work.extend(c2.succs(x))
                reach |= seen
            rec = any(_calls(el, "parseDOMNodeDoingXInclude") for b, i, el in c2.elements() if b in reach)
            rep.ob("C20.b/recursion", q, rec, "included children are processed after the push" if rec else
                   "%s pushes the included document but processes its children elsewhere" % q, c2.file)
    rep.floor("C20.b/pair", n, 1)

    rep.rule("C20.f", "placement before recursion: in doDOMNodeXInclude the imported content is spliced into the including "
             "document (replaceChild) on every path before it is processed for nested inclusions, so that relative references "
             "inside it resolve against its final position (xml:base of a detached fragment is null)")
    c4 = guard.Cfg(g.cfg("XIncludeUtils::doDOMNodeXInclude"))
    res = guard.must_precede(c4, lambda el: _calls(el, "replaceChild"), lambda el: _calls(el, "parseDOMNodeDoingXInclude"))
    if len(res) < 2:
        raise AnalysisBroken("doDOMNodeXInclude no longer recurses into the included content")
    bad = [el.get("l") for b, i, el, ok in res if not ok]
    rep.ob("C20.f", "doDOMNodeXInclude", not bad, "%d recursive processing sites, each after the content was placed" % len(res) if not bad else
           "nested XInclude processing at line %s runs before the content is spliced into the document" % bad, c4.file)

    rep.rule("C20.g", "every imported node is processed: in doDOMNodeXInclude each node appended to the replacement fragment "
             "(frag->appendChild) is, on every normal path onwards, queued for nested-inclusion processing "
             "(delayedProcessing.addElement) — an imported node that is left out keeps its own xi:include elements unexpanded")
    isapp = lambda el: any(x[0] == "c" and x[1].split("::")[-1] == "appendChild" and x[2] and x[2][0] == "l" and x[2][1] == "frag"
                           for x in guard.el_top_calls(el))
    isq = lambda el: any(x[0] == "c" and x[1].split("::")[-1] == "addElement" and x[2] and x[2][0] == "l" and x[2][1] == "delayedProcessing"
                         for x in guard.el_top_calls(el))
    res = guard.must_follow(c4, isapp, isq)
    if len(res) < 2:
        raise AnalysisBroken("doDOMNodeXInclude: fewer than two frag->appendChild sites (fallback content, included content)")
    for b, i, el, ok in res:
        rep.ob("C20.g", "doDOMNodeXInclude@appendChild:%d" % (1 + [r[2].get("l") for r in res].index(el.get("l"))), ok,
               "queued for nested processing on every path" if ok else
               "the node appended to the fragment at line %s is not queued for nested-inclusion processing on some path: xi:include "
               "elements inside (or at the top of) that imported node stay unexpanded" % el.get("l"), "%s:%s" % (c4.file, el.get("l")))

    rep.rule("C20.d", "feature gate: in AbstractDOMParser every use of XIncludeUtils / DOMDocument XInclude processing is "
             "unreachable (CFG) when fDoXInclude is false")
    k = 0
    for q in ("AbstractDOMParser::parse", "AbstractDOMParser::endElement", "AbstractDOMParser::parseFirst"):
        for raw in g.cfgs.get(q, []):
            c3 = guard.Cfg(raw)

            def is_xi(x):
                return (x[0] == "c" and (x[1].startswith("XIncludeUtils::") and x[1].split("::")[-1] in ("parseDOMNodeDoingXInclude",) or
                                         x[1].split("::")[-1] in ("doDOMNodeXInclude",))) or (x[0] == "k" and x[1].endswith("XIncludeUtils"))
            ss = guard.sites(c3, is_xi)
            if not ss:
                continue
            k += 1
            live = guard.reachable_sites(c3, is_xi, lambda leaf: False if (leaf[0] == "f" and leaf[1].endswith("::fDoXInclude")) else None)
            rep.ob("C20.d", q + raw["sig"], not live, "%d XInclude processing site(s), none reachable with the feature off" % len(ss) if not live else
                   "XInclude processing at line %s is reachable although doXInclude is off" % [el.get("l") for _, _, el in live],
                   "%s:%s" % (c3.file, ss[0][2].get("l")))
    rep.floor("C20.d", k, 1)

    C04.readbytes_rule(rep, "C20.e", lambda fn: fn.get("cls") == "XIncludeUtils")
    cursor_rule(rep)
    diag.run(rep, f, "C20")
    rep.undecided += ["equality of the merged tree with the XInclude specification's result; xml:base fix-up values",
                      "xi:include targets are fetched by default resolution even when default entity resolution is disabled (remark)"]
    return ("Static: CFG dominance of the two loop guards over the nested parse, must-follow pairing of the inclusion-history "
            "push/pop, feature gate reachability, carried-byte accounting in the text inclusion, XInclude diagnostics matrix. "
            "Decides these necessary conditions, not the merged tree.")
