"""C10 — identity constraints (unique, key, keyref) are enforced in the value space.

C10.a  protocol completeness in the two schema-aware scanners: an identity-constraint scope activated at element
       start is deactivated on both element-end paths (empty-element shortcut and end tag) under the same conditions;
       the handler is reset for every parse
C10.b  identity-constraint diagnostics (DIAG) and XPath/IC dispatch (DISPATCH)
"""
import os
import re

from .. import core
from ..core import AnalysisBroken
from ..engines import diag, dispatch, guard


def _assume(leaf):
    if leaf[0] == "l" and leaf[1] == "isEmpty":
        return True
    if leaf[0] == "f" and leaf[1].endswith("::fValidate"):
        return True
    if leaf[0] == "c" and leaf[1].split("::")[-1] == "toCheckIdentityConstraint":
        return True
    if leaf[0] == "b" and leaf[1] == "==" and leaf[2][0] == "f" and leaf[2][1].endswith("::fGrammarType") and leaf[3][0] == "e" and leaf[3][1].endswith("SchemaGrammarType"):
        return True
    if leaf[0] == "f" and leaf[1].endswith("::fGrammar"):
        return True
    return None


def _calls(el, name):
    return any(x[0] == "c" and x[1] == "IdentityConstraintHandler::" + name for x in guard.el_top_calls(el))


def protocol_rule(rep, f):
    rep.rule("C10.a", "identity-constraint protocol (CFG of the start-tag and end-tag functions of IGXMLScanner and SGXMLScanner, "
             "assuming schema validation with identity-constraint checking on): on the empty-element path every normal path from "
             "activateIdentityConstraint to the function exit passes deactivateContext; scanEndTag passes deactivateContext on "
             "every normal path; scanReset resets the handler — key tables are transplanted and keyrefs resolved only in "
             "deactivateContext, so a missed call leaves constraints unchecked")
    start = {"IGXMLScanner": "scanStartTagNS", "SGXMLScanner": "scanStartTag"}
    tus, names = set(), []
    for S, fn_ in start.items():
        for nm in (fn_, "scanEndTag"):
            q = "%s::%s" % (S, nm)
            fns = f.fns_named(q)
            if not fns:
                raise AnalysisBroken("anchor %s vanished" % q)
            names.append(q)
            tus.add(os.path.join(core.REPO, fns[0]["file"]))
    g = core.run_xa(sorted(tus), cfg="^(" + "|".join(re.escape(q) for q in names) + ")$", flat=False)
    for S, fn_ in start.items():
        q = "%s::%s" % (S, fn_)
        cfg = guard.pruned(guard.Cfg(g.cfg(q)), _assume)
        res = guard.must_follow(cfg, lambda el: _calls(el, "activateIdentityConstraint"), lambda el: _calls(el, "deactivateContext"))
        if not res:
            raise AnalysisBroken("%s no longer activates identity constraints" % q)
        bad = [el.get("l") for b, i, el, ok in res if not ok]
        rep.ob("C10.a", q + "/empty-element", not bad, "activation is always followed by deactivateContext on the empty-element path" if not bad else
               "%s: an empty element activates identity constraints (line %s) but can finish without deactivateContext: duplicate keys and "
               "dangling keyrefs on empty elements go unreported" % (q, bad), cfg.file)
        q2 = "%s::scanEndTag" % S
        cfg2 = guard.pruned(guard.Cfg(g.cfg(q2)), _assume)
        from .C18 import _guaranteed
        # the deactivation happens after the end tag was matched; paths that report a fatal structural error first may leave early
        INb = _guaranteed(cfg2, lambda el: _calls(el, "deactivateContext"))
        # require: every path that reaches the end-element notification passes deactivateContext
        res2 = guard.must_precede(cfg2, lambda el: _calls(el, "deactivateContext"),
                                  lambda el: any(x[0] == "c" and x[1] == "XMLDocumentHandler::endElement" for x in guard.el_top_calls(el)))
        bad2 = [el.get("l") for b, i, el, ok in res2 if not ok]
        rep.ob("C10.a", q2, bool(res2) and not bad2, "deactivateContext precedes every end-element notification" if res2 and not bad2 else
               "%s can deliver endElement (line %s) without having called deactivateContext" % (q2, bad2), cfg2.file)
        rs = f.fns_named("%s::scanReset" % S)
        ok = any(x["k"] == "call" and x["x"][1] == "IdentityConstraintHandler::reset" for fn in rs for x in fn["_facts"])
        rep.ob("C10.a", "%s::scanReset" % S, ok, "resets the identity-constraint handler" if ok else
               "%s::scanReset no longer resets the identity-constraint handler: value stores of the previous document survive" % S, rs[0]["file"] if rs else "")
    # the matcher callbacks for character data are present in both scanners
    for S in start:
        n = 0
        for q, fns in f.by_q.items():
            for fn in fns:
                if fn.get("cls") == S and any(x["k"] == "call" and x["x"][1] == "IdentityConstraintHandler::getMatcherCount" for x in fn["_facts"]):
                    n += 1
        rep.ob("C10.a", "%s/matcher-sites" % S, n >= 2, "%d functions feed character data to the field matchers" % n if n >= 2 else
               "%s feeds character data to the identity-constraint matchers in only %d functions (confirmed: scanCharData/sendCharData and scanCDSection)" % (S, n),
               "class " + S)


def hash_root_rule(rep, f):
    rep.rule("C10.c", "hash agrees with equality: ICValueHasher::isDuplicateOf compares two field values through a common ancestor "
             "type, so tuples of differently derived types can be equal; ICValueHasher::getHashVal must therefore hash the "
             "canonical form under the *root* of the type's derivation chain — on every path to the getCanonicalRepresentation "
             "call the validator variable has last been through the exit test `!dv->getBaseValidator()` (CFG must-dataflow: "
             "generated by the false edge of that test, killed by assignment). Equal tuples with different hashes land in "
             "different buckets and a duplicate key / missing keyref goes unreported")
    tu = os.path.join(core.REPO, "src/xercesc/validators/schema/identity/ValueStore.cpp")
    g = core.run_xa([tu], cfg=r"^ICValueHasher::getHashVal$", flat=False)
    cfg = guard.Cfg(g.cfg("ICValueHasher::getHashVal"))
    canon = guard.sites(cfg, lambda x: x[0] == "c" and x[1].endswith("::getCanonicalRepresentation") and x[2] and x[2][0] == "l")
    rep.floor("C10.c", len(canon), 1)
    for bid, i, el in canon:
        V = el["x"][2]

        def gen_edge(p, k, V=V):
            t = cfg.blocks[p].get("term")
            c = t and t.get("cond")
            if not c or k != 1:
                return False
            # `dv` itself false: the variable is null, the canonical form is not computed through it at all
            return c == V or (c[0] == "c" and c[1] == "DatatypeValidator::getBaseValidator" and c[2] == V)

        def kill(e, V=V):
            x = e.get("x")
            if x and x[0] == "b" and x[1] == "=" and x[2] == V:
                return True
            return any(d[0] == V[1] for d in e.get("decl", []))
        st = guard.must_state(cfg, gen_edge=gen_edge, kill_el=kill)
        ok = st(bid, i)
        rep.ob("C10.c", "ICValueHasher::getHashVal@canon", ok,
               "the hashed canonical form is computed by the root of the derivation chain" if ok else
               "ICValueHasher::getHashVal (line %s): a path reaches %s->getCanonicalRepresentation without %s having been walked up to "
               "the root type (no `getBaseValidator() == 0` exit test since its last assignment): values that isDuplicateOf treats as "
               "equal through a common ancestor hash differently" % (el.get("l"), V[1], V[1]),
               "src/xercesc/validators/schema/identity/ValueStore.cpp:%s" % el.get("l", 0))


CONTEXT_OMITTERS = {
    "DOMXPathExpressionImpl::evaluate": "DOM XPath evaluation over a tree: there is no validation in progress, hence no validation context",
    "DOMXPathExpressionImpl::testNode": "same",
}


def context_rule(rep, f):
    rep.rule("C10.d", "the validation context reaches the field matchers: every call in the library of a function with a defaulted "
             "`ValidationContext* = 0` parameter (XPathMatcher::startElement / endElement and their overriders) passes the context "
             "explicitly, except from the DOM XPath evaluator which has none — without it a QName-typed field value is compared "
             "with an empty namespace ({}local instead of {uri}local), so equal-looking prefixed keys of different namespaces "
             "collide and different prefixes for one namespace do not match")
    n = 0
    for x in f.kind("call"):
        cx = x["x"]
        sig = cx[4] if len(cx) > 4 and isinstance(cx[4], str) else ""
        if "ValidationContext" not in sig:
            continue
        ps = sig.strip("()").split(",")
        for i, prm in enumerate(ps):
            if "ValidationContext" in prm and i < len(cx[3]):
                n += 1
                a = cx[3][i]
                q = x["_fn"]["q"]
                if a[0] == "def" and q not in CONTEXT_OMITTERS:
                    rep.ob("C10.d", "%s@%s" % (q, cx[1].split("::")[-1]), False,
                           "%s (line %s) calls %s without the validation context (the defaulted null is used)" % (q, x.get("l"), cx[1]),
                           "%s:%s" % (x["_fn"]["file"], x.get("l", 0)))
    rep.floor("C10.d", n, 20)
    rep.ob("C10.d", "context-passing", True, "%d call sites pass their ValidationContext parameter (DOM XPath evaluator exempt)" % n, "")


def store_reset_rule(rep, f):
    rep.rule("C10.e", "identity-constraint state does not outlive a document: every container member of ValueStoreCache that some "
             "method fills (put / addElement / push) is emptied by ValueStoreCache::startDocument (removeAll / removeAllElements) — "
             "value stores kept from an earlier document carry that document's keys and its error-reporting mode into the next")
    cls = "ValueStoreCache"
    filled, cleared = {}, set()
    for x in f.kind("fld"):
        fn = x["_fn"]
        if fn.get("cls") != cls or not x["f"].startswith(cls + "::"):
            continue
        how = x["how"]
        if how.startswith("call:") and how[5:] in ("put", "addElement", "push", "setElementAt"):
            filled.setdefault(x["f"], (fn["q"], x.get("l", 0)))
        if fn["q"] == cls + "::startDocument" and how in ("call:removeAll", "call:removeAllElements", "call:reset", "write"):
            cleared.add(x["f"])
    if len(filled) < 3:
        raise AnalysisBroken("C10.e: fewer than 3 filled containers in ValueStoreCache (%s)" % sorted(filled))
    for fld, (q, l) in sorted(filled.items()):
        ok = fld in cleared
        rep.ob("C10.e", fld, ok, "emptied at the start of every document" if ok else
               "%s is filled by %s (line %s) but ValueStoreCache::startDocument does not empty it: its content survives into the next "
               "document validated by the same parser" % (fld, q, l), "src/xercesc/validators/schema/identity/ValueStoreCache.cpp:%s" % l)


def field_content_rule(rep):
    rep.rule("C10.f", "the value an identity-constraint field sees is the character data the document delivers: in sendCharData and "
             "scanCDSection of the two schema-aware scanners, with schema validation and identity-constraint checking on (CFG pruned "
             "under those assumptions), every docCharacters call is preceded on every path by the append of that chunk to fContent, "
             "the buffer the field matchers read at the end tag — a chunk that is delivered but not appended (white space between two "
             "comments, a blank value) changes which tuples count as equal")
    sites = [("IGXMLScanner::sendCharData", "src/xercesc/internal/IGXMLScanner2.cpp"), ("IGXMLScanner::scanCDSection", "src/xercesc/internal/IGXMLScanner2.cpp"),
             ("SGXMLScanner::sendCharData", "src/xercesc/internal/SGXMLScanner.cpp"), ("SGXMLScanner::scanCDSection", "src/xercesc/internal/SGXMLScanner.cpp")]
    g = core.run_xa(sorted({os.path.join(core.REPO, fl) for _, fl in sites}), cfg="^(" + "|".join(re.escape(q) for q, _ in sites) + ")$", flat=False)

    def assume(leaf):
        if leaf[0] == "c" and leaf[1].split("::")[-1] in ("toCheckIdentityConstraint", "getMatcherCount"):
            return True
        if leaf[0] == "b" and leaf[1] in ("==", "!=") and leaf[2][0] == "f" and leaf[2][1].endswith("::fGrammarType") and leaf[3][0] == "e" \
                and leaf[3][1].endswith("SchemaGrammarType"):
            return leaf[1] == "=="
        if leaf[0] == "f" and leaf[1].endswith("::fValidate"):
            return True
        return None
    n = 0
    for q, fl in sites:
        cfg = guard.pruned(guard.Cfg(g.cfg(q)), assume)
        rb = guard.reachable(cfg)

        def isa(el):
            return any(c[0] == "c" and c[1].split("::")[-1] == "append" and c[2] and c[2][0] == "f" and c[2][1].endswith("::fContent")
                       for c in guard.el_top_calls(el))

        def isb(el):
            return any(c[0] == "c" and c[1].split("::")[-1] == "docCharacters" for c in guard.el_top_calls(el))
        for b, i, el, ok in guard.must_precede(cfg, isa, isb):
            if b not in rb:
                continue
            n += 1
            rep.ob("C10.f", "%s@docCharacters:%s" % (q, el.get("l")), ok, "chunk appended to the field content first" if ok else
                   "%s (line %s) delivers character data to the document handler on a path on which it was not appended to fContent: the "
                   "identity-constraint fields of the element do not see this chunk" % (q, el.get("l")), "%s:%s" % (fl, el.get("l", 0)))
    rep.floor("C10.f", n, 8)


def step_equality_rule(rep):
    from ..engines import advance
    rep.rule("C10.g", "two XPath steps are equal only if their name tests are: XercesStep::operator== interpreted for every axis "
             "type with both operands on the same axis — for the axes that carry a name test in selectors and fields (child, "
             "attribute) the result is the comparison of the node tests; steps that only differ in the name they test (`@id` vs "
             "`@ref`) must not be merged, or a field matches the wrong attribute")
    g = core.run_xa([os.path.join(core.REPO, "src/xercesc/validators/schema/identity/XercesXPath.cpp")], st=r"^XercesStep::operator==$", flat=False)
    body = g.st("XercesStep::operator==")["body"]
    en = g.enums.get("XercesStep::AxisType")
    if not en:
        raise AnalysisBroken("enum XercesStep::AxisType not found")
    vals = {n_: v for n_, v in en["items"]}
    need = {"AxisType_CHILD", "AxisType_ATTRIBUTE"}
    if not need <= set(vals):
        raise AnalysisBroken("XercesStep::AxisType lost CHILD / ATTRIBUTE")
    n = 0
    for name, a in sorted(vals.items()):
        if name.endswith("UNKNOWN"):
            continue
        for nt_equal in (0, 1):
            consulted = []

            def hook(x, st, it, nt_equal=nt_equal, consulted=consulted):
                if x[1].startswith("XercesNodeTest::operator"):
                    consulted.append(1)
                    return nt_equal if x[1].endswith("==") else 1 - nt_equal
                return NotImplemented

            class I2(advance.Interp):
                def ev(self, x, st):
                    if x and x[0] == "f" and x[1] == "XercesStep::fAxisType":
                        return a                      # both operands on the same axis
                    if x and x[0] == "b" and x[1] == "==" and x[2] == ["this"]:
                        return 0                      # two distinct step objects
                    return advance.Interp.ev(self, x, st)
            it = I2(call_hook=hook)
            outs = set()
            for kind, s2 in it.run(body, advance.State({})):
                outs.add(s2.v.get("__ret"))
            want = nt_equal if name in need else 1
            n += 1
            ok = outs == {want}
            rep.ob("C10.g", "%s/nodetest-%s" % (name, "equal" if nt_equal else "different"), ok, "== gives %s" % want if ok else
                   "XercesStep::operator== for two %s steps whose node tests are %s returns %s; expected %s — steps on that axis that test "
                   "different names are treated as the same step" % (name, "equal" if nt_equal else "different", sorted(outs, key=str), want),
                   "src/xercesc/validators/schema/identity/XercesXPath.cpp")
    rep.floor("C10.g", n, 6)


def transplant_rule(rep, f):
    rep.rule("C10.h", "when a scope ends, its key/unique values are added to the store that keyref lookups see: in "
             "ValueStoreCache::transplant the store obtained from fGlobalICMap is the receiver of every ValueStore::append and the "
             "scope's own store (from fIC2ValueStoreMap) is its argument — appended the other way round, the values of the enclosing "
             "or earlier scope are written into a store nobody consults and a keyref to them is reported as unmatched")
    origin, n = {}, 0
    for x in f.kind("local"):
        if x["_fn"]["q"].endswith("ValueStoreCache::transplant") and x.get("init") and x["init"][0] == "c" and x["init"][2] and x["init"][2][0] == "f":
            origin[x["name"]] = x["init"][2][1].split("::")[-1]
    def src(e):
        if e and e[0] == "l":
            return origin.get(e[1], "?")
        if e and e[0] == "c" and e[2] and e[2][0] == "f":
            return e[2][1].split("::")[-1]
        return "?"
    for x in f.kind("call"):
        c = x["x"]
        if not x["_fn"]["q"].endswith("ValueStoreCache::transplant"):
            continue
        where = "%s:%s" % (x["_fn"]["file"], x.get("l", 0))
        if c[1] == "ValueStore::append":
            n += 1
            r, a = src(c[2]), src(c[3][0]) if c[3] else "?"
            ok = r == "fGlobalICMap" and a == "fIC2ValueStoreMap"
            rep.ob("C10.h", "transplant@append:%s" % x.get("l"), ok, "global store grows by the scope's store" if ok else
                   "ValueStoreCache::transplant appends the store from %s to the store from %s: the store registered in fGlobalICMap "
                   "does not receive the ending scope's values" % (a, r), where)
        elif c[1].endswith("::put") and src(c) == "fGlobalICMap":
            n += 1
            a = src(c[3][1]) if len(c[3]) > 1 else "?"
            rep.ob("C10.h", "transplant@put:%s" % x.get("l"), a == "fIC2ValueStoreMap", "first scope's store registered" if a == "fIC2ValueStoreMap" else
                   "ValueStoreCache::transplant registers a store from %s in fGlobalICMap, not the ending scope's store" % a, where)
    rep.floor("C10.h", n, 2)


def run(rep):
    f = core.library_facts()
    rep.units.update(os.path.relpath(t, core.REPO) for t in f.tus)
    protocol_rule(rep, f)
    hash_root_rule(rep, f)
    context_rule(rep, f)
    store_reset_rule(rep, f)
    field_content_rule(rep)
    step_equality_rule(rep)
    transplant_rule(rep, f)
    diag.run(rep, f, "C10")
    dispatch.run(rep, f, "C10")
    rep.undecided += ["value-space equality of field tuples (canonical forms, hashing)", "scoping results of key/keyref across nested scopes",
                      "independence of the verdict from document order and tuple count"]
    return ("Static: CFG must-follow/must-precede rules for the activate/deactivate protocol on both element-end paths of the two "
            "schema-aware scanners, handler reset, matcher call sites, identity-constraint diagnostics and XPath dispatch. Decides "
            "protocol completeness, not tuple equality.")
