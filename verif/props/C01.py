"""C01 — arbitrary input never causes memory errors, UB, hangs or foreign exceptions.

C01.a  bounded writes into fixed-size arrays through the library's bounded APIs
C01.b  stack-or-heap temporaries outside dom/impl (ARRAYS; dom/impl instances are C13.d)
C01.c  exception-type closure and containment of the internal exception types; error re-entry flag
C01.d  element-size agreement: memcpy/memmove/memset sizes and casted allocations use the element type
       of the buffer they fill
C01.e  no non-adopting push of a locally created entity declaration
C01.f  bounds-check diagnostics of the container classes (DIAG)
"""
import os
import re

from .. import core
from ..core import AnalysisBroken, sx_walk, sx_str
from ..engines import diag, guard, arrays
from .C13 import _exprs

BYTES = ("unsigned char", "char", "void", "signed char")


def elemsize_rule(rep, f):
    rep.rule("C01.d", "element-size agreement (type facts from the AST): in every memcpy/memmove/memset/memcmp whose size uses "
             "sizeof(T), T is the element type of the destination or source buffer (a pointer type for arrays of pointers, the "
             "array type itself for whole-array operations, the source type when copying into a byte buffer); in every "
             "`(U*) allocate(n * sizeof(T))` T equals U")
    n = 0
    for x in f.kind("memop"):
        if not x["sizeofs"]:
            continue
        n += 1
        dst, src = x["dst"], x.get("src")
        bad = []
        for t in x["sizeofs"]:
            ok = t == dst or (src is not None and t == src) or (t.endswith("*") and dst.endswith("*")) or "[" in t
            if not ok and dst in BYTES and src is not None and t == src:
                ok = True
            if not ok and dst in BYTES and src in BYTES + (None,):
                ok = True      # raw byte copy sized by the object it serialises
            if not ok:
                bad.append(t)
        fn = x["_fn"]
        rep.ob("C01.d/memop", "%s@%s:%d" % (fn["q"], x["fn"], n), not bad,
               "%s of %s elements sized by sizeof(%s)" % (x["fn"], dst, ",".join(x["sizeofs"])) if not bad else
               "%s (line %d): %s into a buffer of '%s' (source '%s') is sized with sizeof(%s) — wrong element size: part of the buffer stays "
               "uninitialised or the copy overruns" % (fn["q"], x["l"], x["fn"], dst, src, ",".join(bad)), "%s:%d" % (fn["file"], x["l"]))
    rep.floor("C01.d/memop", n, 80)
    k = 0
    for x in f.kind("alloccast"):
        if not x["sizeofs"]:
            continue
        k += 1
        to = x["to"]
        bad = [t for t in x["sizeofs"] if not (t == to or (t.endswith("*") and to.endswith("*")) or (to in BYTES and True))]
        fn = x["_fn"]
        rep.ob("C01.d/alloc", "%s@allocate:%d" % (fn["q"], k), not bad, "(%s*) allocate(.. * sizeof(%s))" % (to, ",".join(x["sizeofs"])) if not bad else
               "%s (line %d): allocation cast to %s* is sized with sizeof(%s)" % (fn["q"], x["l"], to, ",".join(bad)), "%s:%d" % (fn["file"], x["l"]))
    rep.floor("C01.d/alloc", k, 250)


# ------------------------------------------------------------------ C01.a
# callee simple name -> (dst arg index, bound arg index, extra elements written beyond the bound)
BOUNDED = {
    "binToText": (1, 2, 1), "sizeToText": (1, 2, 1), "loadMsg": (1, 2, 1), "copyNString": (0, 2, 1), "moveChars": (0, 2, 0),
    "transcode": (1, 2, 1),
}


def _cap_of(fn, f, x):
    """capacity (elements) if x denotes a fixed-size array (local or member), else None."""
    if isinstance(x, list) and x and x[0] == "l":
        for y in fn["_facts"]:
            if y["k"] == "local" and y["name"] == x[1] and y.get("cap"):
                return y["cap"], x[1]
    if isinstance(x, list) and x and x[0] == "f" and len(x) == 2:
        cls, name = x[1].rsplit("::", 1)
        c = f.classes.get(cls)
        if c:
            for fname, ftype in c["fields"]:
                if fname == name:
                    m = re.search(r"\[(\d+)\]$", ftype)
                    if m:
                        return int(m.group(1)), name
    return None


def _cval(fn, x, depth=0):
    """constant value of an expression: literals, sizeof, + - * /, const locals with constant initialisers."""
    if not isinstance(x, list) or not x:
        return None
    if x[0] == "i":
        return x[1]
    if x[0] == "cast":
        return _cval(fn, x[2], depth)
    if x[0] == "e":
        return x[2]
    if x[0] == "b" and x[1] in ("+", "-", "*", "/"):
        a, b = _cval(fn, x[2], depth), _cval(fn, x[3], depth)
        if a is None or b is None:
            return None
        return a + b if x[1] == "+" else a - b if x[1] == "-" else a * b if x[1] == "*" else (a // b if b else None)
    if x[0] == "l" and depth < 3:
        for y in fn["_facts"]:
            if y["k"] == "local" and y["name"] == x[1] and y["type"].startswith("const") and y.get("init") is not None:
                return _cval(fn, y["init"], depth + 1)
    if x[0] == "def":
        return _cval(fn, x[1], depth)
    return None


def _digits(ptype, radix):
    """characters needed to print any value of the parameter type in the radix (sign included)."""
    import math
    t = ptype.replace("const", "").strip()
    bits = {"unsigned int": 32, "int": 31, "unsigned long": 64, "long": 63, "XMLSize_t": 64, "XMLUInt64": 64, "unsigned long long": 64,
            "XMLUInt32": 32, "XMLInt32": 31, "XMLFileLoc": 64, "XMLInt64": 63, "long long": 63}.get(t)
    if bits is None or not radix or radix < 2:
        return None
    sign = 0 if t.startswith(("unsigned", "XMLSize_t", "XMLU", "XMLFileLoc")) else 1
    return int(math.ceil(bits / math.log2(radix))) + sign


ARRAY_EXEMPT = {
    ("XMLDateTime::validateDateTime", "szMaxDay"): "the operand is maxDayInMonthFor(..), a value in 28..31: two digits and the terminator fit the 3-element array although the stated bound is 3",
}


def arrays_rule(rep, f):
    rep.rule("C01.a", "bounded writes into fixed-size arrays: at every call of a length-bounded library routine (binToText, "
             "sizeToText, loadMsg, copyNString, moveChars, transcode into a caller buffer) whose destination is a fixed-size local "
             "or member array, the constant bound plus the terminator the routine appends does not exceed the array's capacity")
    n = 0
    und = 0
    for x in f.kind("call"):
        c = x["x"]
        short = c[1].split("::")[-1]
        if short not in BOUNDED:
            continue
        di, bi, extra = BOUNDED[short]
        args = c[3]
        if len(args) <= max(di, bi):
            continue
        fn = x["_fn"]
        dst = args[di]
        off = 0
        cap = _cap_of(fn, f, dst)
        if cap is None:
            continue
        bound = _cval(fn, args[bi])
        if bound is None:
            und += 1
            continue
        n += 1
        ok = bound + extra <= cap[0]
        if not ok and short in ("binToText", "sizeToText"):
            # the routine writes no more than the digits of its operand: bound looser than the capacity, safe by operand type
            need = _digits((c[4] or "").split(",")[0].strip("( "), _cval(fn, args[3]) if len(args) > 3 else 10)
            if need is not None and need + 1 <= cap[0]:
                rep.ob("C01.a", "%s@%s:%d" % (fn["q"], short, n), True,
                       "stated bound %d exceeds %s[%d], but the operand type needs at most %d characters + terminator" % (bound, cap[1], cap[0], need),
                       "%s:%d" % (fn["file"], x["l"]))
                continue
        if not ok and (fn["q"], cap[1]) in ARRAY_EXEMPT:
            rep.ob("C01.a", "%s@%s:%d" % (fn["q"], short, n), True, "exempt: " + ARRAY_EXEMPT[(fn["q"], cap[1])], "%s:%d" % (fn["file"], x["l"]))
            continue
        rep.ob("C01.a", "%s@%s:%d" % (fn["q"], short, n), ok,
               "%s writes at most %d+%d elements into %s[%d]" % (short, bound, extra, cap[1], cap[0]) if ok else
               "%s (line %d): %s may write %d+%d elements into %s[%d]" % (fn["q"], x["l"], short, bound, extra, cap[1], cap[0]),
               "%s:%d" % (fn["file"], x["l"]))
    rep.extra["array_sites_with_non_constant_bound"] = und
    rep.floor("C01.a", n, 100)


# ------------------------------------------------------------------ C01.c
DOCUMENTED = ("XMLException", "DOMException", "DOMRangeException", "DOMLSException", "DOMXPathException", "SAXException", "OutOfMemoryException")
INTERNAL = {"XMLErrs::Codes": "first-fatal unwinding from emitError, caught by the scanner entry points",
            "XMLValid::Codes": "first-fatal unwinding from the validator's emitError, caught by the scanner entry points",
            "EndOfEntityException": "end-of-entity signalling inside the scanners",
            "TraverseSchema::ExceptionCodes": "schema traversal recovery, caught inside TraverseSchema"}
ENTRY_NAMES = ("scanDocument", "scanFirst", "scanNext", "loadGrammar")
SCANNERS = ("IGXMLScanner", "DGXMLScanner", "SGXMLScanner", "WFXMLScanner", "XSAXMLScanner", "XMLScanner")


def throws_rule(rep, f):
    rep.rule("C01.c", "exception-type closure: the static type of every throw operand in the library derives from a documented "
             "family (XMLException, DOMException and its siblings, SAXException, OutOfMemoryException) or is a rethrow; the "
             "four internal types are contained — every scanner entry point that scans inside a try has handlers for "
             "XMLErrs::Codes and XMLValid::Codes, every function that enables end-of-entity exceptions is called inside a try "
             "with an EndOfEntityException handler, TraverseSchema's codes are thrown only inside TraverseSchema — and every "
             "XMLException handler of an entry point sets fInException before it re-reports (otherwise the report itself "
             "escapes as a raw XMLErrs::Codes value)")
    n = 0
    types = {}
    for x in f.kind("throw"):
        t = x["x"][2]
        types.setdefault(t, []).append(x)
    for t, xs in sorted(types.items()):
        n += len(xs)
        if t == "<rethrow>":
            continue
        ok = any(f.is_derived(t, d) for d in DOCUMENTED) or t in DOCUMENTED
        if not ok and t in INTERNAL:
            if t == "TraverseSchema::ExceptionCodes":
                out = [x for x in xs if x["_fn"].get("cls") != "TraverseSchema"]
                rep.ob("C01.c/type", t, not out, "internal: %s (%d throws, all inside TraverseSchema)" % (INTERNAL[t], len(xs)) if not out else
                       "%s thrown outside TraverseSchema in %s" % (t, out[0]["_fn"]["q"]), "%s:%d" % (xs[0]["_fn"]["file"], xs[0]["l"]))
            else:
                rep.ob("C01.c/type", t, True, "internal: %s (%d throws)" % (INTERNAL[t], len(xs)), "%s:%d" % (xs[0]["_fn"]["file"], xs[0]["l"]))
            continue
        rep.ob("C01.c/type", t, ok, "%d throws, documented family" % len(xs) if ok else
               "%s (line %d) throws a value of type '%s', which is neither a documented Xerces exception type nor a contained internal one" % (
                   xs[0]["_fn"]["q"], xs[0]["l"], t), "%s:%d" % (xs[0]["_fn"]["file"], xs[0]["l"]))
    rep.count(n)
    rep.floor("C01.c/type", len(types), 25)
    # entry points: Codes handlers
    k = 0
    entry_fns = []
    for S in SCANNERS:
        for nm in ENTRY_NAMES:
            for fn in f.fns_named("%s::%s" % (S, nm)):
                tries = [x for x in fn["_facts"] if x["k"] == "try"]
                if not tries:
                    continue
                if "InputSource" not in fn["sig"] and nm != "scanNext":
                    continue       # convenience overloads: build the input source and delegate
                entry_fns.append(fn)
                k += 1
                hs = set(h for t in tries for h in t["h"])
                ok = "XMLErrs::Codes" in hs and "XMLValid::Codes" in hs
                rep.ob("C01.c/contain", fn["q"] + fn["sig"], ok, "catches XMLErrs::Codes and XMLValid::Codes" if ok else
                       "%s scans inside a try that does not catch %s: the first-fatal unwinding value escapes to the application" % (
                           fn["q"], sorted({"XMLErrs::Codes", "XMLValid::Codes"} - hs)), "%s:%d" % (fn["file"], fn["line"]))
    rep.floor("C01.c/contain", k, 12)
    # end-of-entity containment
    enabling = {}
    for x in f.kind("local"):
        if "ThrowEOEJanitor" in x["type"] and x.get("init") and x["init"][0] == "k" and len(x["init"][2]) >= 2 and x["init"][2][1] == ["i", 1]:
            fn = x["_fn"]
            covered = any(t["from"] <= x["l"] <= t["to"] and "EndOfEntityException" in t["h"] for t in fn["_facts"] if t["k"] == "try")
            if not covered:
                enabling[fn["q"]] = x
    if len(enabling) < 4:
        raise AnalysisBroken("only %d end-of-entity enabling sites found" % len(enabling))
    T = dict((q, 0) for q in enabling)
    work = list(enabling)
    while work:
        q = work.pop()
        for x in f.kind("call"):
            if x["x"][1] != q or x["x"][2] not in (None, ["this"]):
                continue
            fn = x["_fn"]
            covered = any(t["from"] <= x["l"] <= t["to"] and "EndOfEntityException" in t["h"] for t in fn["_facts"] if t["k"] == "try")
            key = "%s->%s" % (fn["q"], q.split("::")[-1])
            if covered:
                rep.ob("C01.c/eoe", key, True, "called inside a try with an EndOfEntityException handler", "%s:%d" % (fn["file"], x["l"]))
            elif T[q] < 2 and fn["q"] not in T:
                T[fn["q"]] = T[q] + 1
                work.append(fn["q"])
            elif fn["q"] not in T:
                rep.ob("C01.c/eoe", key, False, "%s calls %s (which enables end-of-entity exceptions) outside any EndOfEntityException handler" % (fn["q"], q),
                       "%s:%d" % (fn["file"], x["l"]))
    # fInException in XMLException handlers of the entry points
    names = sorted(set(fn["q"] for fn in entry_fns))
    tus = sorted(set(os.path.join(core.REPO, fn["file"]) for fn in entry_fns if fn["file"].endswith(".cpp")))
    g = core.run_xa(tus, st="^(" + "|".join(re.escape(q) for q in names) + ")$", flat=False)
    m = 0

    def handlers(s):
        if not isinstance(s, list) or not s:
            return
        if s[0] == "try":
            for h in s[2]:
                yield h
        for y in s[1:]:
            if isinstance(y, list):
                if y and isinstance(y[0], list):
                    for z in y:
                        for h in handlers(z):
                            yield h
                else:
                    for h in handlers(y):
                        yield h
    for q in names:
        for s in g.sts.get(q, []):
            for htype, hbody in handlers(s["body"]):
                if htype != "XMLException":
                    continue
                stmts = hbody[1] if hbody and hbody[0] == "block" else [hbody]
                emits = [i for i, st in enumerate(stmts) if any(guard.mentions(e, lambda y: y[0] == "c" and y[1].split("::")[-1] == "emitError") for e in _exprs(st))]
                if not emits:
                    continue
                sets = [i for i, st in enumerate(stmts) if any(e and e[0] == "b" and e[1] == "=" and e[2] == ["f", "XMLScanner::fInException"] and e[3] == ["i", 1]
                                                               for e in _exprs(st))]
                m += 1
                ok = bool(sets) and min(sets) < min(emits)
                rep.ob("C01.c/reentry", "%s@catch(XMLException)#%d" % (q, m), ok,
                       "sets fInException before re-reporting" if ok else
                       "%s re-reports a caught XMLException through emitError without setting fInException first: emitError then throws the "
                       "raw XMLErrs::Codes value out of the handler, past the application's expectations" % q, "%s:%d" % (s["file"], s["line"]))
    rep.floor("C01.c/reentry", m, 10)


def adoption_rule(rep, f):
    rep.rule("C01.e", "entity lifetime: no ReaderMgr::pushReader call passes an entity declaration that the same function created with "
             "`new` (such a declaration must be handed over with pushReaderAdoptEntity, or the reader outlives it)")
    n = 0
    for x in f.kind("call"):
        c = x["x"]
        if c[1] != "ReaderMgr::pushReader" or len(c[3]) < 2:
            continue
        n += 1
        ent = c[3][1]
        fn = x["_fn"]
        bad = False
        if ent[0] == "l":
            for y in fn["_facts"]:
                if y["k"] == "local" and y["name"] == ent[1] and y.get("init") and y["init"][0] == "n":
                    bad = True
                if y["k"] == "asg" and y["lhs"] == ent and y["rhs"] and y["rhs"][0] == "n":
                    bad = True
        rep.ob("C01.e", "%s@pushReader:%d" % (fn["q"], n), not bad, "entity argument %s is not a locally created object" % sx_str(ent) if not bad else
               "%s pushes the locally created declaration '%s' without adoption: use-after-free when the function's owner releases it" % (fn["q"], ent[1]),
               "%s:%d" % (fn["file"], x["l"]))
    rep.floor("C01.e", n, 10)


def recovery_progress_rule(rep):
    from ..engines import guard
    rep.rule("C01.h", "error recovery in the DTD subset loops makes progress: the main loops of DTDScanner::scanExtSubsetDecl and "
             "scanInternalSubset look at the next character with peekNextChar and, when nothing recognises it, re-synchronise with "
             "skipUntilIn / skipUntilInOrWS, which stop *at* `%`, `]` or `<` without consuming them; on every path from the peek to "
             "that re-synchronisation a consuming reader call (getNextChar, skipped*, getName ...) must have taken the offending "
             "character (CFG must-dataflow, killed by the next peek) — otherwise a stray `]` with continue-after-fatal-error makes "
             "the parser report the same error forever")
    g = core.run_xa([os.path.join(core.REPO, "src/xercesc/validators/DTD/DTDScanner.cpp")],
                    cfg=r"^DTDScanner::(scanExtSubsetDecl|scanInternalSubset)$", flat=False)
    CONS = ("getNextChar", "getNextCharIfNot", "skippedChar", "skippedString", "skippedSpace", "skipPastChar", "skipPastSpaces",
            "skipQuotedString", "getName", "getNCName", "getNameToken")
    n = 0
    for q in ("DTDScanner::scanExtSubsetDecl", "DTDScanner::scanInternalSubset"):
        for raw in g.cfgs.get(q, []):
            cfg = guard.Cfg(raw)

            def named(el, names):
                return any(c[0] == "c" and c[1].split("::")[-1] in names for c in guard.el_top_calls(el))
            st = guard.must_state(cfg, gen_el=lambda el: named(el, CONS), kill_el=lambda el: named(el, ("peekNextChar",)))
            for b, i, el in cfg.elements():
                if named(el, ("skipUntilIn", "skipUntilInOrWS")):
                    n += 1
                    ok = st(b, i)
                    rep.ob("C01.h", "%s@resync:%s" % (q, n), ok, "the offending character is consumed before re-synchronising" if ok else
                           "%s (line %s) re-synchronises without having consumed the character it could not handle on some path: "
                           "skipUntilIn* stops at that same character again and the loop never advances" % (q, el.get("l")),
                           "src/xercesc/validators/DTD/DTDScanner.cpp:%s" % el.get("l", 0))
    rep.floor("C01.h", n, 2)


def run(rep):
    f = core.library_facts()
    rep.units.update(os.path.relpath(t, core.REPO) for t in f.tus)
    arrays_rule(rep, f)
    arrays.soh_rule(rep, f, "C01.b", lambda fn: True)
    throws_rule(rep, f)
    elemsize_rule(rep, f)
    adoption_rule(rep, f)
    from . import C20
    C20.cursor_rule(rep, "C01.f")
    from . import C15
    C15.pool_free_rule(rep, f, "C01.g")
    recovery_progress_rule(rep)
    diag.run(rep, f, "C01")
    rep.undecided += ["index arithmetic on input-derived values in the reader and the transcoders", "sufficiency of buffer growth steps",
                      "signed overflow and other undefined behaviour", "termination and the time bound under an entity-expansion limit",
                      "lifetimes beyond the adoption pattern of C01.e"]
    rep.notes.append("the look-ahead availability rule that found the stale-character defect in XMLReader::getName is registered under C04.a")
    return ("Static, closed world over the library: constant-bound writes into fixed arrays, stack-or-heap sizing, the set of "
            "throw operand types with containment of the internal ones and the re-entry flag in handlers, element-size agreement "
            "of memcpy-family calls and casted allocations from AST type facts, entity adoption, container bounds-check "
            "diagnostics. Decides these necessary conditions; value-dependent memory safety and termination are not decided.")
