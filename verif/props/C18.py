"""C18 — MemoryManager discipline and Initialize/Terminate lifecycle.

C18.a  Initialize/Terminate pairing: every initialize* has its terminate* in exactly reverse order; every static
       pointer created inside Initialize is released and nulled inside Terminate; the init counter brackets both;
       the process-wide setters release the previous value on every path
C18.b  same-manager pairing of local allocations and their releases; `new (M) T` released by plain delete only
       for XMemory-derived T
C18.c  diagnostics: none specific (memory discipline has no error codes) — covered by the rules above
"""
import os
import re

from .. import core
from ..core import AnalysisBroken, sx_walk, sx_str
from ..engines import guard
from . import C17

FACTORIES = ("allocate", "replicate", "makeTransService", "makeMutexMgr", "makeFileMgr", "makeNetAccessor", "loadMsgSet", "loadAMsgSet",
             "makeNewLCPTranscoder", "makeMutex", "transcode")
RELEASERS = ("deallocate", "closeMutex", "release")


def _strip(x):
    while isinstance(x, list) and x and x[0] == "cast":
        x = x[2]
    return x


def order_rule(rep, f):
    rep.rule("C18.a/order", "XMLInitializer::initializeStaticData calls every initialize* the class declares and "
             "terminateStaticData calls the matching terminate* functions in exactly the reverse order")
    ini = f.fn("XMLInitializer::initializeStaticData")
    ter = f.fn("XMLInitializer::terminateStaticData")
    a = [x["x"][1].split("::")[-1] for x in sorted((x for x in ini["_facts"] if x["k"] == "call" and x["x"][1].startswith("XMLInitializer::initialize")), key=lambda z: z["l"])]
    b = [x["x"][1].split("::")[-1] for x in sorted((x for x in ter["_facts"] if x["k"] == "call" and x["x"][1].startswith("XMLInitializer::terminate")), key=lambda z: z["l"])]
    declared = sorted(m[0] for m in f.classes["XMLInitializer"]["methods"] if m[0].startswith("initialize") and m[0] not in
                      ("initializeStaticData", "initializeTransService", "initializeDOMHeap"))
    if len(a) < 15:
        raise AnalysisBroken("initializeStaticData calls only %d initialisers" % len(a))
    rep.ob("C18.a/order", "all-initialised", sorted(a) == declared, "%d initialisers declared, all called" % len(declared) if sorted(a) == declared else
           "declared but not called: %s; called but not declared: %s" % (sorted(set(declared) - set(a)), sorted(set(a) - set(declared))),
           "%s:%d" % (ini["file"], ini["line"]))
    want = ["terminate" + n[len("initialize"):] for n in reversed(a)]
    ok = b == want
    firstdiff = next((i for i, (x, y) in enumerate(zip(b, want)) if x != y), None)
    rep.ob("C18.a/order", "reverse-order", ok, "%d terminators in exact reverse order of the initialisers" % len(b) if ok else
           ("terminateStaticData calls %s where the reverse of the initialisation order requires %s" % (b[firstdiff], want[firstdiff]) if firstdiff is not None
            else "terminators %s vs required %s" % (b, want)), "%s:%d" % (ter["file"], ter["line"]))
    for n in a:
        t = "XMLInitializer::terminate" + n[len("initialize"):]
        if t not in f.by_q:
            rep.ob("C18.a/order", n, False, "%s has no %s" % (n, t), ini["file"])


def statics_rule(rep, f, I):
    rep.rule("C18.a/statics", "every static pointer that a function of the Initialize tree assigns from an allocation or a factory is "
             "released (delete / deallocate / closeMutex) by a function of the Terminate side of that tree and reset to null there "
             "— so that a balanced Initialize/Terminate leaves nothing outstanding and a re-initialised library starts from the "
             "same state")
    ptrs = {q for q, g in f.gvars.items() if g["mut"] and g["type"].rstrip().endswith("*")}
    created = {}
    for x in f.kind("asg"):
        l = x["lhs"]
        if l[0] == "g" and l[1] in ptrs and x["_fn"]["q"] in I:
            r = _strip(x["rhs"])
            if r and (r[0] == "n" or (r[0] == "c" and r[1].split("::")[-1] in FACTORIES)):
                created.setdefault((l[1], x["_fn"]["file"]), []).append((x["_fn"]["q"], x["l"]))
    if len(created) < 25:
        raise AnalysisBroken("only %d statics created in the Initialize tree were recognised" % len(created))
    for (v, file), cs in sorted(created.items()):
        rel = [x for x in f.kind("delete") if x["_fn"]["file"] == file and x["_fn"]["q"] in I and any(s == ["g", v] for s in sx_walk(x["x"]))]
        rel += [x for x in f.kind("call") if x["_fn"]["file"] == file and x["_fn"]["q"] in I and x["x"][1].split("::")[-1] in RELEASERS and
                any(s == ["g", v] for a in x["x"][3] for s in sx_walk(a))]
        nul = [x for x in f.kind("asg") if x["_fn"]["file"] == file and x["_fn"]["q"] in I and x["lhs"] == ["g", v] and x["rhs"] == ["i", 0]]
        ok = bool(rel) and bool(nul)
        rep.ob("C18.a/statics", "%s@%s" % (v, os.path.basename(file)), ok,
               "created in %s, released in %s and reset to null" % (cs[0][0].split("::")[-1], rel[0]["_fn"]["q"].split("::")[-1]) if ok else
               ("%s is created in %s but never released inside the Terminate tree: it is still allocated after the last Terminate" % (v, cs[0][0]) if not rel else
                "%s is released in %s but not reset to null: a re-initialised library would see the dangling pointer" % (v, rel[0]["_fn"]["q"])),
               "%s:%d" % (file, cs[0][1]))


def counter_rule(rep, f):
    rep.rule("C18.a/counter", "XMLPlatformUtils::Initialize tests and increments the init counter before anything else and "
             "XMLPlatformUtils::Terminate tests and decrements it first (nested calls are counted, only the outermost pair does the work)")
    g = core.run_xa([os.path.join(core.REPO, "src/xercesc/util/PlatformUtils.cpp"), os.path.join(core.REPO, "src/xercesc/util/XMLMsgLoader.cpp")],
                    st=r"^XMLPlatformUtils::(Initialize|Terminate)$", cfg=r"^XMLMsgLoader::set(Locale|NLSHome)$", flat=False)
    for q, op in (("XMLPlatformUtils::Initialize", "++"), ("XMLPlatformUtils::Terminate", "--")):
        for s in g.sts.get(q, []):
            body = s["body"][1]
            first = [st for st in body if st and st[0] not in ("decl", "null")][:3]
            txt = " ".join(sx_str(e) for st in first for e in _stmt_exprs(st))
            ok = "gInitFlag" in txt and (op in txt or (op == "++" and "gInitFlag++" in txt) or (op == "--" and "gInitFlag--" in txt))
            if not ok and first and txt.startswith("Initialize("):
                ok = True      # overload that delegates to the counting overload before doing its own work
            # anything that touches other state must come after the counter test
            rep.ob("C18.a/counter", q + s["sig"], ok, "the first statements test and adjust gInitFlag" if ok else
                   "%s no longer starts by testing/adjusting the init counter: %s" % (q, txt[:120]), "%s:%d" % (s["file"], s["line"]))
    rep.rule("C18.a/setter", "XMLMsgLoader::setLocale / setNLSHome (run only inside Initialize/Terminate) release the previously stored "
             "string on every path on which one is stored — including the path that stores nothing new (Terminate passes null)")
    for q, var in (("XMLMsgLoader::setLocale", "XMLMsgLoader::fLocale"), ("XMLMsgLoader::setNLSHome", "XMLMsgLoader::fPath")):
        cfg = guard.Cfg(g.cfg(q))
        # assume a value is currently stored
        stored = guard.pruned(cfg, lambda leaf: True if leaf == ["g", var] else None)

        def is_rel(el, var=var):
            return any(x[0] == "c" and x[1].split("::")[-1] == "deallocate" and any(s == ["g", var] for a in x[3] for s in sx_walk(a))
                       for x in guard.el_top_calls(el))
        # every path entry -> exit passes the release: check with must_follow from a synthetic start (the entry block's first element)
        INb = _guaranteed(stored, is_rel)
        ok = INb.get(stored.entry, False)
        rep.ob("C18.a/setter", q, ok, "the stored value is released on every path" if ok else
               "%s can return without releasing the stored %s (e.g. when called with null from Terminate): one block stays allocated "
               "after Terminate and is later handed to a different memory manager" % (q, var.split("::")[-1]), cfg.file)


def _guaranteed(cfg, is_b):
    IN = {b: True for b in cfg.blocks}
    hasB = {bid: any(is_b(el) for el in blk["els"]) for bid, blk in cfg.blocks.items()}
    IN[cfg.exit] = False
    changed = True
    while changed:
        changed = False
        for bid in cfg.blocks:
            if bid == cfg.exit:
                continue
            if cfg.throws(bid):
                out = True
            else:
                ss = cfg.succs(bid)
                out = all(IN[s] for s in ss) if ss else True
            v = out or hasB[bid]
            if v != IN[bid]:
                IN[bid] = v
                changed = True
    return IN


def _stmt_exprs(st):
    from .C13 import _exprs
    return list(_exprs(st))


# ------------------------------------------------------------------ C18.b
def canon(m):
    m = _strip(m)
    if m is None:
        return "none"
    if m[0] == "def":
        return canon(m[1])
    if m[0] == "g":
        return "G:" + m[1].split("::")[-1]
    if m[0] == "f" and len(m) == 2:
        n = m[1].split("::")[-1]
        return "this.mm" if n in ("fMemoryManager", "fMemMgr", "fManager") else "this." + n
    if m[0] == "c" and m[1].split("::")[-1] == "getMemoryManager":
        r = m[2]
        if r is None or r == ["this"]:
            return "this.mm"
        return sx_str(r) + ".mm"
    if m[0] == "p":
        return "p:" + m[2]
    if m[0] == "l":
        return "l:" + m[1]
    return sx_str(m)


def alloc_of(rhs):
    r = _strip(rhs)
    if not isinstance(r, list) or not r:
        return None
    if r[0] == "c":
        nm = r[1].split("::")[-1]
        if nm == "allocate" and r[1].startswith("MemoryManager"):
            return ("raw", canon(r[2]), None)
        if nm in ("replicate", "transcode", "makeUName", "subString") and r[3] and r[1].startswith("XMLString"):
            return ("raw", canon(r[3][-1]), None)
    if r[0] == "n":
        pl = r[2]
        kind = "newarr" if (r[3] and r[3][0] == "arr") else "new"
        return (kind, canon(pl[0]) if pl else "plain", r[1])
    return None


def manager_rule(rep, f):
    rep.rule("C18.b", "same-manager pairing (per function, resolved calls): a local pointer that receives memory from manager "
             "expression M1 (M1->allocate, XMLString::replicate/transcode(.., M1), new (M1) T[n]) and is released in the same "
             "function (M2->deallocate(p), ArrayJanitor(p, M2), delete[]) is released with M2 structurally equal to M1; an object "
             "created with `new (M) T` may be released by plain delete / Janitor only if T derives from XMemory (whose operator "
             "delete finds the manager in the block header)")
    n = 0
    for q, fns in f.by_q.items():
        for fn in fns:
            allocs = {}
            for x in fn["_facts"]:
                if x["k"] == "local" and x.get("init") is not None:
                    a = alloc_of(x["init"])
                    if a:
                        allocs.setdefault(x["name"], []).append((a, x["l"]))
                if x["k"] == "asg" and x["lhs"][0] == "l":
                    a = alloc_of(x["rhs"])
                    if a:
                        allocs.setdefault(x["lhs"][1], []).append((a, x["l"]))
            if not allocs:
                continue
            for x in fn["_facts"]:
                rel = None
                if x["k"] == "call" and x["x"][1] == "MemoryManager::deallocate" and x["x"][3] and _strip(x["x"][3][0])[0] == "l":
                    rel = (_strip(x["x"][3][0])[1], canon(x["x"][2]), "deallocate")
                elif x["k"] == "ctor" and x["type"].startswith(("ArrayJanitor", "Janitor<")) and x["a"] and _strip(x["a"][0])[0] == "l":
                    rel = (_strip(x["a"][0])[1], canon(x["a"][1]) if len(x["a"]) > 1 else "plain", x["type"].split("<")[0])
                elif x["k"] == "delete" and _strip(x["x"][2])[0] == "l":
                    rel = (_strip(x["x"][2])[1], "plain", "delete[]" if x["x"][1] else "delete")
                if not rel or rel[0] not in allocs:
                    continue
                # the allocation in effect: the latest one above this line (or the first)
                cands = [a for a in allocs[rel[0]] if a[1] <= x["l"]] or allocs[rel[0]]
                ms = set(a[0][1] for a in cands)
                a = cands[-1][0]
                n += 1
                key = "%s/%s@%d" % (q, rel[0], n)
                where = "%s:%d" % (fn["file"], x["l"])
                if a[0] == "new" and rel[1] == "plain" and rel[2] in ("delete", "Janitor"):
                    t = (a[2] or "").split("<")[0]
                    ok = f.is_derived(t, "XMemory")
                    rep.ob("C18.b", key, ok, "new (%s) %s released by %s: %s derives from XMemory" % (a[1], a[2], rel[2], t) if ok else
                           "%s: '%s' is created with new (%s) %s and released by plain %s, but %s does not derive from XMemory: the block "
                           "goes back to the wrong allocator" % (q, rel[0], a[1], a[2], rel[2], t), where)
                    continue
                ok = rel[1] in ms
                rep.ob("C18.b", key, ok, "allocated and released with %s" % rel[1] if ok else
                       "%s: '%s' is allocated with manager %s (line %d) but released with %s (%s): a block is handed to a memory manager "
                       "that did not allocate it" % (q, rel[0], sorted(ms), cands[-1][1], rel[1], rel[2]), where)
    rep.floor("C18.b", n, 180)


ADDERS = ("addElement", "put", "push", "setElementAt", "insertElementAt", "enqueue", "reset")


def container_manager_rule(rep, f):
    rep.rule("C18.c", "one manager per container (contradiction rule, per function): all objects that a function allocates directly in "
             "the argument of an add/put/push/reset on the same container or janitor variable (XMLString::replicate(s, M), "
             "new (M) T) use the same manager expression M — including the container object itself when it is created there. The "
             "container releases every element through its own manager, so an element taken from another manager is returned to "
             "the wrong one (with a separate grammar-pool manager: a leak in the parser's manager and a foreign deallocate in the "
             "pool's)")
    import json as _json
    groups = {}
    for x in f.kind("call"):
        c = x["x"]
        if c[1].split("::")[-1] not in ADDERS or not c[2]:
            continue
        r = c[2]
        while r and r[0] in ("c", "cast", "u"):
            if r[0] == "c" and r[1].split("::")[-1] in ("get", "operator->", "operator*"):
                r = r[2]
            elif r[0] == "cast":
                r = r[2]
            elif r[0] == "u" and r[1] == "*":
                r = r[2]
            else:
                break
        if not r or r[0] not in ("l", "f"):
            continue
        for a in c[3]:
            top = a
            while top and top[0] == "cast":
                top = top[2]
            m = None
            if top and top[0] == "c" and top[1] == "XMLString::replicate" and len(top[3]) >= 2:
                m = top[3][-1]
            elif top and top[0] == "n" and top[2]:
                m = top[2]
            if m is None:
                continue
            while isinstance(m, list) and len(m) == 1 and isinstance(m[0], list):
                m = m[0]
            if m and m[0] == "p":
                m = ["p", 0, m[2]]       # parameters by name (two overloads may number them differently)
            key = (x["_fn"]["q"], x["_fn"].get("sig", ""), _json.dumps(r))
            groups.setdefault(key, {}).setdefault(_json.dumps(m), []).append((x.get("l"), x["_fn"]["file"]))
    n = 0
    for (q, sig, r), ms in sorted(groups.items()):
        n += 1
        ok = len(ms) == 1
        var = sx_str(_json.loads(r))
        if ok:
            rep.ob("C18.c", "%s/%s" % (q, var), True, "%d allocation(s), all from %s" % (sum(len(v) for v in ms.values()), sx_str(_json.loads(list(ms)[0]))), list(ms.values())[0][0][1])
        else:
            minority = min(ms.items(), key=lambda kv: len(kv[1]))
            rep.ob("C18.c", "%s/%s" % (q, var), False,
                   "%s: objects added to %s are allocated from different managers: %s — the one at line %s uses %s while the others use %s" % (
                       q, var, {sx_str(_json.loads(k)): [l for l, _ in v] for k, v in ms.items()}, minority[1][0][0],
                       sx_str(_json.loads(minority[0])), ", ".join(sx_str(_json.loads(k)) for k in ms if k != minority[0])),
                   "%s:%s" % (minority[1][0][1], minority[1][0][0]))
    rep.floor("C18.c", n, 20)


def callback_owner_rule(rep, f):
    rep.rule("C18.d", "no raw owner across an application callback: when a function creates an object with `new` into a local, deletes "
             "it itself later, and calls an application handler interface in between (document / doctype / error / entity handlers "
             "may throw), the local is owned by a Janitor — a plain `delete` after the callback is skipped when the handler throws and "
             "the object is never returned to its memory manager")
    H = set(C17.HANDLERS)
    n = 0
    for q, fns in sorted(f.by_q.items()):
        for fn in fns:
            facts = fn["_facts"]
            dels = [x for x in facts if x["k"] == "delete" and x["x"][2][0] == "l"]
            hcalls = [x for x in facts if x["k"] == "call" and x["x"][1].rsplit("::", 1)[0] in H]
            if not hcalls:
                continue
            news = {}
            for x in facts:
                if x["k"] == "asg" and x["lhs"][0] == "l" and any(isinstance(s_, list) and s_ and s_[0] == "n" for s_ in sx_walk(x["rhs"])):
                    news.setdefault(x["lhs"][1], x.get("l", 0))
                if x["k"] == "local" and x.get("init") and any(isinstance(s_, list) and s_ and s_[0] == "n" for s_ in sx_walk(x["init"])) \
                        and "Janitor" not in x.get("type", ""):
                    news.setdefault(x["name"], x.get("l", 0))
            for L, nl in sorted(news.items()):
                later = [h for h in hcalls if h.get("l", 0) > nl]
                if not later:
                    continue
                n += 1
                guarded = any(x["k"] in ("local", "ctor") and "Janitor" in (x.get("type", "")) and
                              any(s_ == ["l", L] for s_ in sx_walk(x.get("init") or x.get("x") or x.get("args") or []))
                              for x in facts)
                raw = [d for d in dels if d["x"][2][1] == L and any(nl < h.get("l", 0) < d.get("l", 0) for h in hcalls)]
                ok = not raw or guarded
                rep.ob("C18.d", "%s/%s" % (q, L), ok, "no raw delete behind a handler callback" if ok else
                       "%s: %s is created at line %s, %s is called at line %s and only then `delete %s` (line %s): if the handler throws "
                       "the object leaks" % (q, L, nl, later[0]["x"][1], later[0].get("l"), L, raw[0].get("l")),
                       "%s:%s" % (fn["file"], raw[0].get("l", 0) if raw else nl))
    rep.floor("C18.d", n, 5)


ADOPT_EXEMPT = {
    "TraverseSchema::fPreprocessedNodes": "a lookup table from DOM node to SchemaInfo; every SchemaInfo is owned by the adopting "
                                          "fCachedSchemaInfoList / fSchemaInfoList",
}
OWNING_CONTAINERS = ("RefVectorOf", "RefStackOf", "RefHashTableOf", "RefHash2KeysTableOf", "RefHash3KeysIdPool", "RefArrayVectorOf", "NameIdPool")


def adoption_flag_rule(rep, f):
    rep.rule("C18.e", "who creates it and stores it only there must have it adopted: a container member (RefVectorOf / RefStackOf / "
             "RefHashTableOf ...) that receives objects the same class created with `new` — directly in the argument, or through a "
             "member that holds the freshly created object — is constructed with its adopt-elements flag set; a non-adopting "
             "container emptied by reset (removeAllElements) or destroyed with elements still on it (a parse that ended early) "
             "never returns them to the memory manager")
    cons = {}
    for x in f.kind("asg"):
        l = x["lhs"]
        if l[0] != "f" or len(l) != 2:
            continue
        for s_ in sx_walk(x["rhs"]):
            if isinstance(s_, list) and s_ and s_[0] == "n" and any(t in s_[1] for t in OWNING_CONTAINERS):
                args = s_[3] if len(s_) > 3 and isinstance(s_[3], list) else []
                flags = [a[1] for a in args if a in (["i", 0], ["i", 1])]
                cons.setdefault(l[1], []).append((flags, x["_fn"]["q"], x["_fn"]["file"], x.get("l", 0)))
    newf = set()
    for x in f.kind("asg"):
        l, r = x["lhs"], x["rhs"]
        while r and r[0] == "cast":
            r = r[2]
        if l[0] == "f" and len(l) == 2 and r and r[0] == "n":
            newf.add(l[1])
    n = 0
    seen = set()
    for x in f.kind("call"):
        c = x["x"]
        if c[1].split("::")[-1] not in ("push", "addElement", "put", "enqueue") or not c[2] or c[2][0] != "f" or c[2][1] not in cons or not c[3]:
            continue
        a = c[3][-1]
        while a and a[0] == "cast":
            a = a[2]
        if not (a and (a[0] == "n" or (a[0] == "f" and len(a) == 2 and a[1] in newf))):
            continue
        F = c[2][1]
        if F in seen:
            continue
        seen.add(F)
        n += 1
        for flags, q, fl, l in cons[F]:
            if not flags:
                continue          # adoption flag not given literally (template default = adopting)
            ok = flags[0] == 1 or F in ADOPT_EXEMPT
            rep.ob("C18.e", F, ok, ("adopting" if flags[0] == 1 else "exempt: " + ADOPT_EXEMPT[F]) if ok else
                   "%s is constructed non-adopting (%s, line %s) but %s stores %s in it, an object this class created with new: when the "
                   "container is emptied or destroyed with elements on it they are never released" % (F, q, l, x["_fn"]["q"], sx_str(a)),
                   "%s:%s" % (fl, l))
    rep.floor("C18.e", n, 6)


def run(rep):
    f = core.library_facts()
    rep.units.update(os.path.relpath(t, core.REPO) for t in f.tus)
    I, _ = C17.init_functions(f)
    order_rule(rep, f)
    statics_rule(rep, f, I)
    counter_rule(rep, f)
    manager_rule(rep, f)
    container_manager_rule(rep, f)
    callback_owner_rule(rep, f)
    adoption_flag_rule(rep, f)
    rep.undecided += ["exactly-once release on every dynamic path (error unwinding with partially built objects)",
                      "leak freedom per document and per way a parse can end",
                      "ownership carried by adoption flags of the container templates (e.g. RefStackOf adoptElems)"]
    return ("Static, closed world over the library: reverse-order pairing of the 18 initialise/terminate functions, create/"
            "release/null pairing of every static pointer of the Initialize tree, the init counter, unconditional release in "
            "the process-wide setters (CFG), and structural same-manager pairing of local allocations with their releases. "
            "Decides these necessary conditions, not leak freedom on every dynamic path.")
