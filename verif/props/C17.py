"""C17 — distinct parser/document/transcoder objects are safe to use concurrently.

C17.a  census of every mutable static-storage object of the library (closed world):
       init-only / mutex-guarded / never written / documented process-wide configuration
C17.b  guarded shared objects: synchronized string pool, range-token map, LCP transcoder
C17.c  lock order acyclic; no user handler called while a library mutex is held
C17.d  no lazy faulting in objects shared through a grammar pool; pure regex matching
"""
import os
from collections import defaultdict

from .. import core
from ..core import AnalysisBroken, sx_str, sx_walk

SELF_WRITE = ("write", "inc", "elemwrite")

# documented process-wide configuration: written only by the named public setter, which the
# documentation restricts to "before any thread uses the parser" (one symbol, one reason each)
CONFIG = {
    "XMLChar1_0::enableNEL": ("XMLChar1_0::enableNELWS", "XMLPlatformUtils::recognizeNEL: documented as a process-wide, set-once switch"),
    "XMLChar1_0::fgCharCharsTable1_0": ("XMLChar1_0::enableNELWS", "same switch: patches two whitespace entries of the table"),
    "gStrictIANAEncoding": ("XMLTransService::strictIANAEncoding", "XMLPlatformUtils::strictIANAEncoding: documented process-wide switch"),
    "CurlNetAccessor::fgCurlInitCount": ("CurlNetAccessor::initCurl|CurlNetAccessor::cleanupCurl",
                                         "touched only by the net accessor's constructor/destructor, which run inside Initialize/Terminate"),
}

HANDLERS = ("ErrorHandler", "EntityResolver", "XMLEntityResolver", "DocumentHandler", "ContentHandler", "DTDHandler",
            "LexicalHandler", "DeclHandler", "DOMErrorHandler", "DOMLSResourceResolver", "DOMLSParserFilter",
            "XMLErrorReporter", "XMLEntityHandler", "XMLDocumentHandler", "DocTypeHandler", "PSVIHandler", "DOMUserDataHandler")


def init_functions(f):
    """functions that run only inside XMLPlatformUtils::Initialize/Terminate: the seed plus every
    function all of whose callers (resolved calls and constructions) are already in the set."""
    callers = defaultdict(set)
    for x in f.kind("call"):
        callers[x["x"][1]].add(x["_fn"]["q"])
    for x in f.kind("ctor"):
        t = x["type"].split("<")[0]
        callers[t + "::" + t.split("::")[-1]].add(x["_fn"]["q"])
    I = set(q for q in f.by_q if q.startswith("XMLInitializer::")) | {"XMLPlatformUtils::Initialize", "XMLPlatformUtils::Terminate"}
    if len(I) < 40:
        raise AnalysisBroken("the XMLInitializer family vanished (%d functions)" % len(I))
    changed = True
    while changed:
        changed = False
        for q in f.by_q:
            if q in I:
                continue
            c = callers.get(q)
            if c and c <= I:
                I.add(q)
                changed = True
    return I, callers


def census(rep, f, I):
    rep.rule("C17.a", "census (closed world over all library units) of every non-const object with static storage: each is "
             "(I) written only in functions that run inside Initialize/Terminate, (M) accessed outside them only under an "
             "XMLMutexLock in an enclosing scope, (C) never written after its initialiser, or (D) documented process-wide "
             "configuration written only by its named setter; function-local mutable statics written after initialisation "
             "are never acceptable")
    mut = {q: g for q, g in f.gvars.items() if g["mut"]}
    uses = defaultdict(list)
    for x in f.kind("guse"):
        if x["var"] in mut:
            uses[x["var"]].append(x)
    n = 0
    classes = defaultdict(int)
    for q, g in sorted(mut.items()):
        us = uses[q]
        out = [u for u in us if u["_fn"]["q"] not in I]
        selfw = [u for u in out if u["how"] in SELF_WRITE]
        locked = [u for u in out if u.get("lk")]
        where = "%s:%d" % (g["file"], g["line"])
        n += 1
        rep.count(len(us))
        if q in CONFIG:
            allowed = set(CONFIG[q][0].split("|"))
            bad = [u for u in selfw if u["_fn"]["q"] not in allowed]
            classes["D"] += 1
            rep.ob("C17.a", q, not bad, "configuration: " + CONFIG[q][1] if not bad else
                   "configuration variable written outside its setter in %s" % sorted(set(u["_fn"]["q"] for u in bad)), where)
            continue
        if locked:
            # mutex-guarded: every access outside the init tree must be under a lock
            bare = [u for u in out if not u.get("lk")]
            classes["M"] += 1
            rep.ob("C17.a", q, not bare,
                   "mutex-guarded (%s): %d accesses outside Initialize/Terminate, all locked" % (
                       sorted(set(sx_str(m) for u in locked for m in u["lk"])), len(out)) if not bare else
                   "%s is accessed under a mutex in %s but without one in %s (line %d, %s)" % (
                       q, sorted(set(u["_fn"]["q"] for u in locked))[:3], bare[0]["_fn"]["q"], bare[0]["l"], bare[0]["how"]),
                   where, detail={"bare": [(u["_fn"]["q"], u["l"], u["how"]) for u in bare]})
            continue
        if selfw:
            classes["X"] += 1
            kind = "function-local static" if g["scope"] == "local" else "static"
            rep.ob("C17.a", q, False,
                   "%s %s (%s) is written without synchronisation outside Initialize/Terminate in %s (line %d)" % (
                       kind, q, g["type"], selfw[0]["_fn"]["q"], selfw[0]["l"]), where,
                   detail={"writes": [(u["_fn"]["q"], u["l"], u["how"]) for u in selfw]})
            continue
        classes["I/C"] += 1
        rep.ob("C17.a", q, True, "no write outside Initialize/Terminate (%d uses)" % len(us), where)
    rep.floor("C17.a", n, 120)
    rep.extra["census_classes"] = dict(classes)
    if classes["M"] < 1:
        raise AnalysisBroken("no mutex-guarded static recognised: the lock-scope facts went blind")


def guarded_objects(rep, f, I):
    rep.rule("C17.b", "guarded shared objects: every XMLSynchronizedStringPool method reaches the inherited (mutable) pool only "
             "under fMutex; RangeTokenMap reads and writes the lazily built range-token slots and calls the range factories "
             "only under fMutex or inside Initialize; ICULCPTranscoder uses its converter only under fMutex")
    # synchronized string pool
    n = 0
    for q, fns in sorted(f.by_q.items()):
        for fn in fns:
            if fn.get("cls") != "XMLSynchronizedStringPool" or fn.get("ctor") or fn.get("dtor"):
                continue
            if fn["name"] == "flushAll":
                # administrative reset issued by XMLGrammarPoolImpl::unlockPool/clear, which the API forbids while
                # parsers use the pool ("a locked pool is never modified" is the C15 side of the same contract)
                continue
            calls = [x for x in fn["_facts"] if x["k"] == "call" and x.get("ccls") == "XMLStringPool" and
                     (x["x"][2] is None or x["x"][2] == ["this"])]
            if not calls:
                continue
            bare = [x for x in calls if not x.get("lk")]
            n += 1
            rep.ob("C17.b/stringpool", q + fn["sig"], not bare,
                   "%d calls into the shared pool, all under %s" % (len(calls), sorted(set(sx_str(m) for x in calls for m in x.get("lk", [])))) if not bare else
                   "calls XMLStringPool::%s on the shared pool without holding fMutex (line %d)" % (bare[0]["x"][1].split("::")[-1], bare[0]["l"]),
                   "%s:%d" % (fn["file"], fn["line"]))
    rep.floor("C17.b/stringpool", n, 4)
    # range token map
    k = 0
    for x in f.kind("call"):
        name = x["x"][1]
        fn = x["_fn"]
        if fn["q"] in I:
            continue
        if name in ("RangeTokenElemMap::getRangeToken", "RangeTokenElemMap::setRangeToken") or name.endswith("::buildRanges"):
            # buildRanges implementations themselves are entered only from locked regions / init (checked through their call sites)
            if fn["q"].endswith("::buildRanges") or fn.get("cls", "").endswith("RangeFactory"):
                continue
            if fn.get("cls") == "RangeTokenMap" and fn["name"] in ("setRangeToken", "addKeywordMap", "addRangeMap", "addCategory"):
                # registration API: called from buildRanges/initializeRegistry only
                continue
            k += 1
            rep.ob("C17.b/rangemap", "%s@%s:%d" % (fn["q"], name.split("::")[-1], k), bool(x.get("lk")),
                   "under %s" % [sx_str(m) for m in x.get("lk", [])] if x.get("lk") else
                   "%s calls %s without holding RangeTokenMap::fMutex (line %d): lazily built range tokens raced on first use" % (fn["q"], name, x["l"]),
                   "%s:%d" % (fn["file"], x["l"]))
    rep.floor("C17.b/rangemap", k, 4)
    # tokens are registered with their lookup map already built (no lazy build on a shared token)
    rep.rule("C17.b/eager-map", "every RangeToken a range factory registers in the shared RangeTokenMap has had createMap() called "
             "since it was last assigned (array elements: somewhere in the same buildRanges), and RegularExpression::compile builds "
             "the map of every range token it compiles — so that no thread ever builds the map of a shared token during matching")
    nreg = 0
    for q, fns in sorted(f.by_q.items()):
        if not q.endswith("RangeFactory::buildRanges"):
            continue
        for fn in fns:
            ev = []
            for x in fn["_facts"]:
                if x["k"] == "asg" and x["lhs"][0] == "l":
                    ev.append((x["l"], 0, "asg", x["lhs"][1]))
                elif x["k"] == "local" and x.get("init") is not None:
                    ev.append((x["l"], 0, "asg", x["name"]))
                elif x["k"] == "call":
                    c = x["x"]
                    nm = c[1].split("::")[-1]
                    if c[1] == "RangeToken::createMap" and c[2]:
                        r = c[2]
                        base = r[1] if r[0] == "l" else (r[1][1] if r[0] == "x" and r[1][0] == "l" else None)
                        ev.append((x["l"], 1, "map", base, r[0] == "x"))
                    elif c[1] == "RangeTokenMap::setRangeToken" and len(c[3]) >= 2:
                        t = c[3][1]
                        base = t[1] if t[0] == "l" else (t[1][1] if t[0] == "x" and t[1][0] == "l" else None)
                        ev.append((x["l"], 2, "reg", base, t[0] == "x"))
            ev.sort(key=lambda e: (e[0], e[1]))
            mapped = set()
            arrays_mapped = set(e[3] for e in ev if e[2] == "map" and e[4])
            for e in ev:
                if e[2] == "asg":
                    mapped.discard(e[3])
                elif e[2] == "map":
                    mapped.add(e[3])
                elif e[2] == "reg":
                    nreg += 1
                    ok = (e[3] in mapped) or (e[4] and e[3] in arrays_mapped)
                    rep.ob("C17.b/eager-map", "%s@setRangeToken:%d" % (q, nreg), ok,
                           "token %s registered with its map built" % e[3] if ok else
                           "%s registers token '%s' at line %d without createMap(): its map would be built lazily, unsynchronised, by whichever threads use the category first" % (q, e[3], e[0]),
                           "%s:%d" % (fn["file"], e[0]))
    rep.floor("C17.b/eager-map", nreg, 30)
    comp = [fn for fn in f.fns_named("RegularExpression::compileSingle") + f.fns_named("RegularExpression::compile")]
    forced = any(x["k"] == "call" and x["x"][1] == "RangeToken::createMap" for fn in comp for x in fn["_facts"])
    rep.ob("C17.b/eager-map", "RegularExpression::compile", forced,
           "compile builds the lookup map of the range tokens it compiles" if forced else
           "RegularExpression::compile no longer calls RangeToken::createMap(): maps of compiled range tokens are built during matching, "
           "which races when a compiled expression (pattern facet in a cached grammar) is shared", "src/xercesc/util/regx/RegularExpression.cpp")
    # registration API callers
    for x in f.kind("call"):
        if x["x"][1] in ("RangeTokenMap::setRangeToken", "RangeTokenMap::addKeywordMap", "RangeTokenMap::addRangeMap", "RangeTokenMap::addCategory"):
            cq = x["_fn"]["q"]
            ok = cq in I or cq.endswith("::buildRanges") or cq.endswith("::initializeKeywordMap") or cq.startswith("RangeTokenMap::") or bool(x.get("lk"))
            rep.ob("C17.b/rangemap-callers", "%s->%s" % (cq, x["x"][1].split("::")[-1]), ok,
                   "registration call from a range factory / initialisation" if ok else
                   "%s mutates the shared range-token map outside a range factory or Initialize" % cq, "%s:%d" % (x["_fn"]["file"], x["l"]))
    # ICU local code page transcoder
    m = 0
    for q, fns in sorted(f.by_q.items()):
        for fn in fns:
            if fn.get("cls") != "ICULCPTranscoder" or fn.get("ctor") or fn.get("dtor"):
                continue
            us = [x for x in fn["_facts"] if x["k"] == "fld" and x["f"] == "ICULCPTranscoder::fConverter"]
            if not us:
                continue
            bare = [x for x in us if not x.get("lk")]
            m += 1
            rep.ob("C17.b/lcp", q + fn["sig"], not bare, "%d converter uses, all under fMutex" % len(us) if not bare else
                   "uses the shared ICU converter without fMutex at line %d" % bare[0]["l"], "%s:%d" % (fn["file"], fn["line"]))
    rep.floor("C17.b/lcp", m, 4)


def lock_order(rep, f):
    rep.rule("C17.c", "lock order: the graph 'holds mutex A while calling something that (transitively) takes mutex B' over all "
             "XMLMutexLock regions of the library is acyclic, and no application handler interface is invoked while a "
             "library mutex is held")
    # mutexes taken directly per function
    direct = defaultdict(set)
    for x in f.kind("local"):
        if "XMLMutexLock" in x["type"]:
            init = x.get("init")
            m = "?"
            if init and init[0] == "k" and init[2]:
                m = sx_str(init[2][0])
            direct[x["_fn"]["q"]].add(m)
    if len(direct) < 8:
        raise AnalysisBroken("only %d functions with XMLMutexLock found" % len(direct))
    calls = defaultdict(set)
    for x in f.kind("call"):
        calls[x["_fn"]["q"]].add(x["x"][1])
    memo = {}

    def takes(q, stack=()):
        if q in memo:
            return memo[q]
        if q in stack or len(stack) > 12:
            return set()
        r = set(direct.get(q, ()))
        for c in calls.get(q, ()):
            if c in f.by_q:
                r |= takes(c, stack + (q,))
        memo[q] = r
        return r
    edges = defaultdict(set)
    nreg = 0
    handler_calls = []
    for x in f.kind("call"):
        lk = x.get("lk")
        if not lk:
            continue
        nreg += 1
        held = [sx_str(m) for m in lk]
        callee = x["x"][1]
        if x.get("ccls") in HANDLERS:
            handler_calls.append((x["_fn"]["q"], callee, x["l"]))
        if callee in f.by_q:
            for b in takes(callee):
                for a in held:
                    if a != b:
                        edges[a].add((b, x["_fn"]["q"], callee))
    rep.count(nreg)
    # cycle detection
    graph = {a: set(b for b, _, _ in v) for a, v in edges.items()}
    cyc = None
    color = {}

    def dfs(u, path):
        nonlocal cyc
        color[u] = 1
        for v in graph.get(u, ()):
            if color.get(v) == 1:
                cyc = path + [u, v]
                return
            if v not in color:
                dfs(v, path + [u])
                if cyc:
                    return
        color[u] = 2
    for u in list(graph):
        if u not in color and not cyc:
            dfs(u, [])
    rep.ob("C17.c/order", "lock-order graph", cyc is None,
           "%d locked call sites, %d nested-acquisition edges, acyclic" % (nreg, sum(len(v) for v in graph.values())) if cyc is None else
           "lock-order cycle: %s" % " -> ".join(cyc), "whole library",
           detail={"edges": {a: sorted(set((b, w) for b, w, _ in v)) for a, v in edges.items()}})
    rep.ob("C17.c/handlers", "handlers under lock", not handler_calls,
           "no application handler is called while a library mutex is held" if not handler_calls else
           "application handler called under a library mutex: %s" % handler_calls[:3], "whole library")


def this_base(b):
    if b == "this":
        return True
    if isinstance(b, list):
        while b and b[0] == "cast":
            b = b[2]
        return b == ["this"]
    return False


def lazy_faulting(rep, f):
    rep.rule("C17.d", "no lazy faulting in objects shared through a (locked) grammar pool: in the serialisable grammar classes "
             "and the content models / compiled regular expressions hanging off them, no const-qualified method assigns a "
             "member of *this (through a cast), and no getter assigns a member under a test and returns it; "
             "RegularExpression::matches/tokenize/replace and every member they reach assign no member of the compiled "
             "expression (all per-match state lives in the local Context)")
    ser = set(fn["cls"] for q, fns in f.by_q.items() for fn in fns if fn["name"] == "serialize" and "XSerializeEngine" in fn["sig"])
    shared = ser | {"XMLContentModel", "DFAContentModel", "SimpleContentModel", "MixedContentModel", "AllContentModel",
                    "RegularExpression", "Grammar", "XMLElementDecl", "XMLAttDef"}
    if len(ser) < 60:
        raise AnalysisBroken("only %d serialisable classes found" % len(ser))
    W = ("write", "inc", "elemwrite")
    n = 0
    for q, fns in sorted(f.by_q.items()):
        for fn in fns:
            if fn.get("cls") not in shared or fn.get("ctor") or fn.get("dtor") or fn.get("static"):
                continue
            ws = [x for x in fn["_facts"] if x["k"] == "fld" and x["how"] in W and this_base(x["b"])]
            n += 1
            if not ws:
                continue
            fields = sorted(set(x["f"] for x in ws))
            if fn.get("const"):
                for fl in fields:
                    rep.ob("C17.d/const-writes", "%s%s/%s" % (q, "", fl.split("::")[-1]), False,
                           "const method %s assigns member %s of a shared grammar object (lazy faulting, unsynchronised)" % (q, fl),
                           "%s:%d" % (fn["file"], fn["line"]))
                continue
            # getter idiom: assigns F and returns F
            rets = [x for x in fn["_facts"] if x["k"] == "ret"]
            for fl in fields:
                returned = any(any(s[0] == "f" and s[1] == fl and (len(s) < 3) for s in sx_walk(r["x"])) for r in rets)
                if returned and fn["name"].startswith(("get", "is", "has", "find")) and "OrAdd" not in fn["name"]:
                    rep.ob("C17.d/lazy-getter", "%s/%s" % (q, fl.split("::")[-1]), False,
                           "getter %s creates and stores member %s on first use (lazy faulting, unsynchronised)" % (q, fl),
                           "%s:%d" % (fn["file"], fn["line"]))
    rep.count(n)
    rep.ob("C17.d/scanned", "shared-class methods", n >= 600, "%d methods of %d shared classes scanned" % (n, len(shared)), "whole library")
    pure_match_rule(rep, f, "C17.d/pure-match")


def pure_match_rule(rep, f, rid):
    W = ("write", "inc", "elemwrite")
    entry = ["RegularExpression::matches", "RegularExpression::tokenize", "RegularExpression::replace"]
    seen = set()
    work = list(entry)
    calls = defaultdict(set)
    for x in f.kind("call"):
        if x.get("ccls") == "RegularExpression" and (x["x"][2] is None or x["x"][2] == ["this"]):
            calls[x["_fn"]["q"]].add(x["x"][1])
    while work:
        q = work.pop()
        if q in seen:
            continue
        seen.add(q)
        work.extend(calls.get(q, ()))
    bad = []
    for q in sorted(seen):
        for fn in f.fns_named(q):
            for x in fn["_facts"]:
                if x["k"] == "fld" and x["how"] in W and this_base(x["b"]) and x["f"].startswith("RegularExpression::"):
                    bad.append((q, x["f"], x["l"]))
    if len(seen) < 8:
        raise AnalysisBroken("RegularExpression matching closure shrank to %d functions" % len(seen))
    rep.ob(rid, "RegularExpression matching closure", not bad,
           "%d member functions reachable from matches/tokenize/replace assign no member of the expression" % len(seen) if not bad else
           "%s assigns %s at line %d: matching is no longer pure (shared compiled expressions race)" % bad[0], "src/xercesc/util/regx/RegularExpression.cpp")


GRAMMAR_MUTATORS = ("putElemDecl", "putEntityDecl", "putNotationDecl", "putGroupElemDecl", "putAnnotation")
SCANNER_CLASSES = ("IGXMLScanner", "DGXMLScanner", "SGXMLScanner", "XSAXMLScanner", "WFXMLScanner", "XMLScanner")


def cached_grammar_rule(rep, f):
    import re
    from ..engines import guard
    rep.rule("C17.e", "a parser does not write into a cached grammar: a grammar taken from the grammar pool (use-cached-grammar) may be "
             "shared by every parser on that pool, and the pool's lock only stops the *pool* from changing; in the scanners every "
             "call that adds a declaration to the current grammar (Grammar::putElemDecl / putEntityDecl / putNotationDecl ... on "
             "fGrammar or fDTDGrammar) is unreachable when fUseCachedGrammar is set (CFG, unreachable under assumption) — "
             "undeclared elements met in a document belong in the scanner's own pool")
    sites = {}
    for x in f.kind("call"):
        c = x["x"]
        fn = x["_fn"]
        if fn.get("cls") in SCANNER_CLASSES and c[1].split("::")[-1] in GRAMMAR_MUTATORS and c[2] and c[2][0] == "f" \
                and c[2][1].split("::")[-1] in ("fGrammar", "fDTDGrammar", "fSchemaGrammar"):
            sites.setdefault((fn["q"], fn["file"]), []).append(x)
    if not sites:
        raise AnalysisBroken("C17.e: no scanner call of a grammar mutator found (the guarded root-element sites are expected)")
    tus = sorted({os.path.join(core.REPO, fl) for (_, fl) in sites if fl.endswith(".cpp")})
    g = core.run_xa(tus, cfg="^(" + "|".join(sorted({re.escape(q) for (q, _) in sites})) + ")$", flat=False)
    n = 0
    for (q, fl), xs in sorted(sites.items()):
        for raw in g.cfgs.get(q, []):
            cfg = guard.Cfg(raw)

            def is_mut(c):
                return c[0] == "c" and c[1].split("::")[-1] in GRAMMAR_MUTATORS and c[2] and c[2][0] == "f" and \
                    c[2][1].split("::")[-1] in ("fGrammar", "fDTDGrammar", "fSchemaGrammar")
            allsites = guard.sites(cfg, is_mut)
            live = guard.reachable_sites(cfg, is_mut, lambda leaf: True if (leaf[0] == "f" and leaf[1].endswith("::fUseCachedGrammar")) else None)
            for b, i, el in allsites:
                n += 1
                bad = any(e2 is el for _, _, e2 in live)
                rep.ob("C17.e", "%s@%s:%s" % (q, el["x"][1].split("::")[-1], el.get("l")), not bad,
                       "unreachable with a cached grammar" if not bad else
                       "%s (line %s) adds a declaration to the current grammar also when it comes from the grammar pool: an unsynchronised "
                       "write into an object that other parsers read" % (q, el.get("l")), "%s:%s" % (fl, el.get("l", 0)))
    rep.floor("C17.e", n, 2)


def run(rep):
    f = core.library_facts()
    rep.units.update(os.path.relpath(t, core.REPO) for t in f.tus)
    I, callers = init_functions(f)
    rep.extra["init_tree_functions"] = len(I)
    census(rep, f, I)
    guarded_objects(rep, f, I)
    lock_order(rep, f)
    lazy_faulting(rep, f)
    cached_grammar_rule(rep, f)
    rep.undecided += ["data-race freedom of state reached through pointers held in init-only globals",
                      "result equality across schedules",
                      "DTDGrammar::setValidated written by every validating parse on a shared cached grammar (plain setter, outside the rule pattern) — observed"]
    rep.assumptions += ["the library locks only through the RAII XMLMutexLock, so 'lexically inside the scope of an XMLMutexLock' = 'lock held'",
                        "functions all of whose callers run inside Initialize/Terminate run single-threaded",
                        "only the compiled configuration (std mutex manager, ICU transcoder, curl accessor) is covered"]
    return ("Static, closed world over all library units: census of every mutable static with lock-scope facts, frozen "
            "object->mutex table, lock-order graph, and an effect rule (no member assignment in const methods / lazy "
            "getters of grammar-shared classes, pure regex matching). Decides these necessary conditions of data-race "
            "freedom, not schedules.")
