"""C02 — well-formedness verdict: structural clauses (DESIGN.md §4 C02).

C02.a  character-class tables == XML 1.0 5th ed. / XML 1.1 productions (exhaustive)
       + accessors test the mask their name says + surrogate range constants
C02.b  severity partition of XMLErrs, message table extent, NLS agreement,
       frozen fatal family
C02.c  fatal-diagnostic matrix (DIAG engine)
"""
import json
import os
import xml.etree.ElementTree as ET

from .. import core, sxeval
from ..core import AnalysisBroken
from ..oracles import xmlchar
from ..engines import diag

MASKS = ["gNCNameCharMask", "gFirstNameCharMask", "gNameCharMask", "gPlainContentCharMask",
         "gSpecialStartTagCharMask", "gControlCharMask", "gXMLCharMask", "gWhitespaceCharMask"]

ACCESSOR_MASK = {
    "isXMLLetter": "gFirstNameCharMask", "isFirstNameChar": "gFirstNameCharMask",
    "isFirstNCNameChar": "gFirstNameCharMask", "isNameChar": "gNameCharMask",
    "isNCNameChar": "gNCNameCharMask", "isPlainContentChar": "gPlainContentCharMask",
    "isSpecialStartTagChar": "gSpecialStartTagCharMask", "isXMLChar": "gXMLCharMask",
    "isWhitespace": "gWhitespaceCharMask", "isControlChar": "gControlCharMask",
}
# supplementary planes: names may use [#x10000-#xEFFFF] (high surrogate D800..DB7F),
# Char allows [#x10000-#x10FFFF] (D800..DBFF); low surrogate DC00..DFFF
SURR_NAME = (0xD800, 0xDB7F, 0xDC00, 0xDFFF)
SURR_CHAR = (0xD800, 0xDBFF, 0xDC00, 0xDFFF)
ACCESSOR_SURR = {
    "isFirstNameChar": SURR_NAME, "isFirstNCNameChar": SURR_NAME, "isNameChar": SURR_NAME,
    "isNCNameChar": SURR_NAME, "isPlainContentChar": SURR_CHAR, "isXMLChar": SURR_CHAR,
}


def table_rule(rep, f):
    rep.rule("C02.a/table", "every entry of XMLChar1_0::fgCharCharsTable1_0 and XMLChar1_1::fgCharCharsTable1_1, "
             "per mask bit, equals the class computed from the XML 1.0 (5th ed.) / XML 1.1 productions "
             "[2],[2a],[3],[4],[4a] (65536 x 8 x 2 entries, exhaustive)")
    masks = {}
    for m in MASKS:
        v = f.table(m)["v"]
        masks[m] = v
    if sorted(masks.values()) != [1, 2, 4, 8, 16, 32, 64, 128]:
        rep.ob("C02.a/masks", "mask-bits", False, "the eight mask constants are no longer eight distinct bits: %s" % masks,
               "src/xercesc/util/XMLChar.hpp")
    else:
        rep.ob("C02.a/masks", "mask-bits", True, "eight distinct single-bit masks", "src/xercesc/util/XMLChar.hpp")
    for ver, q in (("1.0", "XMLChar1_0::fgCharCharsTable1_0"), ("1.1", "XMLChar1_1::fgCharCharsTable1_1")):
        t = f.table(q)
        tab = t["v"]
        if len(tab) != 0x10000:
            raise AnalysisBroken("%s has %d entries, expected 65536" % (q, len(tab)))
        exp = xmlchar.expected(ver)
        for m in MASKS:
            bit = masks[m]
            e = exp[m]
            bad = [i for i in range(0x10000) if bool(tab[i] & bit) != (i in e)]
            rep.count(0x10000)
            what = "all 65536 entries agree with the production" if not bad else \
                "%d entries differ from the specification, first: %s" % (
                    len(bad), ", ".join("U+%04X table=%d spec=%d" % (i, bool(tab[i] & bit), i in e) for i in bad[:6]))
            rep.ob("C02.a/table", "%s&%s" % (q.split("::")[-1], m), not bad, what, "%s:%d" % (t["file"], t.get("line", 0)),
                   detail={"differences": bad[:200]})
        if ver == "1.1":
            # spec-level relations behind the 1.1 split into "literal" and "control"
            lit = {i for i in range(0x10000) if tab[i] & masks["gXMLCharMask"]}
            ctl = {i for i in range(0x10000) if tab[i] & masks["gControlCharMask"]}
            ws = {i for i in range(0x10000) if tab[i] & masks["gWhitespaceCharMask"]}
            rep.ob("C02.a/1.1-charref", "literal|control==Char", (lit | ctl) == xmlchar.CHAR_11,
                   "isXMLChar or isControlChar (legality of a character reference) equals XML 1.1 [2] Char", t["file"])
            rep.ob("C02.a/1.1-restricted", "control-ws==RestrictedChar", (ctl - ws) == xmlchar.RESTRICTED_11,
                   "control minus whitespace (characters the formatter must escape) equals [2a] RestrictedChar", t["file"])


def _collect(node, acc):
    if isinstance(node, list):
        acc.append(node)
        for y in node:
            _collect(y, acc)


def accessor_rule(rep, f):
    rep.rule("C02.a/accessor", "each inline character-class accessor of XMLChar1_0 / XMLChar1_1 / XMLReader subscripts "
             "the table of its own version and tests exactly the mask its name says; the surrogate-pair "
             "branch uses the range constants of the production (names: D800-DB7F, Char: D800-DBFF, low DC00-DFFF)")
    n = 0
    for cls, table in (("XMLChar1_0", "XMLChar1_0::fgCharCharsTable1_0"), ("XMLChar1_1", "XMLChar1_1::fgCharCharsTable1_1"),
                       ("XMLReader", "XMLReader::fgCharCharsTable")):
        for name, mask in ACCESSOR_MASK.items():
            q = cls + "::" + name
            sts = f.sts.get(q, [])
            if (cls == "XMLReader" and name == "isXMLLetter"):
                continue
            if q == "XMLChar1_1::isXMLLetter":
                # XML 1.1 defines no Letter: must delegate to the 1.0 definition
                for s in sts:
                    nodes = []
                    _collect(s["body"], nodes)
                    ok = any(nd and nd[0] == "c" and nd[1] == "XMLChar1_0::isXMLLetter" for nd in nodes)
                    n += 1
                    rep.ob("C02.a/accessor", q + s["sig"], ok, "delegates to XMLChar1_0::isXMLLetter", "%s:%d" % (s["file"], s["line"]))
                continue
            if not sts:
                raise AnalysisBroken("accessor %s vanished" % q)
            for s in sts:
                nodes = []
                _collect(s["body"], nodes)
                tests = []
                for nd in nodes:
                    if nd and nd[0] == "b" and nd[1] == "&" and isinstance(nd[2], list) and nd[2][0] == "x":
                        base = nd[2][1]
                        bname = base[1] if base[0] in ("g", "f") else "?"
                        mname = nd[3][1] if nd[3][0] == "g" else core.sx_str(nd[3])
                        tests.append((bname, mname))
                ok = bool(tests) and all(b == table and m == mask for b, m in tests)
                n += 1
                rep.ob("C02.a/accessor", q + s["sig"], ok,
                       "tests %s" % tests if ok else "expected %s & %s, found %s" % (table, mask, tests),
                       "%s:%d" % (s["file"], s["line"]))
                if name in ACCESSOR_SURR and cls != "XMLReader" and "," in s["sig"]:
                    want = ACCESSOR_SURR[name]
                    consts = sorted(set(nd[3][1] for nd in nodes if nd and nd[0] == "b" and nd[1] in (">=", "<=")
                                        and isinstance(nd[3], list) and nd[3][0] == "i"))
                    ok2 = consts == sorted(want)
                    rep.ob("C02.a/surrogate", q + s["sig"], ok2,
                           "surrogate range constants %s" % [hex(c) for c in consts] +
                           ("" if ok2 else " expected %s" % [hex(c) for c in want]), "%s:%d" % (s["file"], s["line"]))
    rep.floor("C02.a/accessor", n, 28)
    # the reader selects the table by version
    rep.rule("C02.a/select", "XMLReader binds fgCharCharsTable to the 1.1 table exactly when the version is XMLV1_1 "
             "(setXMLVersion, its only writer)")
    k = 0
    for q in ("XMLReader::setXMLVersion", "XMLReader::XMLReader"):
        for s in f.sts.get(q, []):
            nodes = []
            _collect(s["body"], nodes)
            for nd in nodes:
                if nd and nd[0] == "if" and isinstance(nd[1], list):
                    c = nd[1]
                    if c[0] == "b" and c[1] in ("==", "!=") and any(isinstance(z, list) and z[0] == "e" and z[1].endswith("XMLV1_1") for z in c[2:4]):
                        then_n, else_n = [], []
                        _collect(nd[2], then_n)
                        _collect(nd[3], else_n)

                        def assigned(ns):
                            r = []
                            for z in ns:
                                if z and z[0] == "b" and z[1] == "=" and z[2][0] == "f" and z[2][1] == "XMLReader::fgCharCharsTable":
                                    r.append(z[3][1] if z[3][0] == "g" else core.sx_str(z[3]))
                            return r
                        a, b = assigned(then_n), assigned(else_n)
                        if c[1] == "!=":
                            a, b = b, a
                        if not a and not b:
                            continue
                        ok = a == ["XMLChar1_1::fgCharCharsTable1_1"] and b == ["XMLChar1_0::fgCharCharsTable1_0"]
                        k += 1
                        rep.ob("C02.a/select", "%s@if#%d" % (q, k), ok, "1.1 -> %s, otherwise -> %s" % (a, b), "%s:%d" % (s["file"], nd[-1] if isinstance(nd[-1], int) else s["line"]))
    rep.floor("C02.a/select", k, 1)
    writers = sorted(set(x["_fn"]["q"] for x in f.kind("fld") if x["f"] == "XMLReader::fgCharCharsTable" and x["how"] in ("write", "init", "inc", "addr", "refarg")))
    rep.ob("C02.a/select", "writers(XMLReader::fgCharCharsTable)", writers == ["XMLReader::setXMLVersion"],
           "the table pointer is assigned only in %s" % writers, "src/xercesc/internal/XMLReader.hpp")


def severity_rule(rep, f):
    rep.rule("C02.b/partition", "XMLErrs::Codes: W/E/F ranges are non-empty, ordered and disjoint; isFatal/isError/"
             "isWarning/errorType/DOMErrorType, folded for every enumerator, agree with the range the enumerator "
             "lies in; every enumerator of the frozen well-formedness family is classified Fatal")
    en = f.enums.get("XMLErrs::Codes")
    if not en:
        raise AnalysisBroken("enum XMLErrs::Codes vanished")
    items = dict(en["items"])
    for b in ("W_LowBounds", "W_HighBounds", "E_LowBounds", "E_HighBounds", "F_LowBounds", "F_HighBounds", "NoError"):
        if b not in items:
            raise AnalysisBroken("XMLErrs::%s vanished" % b)
    rngs = {k: (items[k + "_LowBounds"], items[k + "_HighBounds"]) for k in "WEF"}
    spans = sorted(rngs.values())
    ok = all(lo < hi for lo, hi in spans) and all(spans[i][1] < spans[i + 1][0] for i in range(2))
    rep.ob("C02.b/partition", "ranges", ok, "W=%s E=%s F=%s" % (rngs["W"], rngs["E"], rngs["F"]), "%s:%d" % (en["file"], en["line"]))
    errtypes = dict(f.enums["XMLErrorReporter::ErrTypes"]["items"])
    domsev = dict(f.enums["DOMError::ErrorSeverity"]["items"])
    cls_of = {}
    for name, val in en["items"]:
        if name.endswith("Bounds") or name == "NoError":
            continue
        c = [k for k in "WEF" if rngs[k][0] < val < rngs[k][1]]
        cls_of[name] = c[0] if len(c) == 1 else None
        if len(c) != 1:
            rep.ob("C02.b/partition", "XMLErrs::" + name, False, "enumerator value %d lies in no severity range" % val, en["file"])
    # fold the classification functions over every enumerator
    fnexp = {
        "XMLErrs::isFatal": lambda c: int(c == "F"),
        "XMLErrs::isError": lambda c: int(c == "E"),
        "XMLErrs::isWarning": lambda c: int(c == "W"),
        "XMLErrs::errorType": lambda c: {"W": errtypes["ErrType_Warning"], "E": errtypes["ErrType_Error"], "F": errtypes["ErrType_Fatal"]}[c],
        "XMLErrs::DOMErrorType": lambda c: {"W": domsev["DOM_SEVERITY_WARNING"], "E": domsev["DOM_SEVERITY_ERROR"], "F": domsev["DOM_SEVERITY_FATAL_ERROR"]}[c],
    }
    for q, want in fnexp.items():
        s = f.st(q)
        bad = []
        for name, c in cls_of.items():
            if c is None:
                continue
            got = sxeval.run_st(s["body"], {"toCheck": items[name]})
            rep.count()
            if got != want(c):
                bad.append(name)
        rep.ob("C02.b/partition", q, not bad, "folded over %d enumerators" % len(cls_of) if not bad else
               "misclassifies %s" % bad[:8], "%s:%d" % (s["file"], s["line"]))
    # frozen fatal family (well-formedness / fatal diagnostics confirmed on the pinned tree)
    base = json.load(open(os.path.join(core.VERIF, "baselines", "xmlerrs_fatal.json")))
    lost = [n for n in base["fatal"] if n in cls_of and cls_of[n] != "F"]
    gone = [n for n in base["fatal"] if n not in cls_of]
    if gone:
        raise AnalysisBroken("fatal-family enumerators vanished from XMLErrs::Codes: %s" % gone[:5])
    for n in base["fatal"]:
        rep.count()
    rep.ob("C02.b/fatal-family", "XMLErrs F family (%d codes)" % len(base["fatal"]), not lost,
           "all remain fatal" if not lost else "no longer fatal: %s" % lost, en["file"],
           detail={"lost": lost})
    for n in lost:
        rep.ob("C02.b/fatal-family", "XMLErrs::" + n, False, "well-formedness diagnostic %s is no longer in the fatal range" % n, en["file"])
    return cls_of, items


def messages_rule(rep, f, cls_of, items):
    rep.rule("C02.b/messages", "gXMLErrArray has one NUL-terminated row (<=127 chars, <=4 replacement tokens) for every "
             "XMLErrs code; gXMLErrArraySize does not exceed the number of rows; enum order, severity section and text "
             "agree with the NLS source XMLErrList_EN_US.Xml")
    arr = f.table("gXMLErrArray")["v"]
    size = f.table("gXMLErrArraySize")["v"]
    maxcode = max(v for n, v in items.items())
    if size > len(arr):
        rep.notes.append("observation (outside the rule): gXMLErrArraySize=%d exceeds the %d rows; ids beyond the enum are never passed" % (size, len(arr)))
    rep.ob("C02.b/messages", "extent", maxcode <= len(arr) and maxcode <= size,
           "rows=%d size=%d max code=%d: every code has a row and passes the size test" % (len(arr), size, maxcode), "src/xercesc/util/MsgLoaders/InMemory/XercesMessages_en_US.hpp")
    bad = []
    texts = {}
    for i, row in enumerate(arr):
        rep.count()
        if 0 not in row:
            bad.append(i)
            continue
        s = "".join(chr(c) for c in row[:row.index(0)])
        texts[i + 1] = s
        if s.count("{") > 4:
            bad.append(i)
    rep.ob("C02.b/messages", "rows", not bad, "%d rows NUL-terminated" % len(arr) if not bad else "rows %s unterminated or too many tokens" % bad[:5],
           "src/xercesc/util/MsgLoaders/InMemory/XercesMessages_en_US.hpp")
    # NLS agreement
    p = os.path.join(core.REPO, "src/xercesc/NLS/EN_US/XMLErrList_EN_US.Xml")
    if not os.path.exists(p):
        raise AnalysisBroken("NLS source vanished: " + p)
    src = open(p, encoding="utf-8", errors="replace").read()
    # drop the DOCTYPE (external DTD is not needed)
    import re
    src = re.sub(r"<!DOCTYPE[^>]*>", "", src)
    root = ET.fromstring(src.encode("utf-8"))
    dom = [d for d in root.iter("MsgDomain") if d.get("Domain", "").endswith("XMLErrors")]
    if len(dom) != 1:
        raise AnalysisBroken("XMLErrors domain not found in NLS source")
    sec = {"Warning": "W", "Error": "E", "FatalError": "F"}
    nls = {}
    for s in dom[0]:
        if s.tag in sec:
            for m in s.iter("Message"):
                nls[m.get("Id")] = (sec[s.tag], m.get("Text"))
    dis = []
    for name, c in cls_of.items():
        rep.count()
        if name not in nls:
            dis.append("%s missing in NLS" % name)
        elif nls[name][0] != c:
            dis.append("%s: enum range %s, NLS section %s" % (name, c, nls[name][0]))
        elif texts.get(items[name]) != nls[name][1]:
            dis.append("%s: message row differs from NLS text" % name)
    rep.ob("C02.b/nls", "XMLErrs<->NLS", not dis, "%d codes agree in severity and text" % len(cls_of) if not dis else "; ".join(dis[:6]), "src/xercesc/NLS/EN_US/XMLErrList_EN_US.Xml")


TUS = ["src/xercesc/util/XMLChar.cpp", "src/xercesc/util/MsgLoaders/InMemory/InMemMsgLoader.cpp",
       "src/xercesc/internal/XMLReader.cpp"]


CHARDATA = [("IGXMLScanner::scanCharData", "src/xercesc/internal/IGXMLScanner2.cpp"),
            ("DGXMLScanner::scanCharData", "src/xercesc/internal/DGXMLScanner.cpp"),
            ("SGXMLScanner::scanCharData", "src/xercesc/internal/SGXMLScanner.cpp"),
            ("WFXMLScanner::scanCharData", "src/xercesc/internal/WFXMLScanner.cpp")]


def _ifs_to(node, pred, chain, out):
    """chains of enclosing `if` nodes (outermost first) of every call satisfying pred."""
    if not isinstance(node, list) or not node:
        return
    if isinstance(node[0], list):
        for c in node:
            _ifs_to(c, pred, chain, out)
        return
    if node[0] == "c" and pred(node):
        out.append(list(chain))
    if node[0] == "if":
        chain = chain + [node]
    for c in node[1:]:
        if isinstance(c, list):
            _ifs_to(c, pred, chain, out)


def _machine_shape(node, is_emit):
    """is the subtree made only of if / block / assignments to one local / the emit call?  -> (ok, set of assigned locals)"""
    assigned = set()

    def walk(n):
        if n is None:
            return True
        t = n[0]
        if t == "block":
            return all(walk(c) for c in n[1])
        if t == "if":
            return walk(n[2]) and walk(n[3])
        if t == "expr":
            x = n[1]
            if x[0] == "b" and x[1] == "=" and x[2][0] == "l":
                assigned.add(x[2][1])
                return True
            return x[0] == "c" and is_emit(x)
        return False
    return walk(node), assigned


def cdend_rule(rep):
    rep.rule("C02.c", "the `]]>` detector of character data (XML 1.0 production [14] CharData): in scanCharData of each scanner the "
             "statement that keeps the bracket state machine up to date, folded over every (state, character class, escaped) "
             "combination, implements exactly: `]` takes Waiting->GotOne, GotOne->GotTwo, GotTwo->GotTwo; `>` in GotTwo reports "
             "BadSequenceInCharData; `>` and every other character return to Waiting; a character that came from a character "
             "reference never advances the machine. A machine that forgets the two brackets on a third one accepts `]]]>`")
    is_emit = lambda x: x[0] == "c" and x[1].endswith("::emitError") and any(
        isinstance(a, list) and a and a[0] == "e" and a[1] == "XMLErrs::BadSequenceInCharData" for a in x[3])
    pat = "^(" + "|".join(q.replace("::", "::") for q, _ in CHARDATA) + ")$"
    g = core.run_xa([os.path.join(core.REPO, fl) for _, fl in CHARDATA], st=pat, tables=r"^ch(CloseSquare|CloseAngle)$", flat=False)
    CS, CA = g.table("chCloseSquare")["v"], g.table("chCloseAngle")["v"]
    if (CS, CA) != (0x5D, 0x3E):
        raise AnalysisBroken("chCloseSquare / chCloseAngle are not U+005D / U+003E")
    n = 0
    for q, fl in CHARDATA:
        body = g.st(q)["body"]
        chains = []
        _ifs_to(body, is_emit, [], chains)
        if len(chains) != 1:
            raise AnalysisBroken("%s: expected exactly one BadSequenceInCharData report, found %d" % (q, len(chains)))
        node = None
        for cand in chains[0]:
            ok, assigned = _machine_shape(cand, is_emit)
            if ok and len(assigned) == 1:
                node = cand
                break
        if node is None:
            raise AnalysisBroken("%s: the statement updating the `]]>` state machine is not of the modelled shape" % q)
        S = list(assigned)[0]
        # free variables of the machine and their finite domains
        chars, bools, states = {}, set(), {}
        for x in core.sx_walk(node):
            if not isinstance(x, list) or not x:
                continue
            if x[0] == "e" and "::State_" in x[1]:
                states[x[1].split("::")[-1]] = x[2]
            if x[0] == "b" and x[1] in ("==", "!=") and x[2][0] == "l" and x[2][1] != S and x[3][0] in ("g", "i"):
                chars.setdefault(x[2][1], set())
            elif x[0] == "l" and x[1] != S:
                bools.add(x[1])
        bools -= set(chars)
        want_states = {"State_Waiting", "State_GotOne", "State_GotTwo"}
        if set(states) != want_states or len(chars) != 1 or len(bools) != 1:
            raise AnalysisBroken("%s: `]]>` machine has states %s, character variables %s, flags %s — not the modelled shape" % (
                q, sorted(states), sorted(chars), sorted(bools)))
        CH, ESC = list(chars)[0], list(bools)[0]
        W, G1, G2 = states["State_Waiting"], states["State_GotOne"], states["State_GotTwo"]
        name = {W: "Waiting", G1: "GotOne", G2: "GotTwo"}
        for st0 in (W, G1, G2):
            for ch, cname in ((CS, "]"), (CA, ">"), (0x41, "other")):
                for esc in (0, 1):
                    emitted = []

                    def call(x, env, emitted=emitted):
                        if is_emit(x):
                            emitted.append(1)
                            return 0
                        raise sxeval.Unmodelled("call in the `]]>` state machine")
                    env = sxeval.run_env(node, {S: st0, CH: ch, ESC: esc, "chCloseSquare": CS, "chCloseAngle": CA, "__call__": call})
                    got = (env[S], bool(emitted))
                    if esc:
                        want = (W, False)
                    elif ch == CS:
                        want = ({W: G1, G1: G2, G2: G2}[st0], False)
                    elif ch == CA:
                        want = (W, st0 == G2)
                    else:
                        want = (W, False)
                    n += 1
                    key = "%s/%s/%s%s" % (q, name[st0], cname, "/escaped" if esc else "")
                    rep.ob("C02.c", key, got == want, "-> %s%s" % (name[got[0]], ", reports" if got[1] else "") if got == want else
                           "%s: in state %s a %s`%s` goes to %s%s; the production requires %s%s" % (
                               q, name[st0], "character-reference " if esc else "", cname, name.get(got[0], got[0]),
                               " and reports BadSequenceInCharData" if got[1] else " without a report", name[want[0]],
                               " and a BadSequenceInCharData report" if want[1] else " without a report"), fl)
    rep.floor("C02.c", n, 72)


NAME_SCANNERS = ("XMLReader::getName", "XMLReader::getNCName", "XMLReader::getQName", "XMLReader::getNextCharIfNot")


def name_surrogate_rule(rep):
    rep.rule("C02.a/names", "supplementary name characters are exactly [#x10000-#xEFFFF] (productions [4],[4a]): in the name scanners "
             "of XMLReader (getName, getNCName, and what they inline) every literal of the surrogate range that takes part in a "
             "comparison is one of D800, DB7F (last lead surrogate of U+EFFFF), DC00, DFFF, and the lead-surrogate upper bound DB7F "
             "is present wherever a lead surrogate is tested — DBFF there would take U+F0000..U+10FFFF, which are characters but "
             "not name characters, into names")
    g = core.run_xa([os.path.join(core.REPO, "src/xercesc/internal/XMLReader.cpp")], st=r"^XMLReader::(getName|getNCName)$", flat=False)
    n = 0
    for q in ("XMLReader::getName", "XMLReader::getNCName"):
        for st in g.sts.get(q, []):
            lits = {}
            for x in core.sx_walk(st["body"]):
                if isinstance(x, list) and len(x) == 4 and x[0] == "b" and x[1] in ("<", "<=", ">", ">=", "==", "!="):
                    for side in (x[2], x[3]):
                        if isinstance(side, list) and side and side[0] == "i" and 0xD800 <= side[1] <= 0xDFFF:
                            lits[side[1]] = lits.get(side[1], 0) + 1
            if not lits:
                raise AnalysisBroken("%s no longer tests surrogates" % q)
            n += 1
            bad = sorted(v for v in lits if v not in (0xD800, 0xDB7F, 0xDC00, 0xDFFF))
            ok = not bad and lits.get(0xDB7F, 0) >= 1 and lits.get(0xDB7F, 0) == lits.get(0xD800, 0)
            rep.ob("C02.a/names", q, ok, "surrogate literals %s" % {hex(k): v for k, v in sorted(lits.items())} if ok else
                   "%s compares against %s in a name scanner (expected only D800, DB7F, DC00, DFFF with every lead test bounded by "
                   "DB7F): characters above U+EFFFF would be taken into names" % (q, {hex(k): v for k, v in sorted(lits.items())}),
                   "src/xercesc/internal/XMLReader.cpp:%s" % st.get("line", 0))
    rep.floor("C02.a/names", n, 2)


def run(rep):
    tus = [os.path.join(core.REPO, t) for t in TUS]
    diag_tus = diag.tus_for("C02")
    thorough = rep.tier == "thorough"
    alltus = sorted(set(tus) | set(diag_tus)) if not thorough else core.library_tus()
    f = core.run_xa(alltus,
                    st=r"^XMLChar1_[01]::is|^XMLReader::(is[A-Z]\w*|setXMLVersion|XMLReader)$|^XMLErrs::",
                    tables=r"fgCharCharsTable1_|^g\w+Mask$|^gXMLErrArray",
                    flat=True)
    rep.units.update(os.path.relpath(t, core.REPO) for t in alltus)
    table_rule(rep, f)
    accessor_rule(rep, f)
    cdend_rule(rep)
    name_surrogate_rule(rep)
    from . import C15
    C15.slot_once_rule(rep, "C02.d")
    cls_of, items = severity_rule(rep, f)
    messages_rule(rep, f, cls_of, items)
    diag.run(rep, f, "C02")
    from ..engines import dispatch
    dispatch.run(rep, core.library_facts(), "C02")
    rep.undecided += ["that each guard's condition is exactly the production's condition",
                      "encoding legality (C05; truncated input at end of stream is rule C05.e)",
                      "absence of false fatal errors on well-formed input"]
    rep.assumptions += ["build configuration = the baseline's (ICU transcoder, in-memory message loader)",
                        "oracle: XML 1.0 5th ed. / XML 1.1 2nd ed. productions transcribed in verif/oracles/xmlchar.py"]
    return ("Static: character-class tables compared exhaustively with the productions; accessor/mask/table agreement; "
            "severity partition folded over every XMLErrs enumerator and compared with the NLS source and the frozen "
            "fatal family; fatal-diagnostic matrix per scanner role (baseline + sibling). Decides these structural "
            "necessary conditions, not the verdict on every document.")
