"""C19 — no external resource unless permitted; entity expansion bounded.

C19.a  who-may-open census (closed world over the library)
C19.b  flag gates: reference-driven opens unreachable under
       disableDefaultEntityResolution; external subset under !loadExternalDTD && !validate;
       schema load under !loadSchema && !ignoreLoadSchema; the flag is actually passed
C19.c  resolver first, and its answer wins; base = containing entity
C19.d  expansion accounting + recursion report after every entity push
C19.e  diagnostics matrix (DIAG)
"""
import os
import re

from .. import core
from ..core import AnalysisBroken, sx_walk, sx_str
from ..engines import diag, guard

OPEN_TYPES = ("LocalFileInputSource", "URLInputSource", "StdInInputSource", "BinFileInputStream",
              "CurlURLInputStream", "SocketNetAccessor", "BinHTTPURLInputStream", "UnixHTTPURLInputStream")
OPEN_CALLS = ("XMLURL::makeNewStream", "XMLNetAccessor::makeNew", "XMLPlatformUtils::openFile",
              "XMLPlatformUtils::openStdInHandle", "XMLFileMgr::fileOpen", "XMLFileMgr::openStdIn",
              "CurlNetAccessor::makeNew")

# confirmed openers: function -> (kind, role)
#  user     : opens what the application named (document / grammar / output)
#  ref      : opens what the *document* references -> must be gated (C19.b/c)
#  xinclude : opens an xi:include target, reachable only with XInclude processing on
#  impl     : implementation of an input source / stream class (opens when asked by one of the above)
OPENERS = {
    "ReaderMgr::createReader": ("ref", "external entity / external subset"),
    "IGXMLScanner::resolveSystemId": ("ref", "external DTD/schema system id"),
    "DGXMLScanner::resolveSystemId": ("ref", "external DTD system id"),
    "SGXMLScanner::resolveSystemId": ("ref", "schema system id"),
    "IGXMLScanner::resolveSchemaGrammar": ("ref", "schemaLocation hint"),
    "SGXMLScanner::resolveSchemaGrammar": ("ref", "schemaLocation hint"),
    "TraverseSchema::resolveSchemaLocation": ("ref", "import/include/redefine"),
    "XMLScanner::loadGrammar": ("ref", "grammar named by system id (resolver first, flag honoured)"),
    "XMLScanner::scanDocument": ("user", "the document itself"),
    "XMLScanner::scanFirst": ("user", "the document itself"),
    "XIncludeUtils::doXIncludeTEXTFileDOM": ("xinclude", "xi:include parse='text' target"),
    "LocalFileInputSource::makeStream": ("impl", "input source"),
    "StdInInputSource::makeStream": ("impl", "input source"),
    "URLInputSource::makeStream": ("impl", "input source"),
    "XMLURL::makeNewStream": ("impl", "URL stream factory"),
    "CurlNetAccessor::makeNew": ("impl", "net accessor"),
    "BinFileInputStream::BinFileInputStream": ("impl", "file stream"),
    "Wrapper4DOMLSInput::makeStream": ("impl", "DOMLSInput adapter: opens the systemId/publicId the application put in the LSInput"),
    "XMLPlatformUtils::openStdInHandle": ("impl", "platform"),
    "XMLPlatformUtils::openFile": ("impl", "platform"),
    "XMLPlatformUtils::openFileToWrite": ("impl", "platform: output file named by the application (format targets)"),
    "XMLPlatformUtils::Initialize": ("impl", "creates the net accessor object, opens nothing"),
}

FLAG_DISABLE = ("fDisableDefaultEntityResolution", "disableDefaultEntityResolution", "getDisableDefaultEntityResolution")


def _is_flag(x, names):
    if not isinstance(x, list) or not x:
        return False
    if x[0] == "f":
        return x[1].split("::")[-1] in names
    if x[0] == "p":
        return x[2] in names
    if x[0] == "l":
        return x[1] in names
    if x[0] == "c":
        return x[1].split("::")[-1] in names
    return False


def assume_flags(tv):
    """tv: {name: bool}; returns assume function for guard.eval_cond."""
    def a(leaf):
        for n, v in tv.items():
            if _is_flag(leaf, (n,)):
                return v
        return None
    return a


def is_open_node(x):
    if x[0] == "n" and x[1].split("::")[-1] in OPEN_TYPES:
        return True
    if x[0] == "k" and x[1].split("::")[-1] in OPEN_TYPES and x[1].split("::")[-1] not in ("BinFileInputStream",):
        return True
    return False


def census(rep, f):
    rep.rule("C19.a", "who-may-open census (closed world over all library units): construction of file/URL/stdin input "
             "sources and streams and calls to the platform/net open primitives occur only in the confirmed functions; "
             "each is typed user-named / reference-driven / xinclude / implementation")
    found = {}
    for x in f.kind("new"):
        t = x["x"][1].split("::")[-1]
        if t in OPEN_TYPES:
            found.setdefault(x["_fn"]["q"], []).append(("new " + t, x["_fn"]["file"], x["l"]))
    for x in f.kind("ctor"):
        t = x["type"].split("::")[-1]
        if t in OPEN_TYPES:
            q = x["_fn"]["q"]
            # a class constructing its own base/self is not an open site
            if x["_fn"].get("cls", "").split("::")[-1] == t or x["_fn"].get("ctor") and f.is_derived(x["_fn"].get("cls", ""), x["type"]):
                continue
            found.setdefault(q, []).append(("construct " + t, x["_fn"]["file"], x["l"]))
    for x in f.kind("call"):
        n = x["x"][1]
        if n in OPEN_CALLS:
            found.setdefault(x["_fn"]["q"], []).append(("call " + n, x["_fn"]["file"], x["l"]))
    n = 0
    for q, ss in sorted(found.items()):
        n += len(ss)
        ok = q in OPENERS
        rep.ob("C19.a", q, ok,
               ("%s opener: %s" % OPENERS[q]) if ok else
               "function %s opens an external resource (%s) but is not a confirmed opener" % (q, ", ".join(s[0] for s in ss)),
               "%s:%d" % (ss[0][1], ss[0][2]), detail={"sites": ss})
    rep.count(n)
    rep.floor("C19.a", len(found), 15)
    for q in ("ReaderMgr::createReader", "IGXMLScanner::resolveSystemId", "TraverseSchema::resolveSchemaLocation"):
        if q not in found:
            raise AnalysisBroken("confirmed opener %s no longer opens anything (renamed?)" % q)
    return found


def cfgs_for(names, f):
    """targeted parse: CFGs of the named functions (all overloads)."""
    tus = set()
    for q in names:
        fns = f.fns_named(q)
        if not fns:
            raise AnalysisBroken("anchor function %s vanished" % q)
        for fn in fns:
            if fn["file"].endswith(".cpp"):
                tus.add(os.path.join(core.REPO, fn["file"]))
    rx = "^(" + "|".join(re.escape(q) for q in sorted(names)) + ")$"
    g = core.run_xa(sorted(tus), cfg=rx, flat=False)
    out = {}
    for q in names:
        cs = [guard.Cfg(c) for c in g.cfgs.get(q, [])]
        if not cs:
            raise AnalysisBroken("no CFG for %s" % q)
        for c, raw in zip(cs, g.cfgs.get(q, [])):
            c.sig = raw["sig"]
        out[q] = cs
    return out, sorted(tus)


def gates(rep, f, found, cfgs):
    rep.rule("C19.b", "flag gates (CFG, unreachable-under-assumption): every reference-driven open site is unreachable when "
             "the disableDefaultEntityResolution flag (field, parameter or getter) is true; the external-subset reader in "
             "IG/DG scanDocTypeDecl is unreachable under !fLoadExternalDTD && !fValidate; the schema load in "
             "resolveSchemaGrammar is unreachable under !fLoadSchema && !ignoreLoadSchema; user-named sites stay reachable "
             "(control); every call of the gated ReaderMgr::createReader overloads passes the scanner's flag")
    n = 0
    for q, (kind, _) in OPENERS.items():
        if q not in found or kind not in ("ref", "user"):
            continue
        for cfg in cfgs[q]:
            ss = guard.sites(cfg, is_open_node)
            if not ss:
                continue
            live = guard.reachable_sites(cfg, is_open_node, assume_flags({n_: True for n_ in FLAG_DISABLE}))
            n += len(ss)
            rep.count(len(ss))
            key = "%s%s" % (q, cfg.sig)
            if kind == "ref":
                ok = not live
                rep.ob("C19.b/disable", key, ok,
                       "%d open site(s), all unreachable when default entity resolution is disabled" % len(ss) if ok else
                       "open site(s) at line(s) %s reachable although default entity resolution is disabled" %
                       [el.get("l") for _, _, el in live], "%s:%s" % (cfg.file, ss[0][2].get("l")),
                       detail={"reachable_lines": [el.get("l") for _, _, el in live]})
            else:
                # positive control of the engine: user-named sites must stay reachable
                if len(live) != len(ss):
                    raise AnalysisBroken("engine control failed: user-named open sites of %s pruned by the disable flag" % q)
    rep.floor("C19.b/disable", n, 20)

    # external subset gate
    def is_create_reader(x):
        return x[0] == "c" and x[1] == "ReaderMgr::createReader"
    for q in ("IGXMLScanner::scanDocTypeDecl", "DGXMLScanner::scanDocTypeDecl"):
        for cfg in cfgs[q]:
            ss = guard.sites(cfg, is_create_reader)
            if not ss:
                raise AnalysisBroken("%s no longer calls ReaderMgr::createReader" % q)
            live = guard.reachable_sites(cfg, is_create_reader, assume_flags({"fLoadExternalDTD": False, "fValidate": False}))
            rep.ob("C19.b/extsubset", q, not live,
                   "external subset reader unreachable when external DTD loading and validation are both off" if not live else
                   "createReader at line %s reachable with fLoadExternalDTD=false and fValidate=false" % [el.get("l") for _, _, el in live],
                   "%s:%s" % (cfg.file, ss[0][2].get("l")))
            live2 = guard.reachable_sites(cfg, is_create_reader, assume_flags({"fLoadExternalDTD": True}))
            if not live2:
                raise AnalysisBroken("engine control failed: %s createReader unreachable with fLoadExternalDTD=true" % q)

    def is_schema_load(x):
        return (x[0] == "c" and x[1].split("::")[-1] in ("resolveSystemId", "loadXMLSchemaGrammar", "parse")) or is_open_node(x)
    for q in ("IGXMLScanner::resolveSchemaGrammar", "SGXMLScanner::resolveSchemaGrammar"):
        for cfg in cfgs[q]:
            def is_load(x):
                return is_open_node(x) or (x[0] == "c" and x[1].split("::")[-1] == "resolveEntity")
            ss = guard.sites(cfg, is_load)
            if not ss:
                raise AnalysisBroken("%s has no load site" % q)
            live = guard.reachable_sites(cfg, is_load, assume_flags({"fLoadSchema": False, "ignoreLoadSchema": False}))
            rep.ob("C19.b/loadschema", q, not live,
                   "%d schema fetch site(s) unreachable with fLoadSchema=false" % len(ss) if not live else
                   "schema fetch at line %s reachable with fLoadSchema=false and ignoreLoadSchema=false" % [el.get("l") for _, _, el in live],
                   "%s:%s" % (cfg.file, ss[0][2].get("l")))

    # the flag is passed at every call of the gated createReader overloads
    k = 0
    for x in f.kind("call"):
        c = x["x"]
        if c[1] != "ReaderMgr::createReader" or "const bool)" not in (c[4] or "") or c[4].count(",") < 9:
            continue
        last = c[3][-1] if c[3] else None
        ok = last is not None and any(_is_flag(s, FLAG_DISABLE) for s in sx_walk(last)) and last[0] != "def"
        k += 1
        rep.ob("C19.b/flag-passed", "%s@createReader#%d" % (x["_fn"]["q"], k), ok,
               "passes %s" % sx_str(last) if ok else "calls the gated createReader with %s instead of the disable flag" % sx_str(last),
               "%s:%d" % (x["_fn"]["file"], x["l"]))
    rep.floor("C19.b/flag-passed", k, 6)


def resolver_first(rep, f, found, cfgs):
    rep.rule("C19.c", "resolver first (CFG): in every reference-driven opener the default construction is unreachable once "
             "the variable assigned from fEntityHandler->resolveEntity(..) is non-null, and — with an entity handler "
             "installed — every path to it passes the resolveEntity call; the XMLResourceIdentifier handed to the resolver "
             "carries the containing entity's system id (getLastExtEntityInfo / getCurrentSchemaURL / base URI parameter)")
    n = 0
    for q, (kind, _) in OPENERS.items():
        if kind != "ref" or q not in found:
            continue
        for cfg in cfgs[q]:
            ss = guard.sites(cfg, is_open_node)
            if not ss:
                continue
            # variable assigned from resolveEntity
            var = None
            res_sites = 0
            for bid, i, el in cfg.elements():
                for x in guard.el_sx(el):
                    if x[0] == "b" and x[1] == "=" and isinstance(x[3], list) and x[3][0] == "c" and x[3][1].endswith("::resolveEntity"):
                        var = x[2]
                        res_sites += 1
            key = "%s%s" % (q, cfg.sig)
            if var is None:
                rep.ob("C19.c/resolver", key, False, "opens a referenced resource without offering it to the entity resolver",
                       "%s:%s" % (cfg.file, ss[0][2].get("l")))
                continue

            def a_nonnull(leaf, var=var):
                return True if leaf == var else None
            live = guard.reachable_sites(cfg, is_open_node, a_nonnull)
            ok1 = not live

            def a_handler(leaf):
                return True if (leaf[0] == "f" and leaf[1].endswith("::fEntityHandler")) else None
            pruned = guard.reachable(cfg, a_handler)

            def isA(el):
                return any(x[0] == "c" and x[1].endswith("::resolveEntity") for x in guard.el_top_calls(el))

            def isB(el):
                return any(is_open_node(x) for x in guard.el_top_calls(el))
            pcfg = _pruned(cfg, a_handler)
            pr = guard.must_precede(pcfg, isA, isB)
            ok2 = all(ok for b, i, el, ok in pr if b in pruned)
            n += 1
            rep.ob("C19.c/resolver", key, ok1 and ok2,
                   "resolver consulted before, and its source used instead of, %d default open site(s)" % len(ss) if ok1 and ok2 else
                   ("default open site reachable although the resolver supplied a source (lines %s)" % [el.get("l") for _, _, el in live]
                    if not ok1 else "a path reaches the default open site without calling resolveEntity"),
                   "%s:%s" % (cfg.file, ss[0][2].get("l")))
    rep.floor("C19.c/resolver", n, 9)
    # base of the resource identifier
    k = 0
    BASES = ("systemId", "getCurrentSchemaURL", "baseURI", "getSystemId")
    for x in f.kind("ctor"):
        if x["type"] != "XMLResourceIdentifier":
            continue
        q = x["_fn"]["q"]
        if OPENERS.get(q, ("",))[0] != "ref":
            continue
        args = x["a"]
        if len(args) < 5:
            continue
        base = args[4]
        names = set()
        for s in sx_walk(base):
            if s[0] == "f":
                names.add(s[1].split("::")[-1])
            elif s[0] == "c":
                names.add(s[1].split("::")[-1])
            elif s[0] in ("l",):
                names.add(s[1])
            elif s[0] == "p":
                names.add(s[2])
        ok = bool(names & set(BASES)) or "lastInfo" in names
        k += 1
        rep.ob("C19.c/base", "%s@XMLResourceIdentifier#%d" % (q, k), ok,
               "base URI argument %s" % sx_str(base), "%s:%d" % (x["_fn"]["file"], x["l"]))
    rep.floor("C19.c/base", k, 8)
    # entity declarations record the base URI of the entity that contains the declaration
    k = 0
    for x in f.kind("call"):
        c = x["x"]
        if c[1].split("::")[-1] != "setBaseURI" or not x["_fn"]["q"].startswith("DTDScanner::"):
            continue
        arg = c[3][0] if c[3] else None
        prov = set()
        for s in sx_walk(arg):
            if s[0] == "l":
                prov.add(s[1])
            if s[0] == "f":
                prov.add(s[1].split("::")[-1])
        # the local must be filled by getLastExtEntityInfo in the same function
        fn = x["_fn"]
        fills = [y for y in fn["_facts"] if y["k"] == "call" and y["x"][1] == "ReaderMgr::getLastExtEntityInfo"]
        ok = bool(fills) and any(a and a[0] == "l" and a[1] in prov for y in fills for a in y["x"][3])
        k += 1
        rep.ob("C19.c/declbase", "%s@setBaseURI#%d" % (fn["q"], k), ok,
               "entity base URI taken from the last external entity (%s)" % sx_str(arg) if ok else
               "entity base URI %s does not come from ReaderMgr::getLastExtEntityInfo" % sx_str(arg),
               "%s:%d" % (fn["file"], x["l"]))
    rep.floor("C19.c/declbase", k, 1)


def _pruned(cfg, assume):
    """copy of cfg with edges contradicting `assume` removed."""
    import copy
    raw = {"q": cfg.q, "file": cfg.file, "entry": cfg.entry, "exit": cfg.exit, "blocks": []}
    for bid, blk in cfg.blocks.items():
        nb = dict(blk)
        succ = list(blk["succ"])
        if "term" in blk and len(succ) == 2 and blk["term"]["kind"] != "SwitchStmt":
            v = guard.eval_cond(blk["term"].get("cond"), assume)
            if v is True:
                succ = [succ[0]]
            elif v is False:
                succ = [succ[1]]
        nb["succ"] = succ
        raw["blocks"].append(nb)
    c = guard.Cfg(raw)
    c.sig = getattr(cfg, "sig", "")
    return c


PUSH_EXEMPT = {
    # pushes that are not expansions of an entity *reference*
    "IGXMLScanner::scanDocTypeDecl": "external subset (declared by DOCTYPE, not an entity reference)",
    "DGXMLScanner::scanDocTypeDecl": "external subset (declared by DOCTYPE, not an entity reference)",
    "IGXMLScanner::loadDTDGrammar": "user-named DTD grammar",
    "DGXMLScanner::loadDTDGrammar": "user-named DTD grammar",
}


def accounting(rep, f):
    rep.rule("C19.d", "entity expansion accounting (CFG, must-follow with a SecurityManager assumed installed): every "
             "ReaderMgr::pushReader/pushReaderAdoptEntity call that pushes an entity declaration is followed, on every normal "
             "path after a successful push, by the expansion accounting (pre-increment of fEntityExpansionCount compared "
             "'>' with fEntityExpansionLimit and leading to EntityExpansionLimitExceeded, or XMLScanner::countEntityExpansion), "
             "and a failed push (recursion) leads to a RecursiveEntity report")
    pushes = {}
    for x in f.kind("call"):
        c = x["x"]
        if c[1] in ("ReaderMgr::pushReader", "ReaderMgr::pushReaderAdoptEntity"):
            if len(c[3]) >= 2 and c[3][1] == ["i", 0]:
                continue
            q = x["_fn"]["q"]
            if q.startswith("ReaderMgr::"):
                continue
            pushes.setdefault(q, []).append(x)
    # the shared helper exists since fix c540837; a tree without it is judged by its push sites alone
    names = [q for q in pushes if q not in PUSH_EXEMPT] + (["XMLScanner::countEntityExpansion"] if f.by_q.get("XMLScanner::countEntityExpansion") else [])
    # every function that counts expansions is examined for the form of its limit comparison,
    # whether or not it pushes a reader (WF/SG expand only predefined entities but still count)
    counters = sorted(set(x["_fn"]["q"] for x in f.kind("fld")
                          if x["f"] == "XMLScanner::fEntityExpansionCount" and x["how"] == "inc"))
    if len(counters) < 4:
        raise AnalysisBroken("expansion counting sites vanished: %s" % counters)
    names += [q for q in counters if q not in names]
    # per-parse refresh: the limit is re-read from the SecurityManager and the counter cleared in every scanReset
    k = 0
    for q, fns in sorted(f.by_q.items()):
        if not q.endswith("::scanReset"):
            continue
        for fn in fns:
            if "InputSource" not in fn["sig"]:
                continue
            asg = [x for x in fn["_facts"] if x["k"] == "asg"]
            lim = any(x["lhs"][0] == "f" and x["lhs"][1] == "XMLScanner::fEntityExpansionLimit" and
                      any(s[0] == "c" and s[1].endswith("::getEntityExpansionLimit") for s in sx_walk(x["rhs"])) for x in asg)
            cnt = any(x["lhs"][0] == "f" and x["lhs"][1] == "XMLScanner::fEntityExpansionCount" and x["rhs"] == ["i", 0] for x in asg)
            k += 1
            rep.ob("C19.d/refresh", q, lim and cnt,
                   "re-reads the limit from the SecurityManager and clears the counter for every parse" if lim and cnt else
                   ("does not re-read fEntityExpansionLimit from the SecurityManager" if not lim else "does not clear fEntityExpansionCount"),
                   "%s:%d" % (fn["file"], fn["line"]))
    rep.floor("C19.d/refresh", k, 5)
    for q in PUSH_EXEMPT:
        if q in pushes:
            rep.notes.append("push in %s exempt from accounting: %s" % (q, PUSH_EXEMPT[q]))
    cfgs, tus = cfgs_for(names, f)
    rep.units.update(os.path.relpath(t, core.REPO) for t in tus)

    def is_push(el):
        return any(x[0] == "c" and x[1] in ("ReaderMgr::pushReader", "ReaderMgr::pushReaderAdoptEntity") for x in guard.el_top_calls(el))

    def limit_guard_blocks(cfg):
        """blocks whose terminator is the limit comparison with the right shape and whose true edge reports."""
        good = set()
        for bid, blk in cfg.blocks.items():
            t = blk.get("term")
            if not t or not t.get("cond"):
                continue
            c = t["cond"]
            if c[0] != "b" or c[1] not in (">", ">="):
                continue
            lhs, rhs = c[2], c[3]
            if not (rhs[0] == "f" and rhs[1].endswith("::fEntityExpansionLimit")):
                continue
            if not (lhs[0] == "u" and lhs[2][0] == "f" and lhs[2][1].endswith("::fEntityExpansionCount")):
                continue
            form_ok = (lhs[1] == "++" and c[1] == ">") or (lhs[1] == "++post" and c[1] == ">=")
            # the true edge must report EntityExpansionLimitExceeded
            tb = blk["succ"][0]
            rep_ok = False
            seen = set()
            work = [tb]
            while work and len(seen) < 6:
                b2 = work.pop()
                if b2 in seen or b2 is None:
                    continue
                seen.add(b2)
                for el in cfg.blocks[b2]["els"]:
                    for x in guard.el_sx(el):
                        if guard.mentions(x, lambda s: s[0] == "e" and s[1].endswith("::EntityExpansionLimitExceeded")):
                            rep_ok = True
                work.extend(cfg.succs(b2))
            good.add((bid, form_ok, rep_ok, t["l"]))
        return good

    # the helper itself
    for cfg in cfgs.get("XMLScanner::countEntityExpansion", []):
        g = limit_guard_blocks(cfg)
        ok = bool(g) and all(fo and ro for _, fo, ro, _ in g)
        rep.ob("C19.d/limit", "XMLScanner::countEntityExpansion", ok,
               "pre-increment compared '>' with the limit, true edge reports EntityExpansionLimitExceeded" if ok else
               "limit comparison missing or of the wrong form %s" % sorted(g), cfg.file)

    sm = assume_flags({"fSecurityManager": True})
    n = 0
    for q in names:
        if q == "XMLScanner::countEntityExpansion":
            continue
        for cfg in cfgs[q]:
            g = limit_guard_blocks(cfg)
            gb = {b for b, _, _, _ in g}
            for b, fo, ro, ln in g:
                rep.ob("C19.d/limit", "%s@limit:%d" % (q, sorted(x[3] for x in g).index(ln)), fo and ro,
                       "pre-increment compared '>' with the limit, true edge reports EntityExpansionLimitExceeded" if fo and ro else
                       ("limit comparison has the wrong form (off by one)" if not fo else "limit exceeded branch does not report EntityExpansionLimitExceeded"),
                       "%s:%d" % (cfg.file, ln))

            def is_acc(el, cfg=cfg, gb=gb):
                for x in guard.el_top_calls(el):
                    if x[0] == "c" and x[1] == "XMLScanner::countEntityExpansion":
                        return True
                x = el.get("x")
                if x and x[0] == "u" and x[1] in ("++", "++post") and x[2][0] == "f" and x[2][1].endswith("::fEntityExpansionCount"):
                    return True
                return False
            pc = _pruned(cfg, sm)
            # state at block entry: accounting guaranteed on every normal path
            fol = guard.must_follow(pc, lambda el: False, is_acc)
            # compute INb via a second call: use helper below
            inb = _guaranteed_ahead(pc, is_acc)
            idx = 0
            for bid, blk in pc.blocks.items():
                for i, el in enumerate(blk["els"]):
                    if not is_push(el):
                        continue
                    idx += 1
                    n += 1
                    # success / failure edges
                    t = blk.get("term")
                    key = "%s@push#%d" % (q, idx)
                    where = "%s:%s" % (cfg.file, el.get("l"))
                    if any(is_acc(e2) for e2 in blk["els"][i + 1:]):
                        rep.ob("C19.d/account", key, True, "accounting follows in the same block", where)
                        continue
                    if not t or len(blk["succ"]) != 2 or not t.get("cond"):
                        # unconditional push: accounting must be ahead on all normal paths
                        ok = all(inb.get(s, False) for s in pc.succs(bid))
                        rep.ob("C19.d/account", key, ok, "unconditional push followed by accounting" if ok else
                               "entity pushed with no expansion accounting on some normal path", where)
                        continue
                    c = t["cond"]
                    neg = c[0] == "u" and c[1] == "!"
                    succ_ok, succ_fail = (blk["succ"][1], blk["succ"][0]) if neg else (blk["succ"][0], blk["succ"][1])
                    ok = inb.get(succ_ok, False)
                    rep.ob("C19.d/account", key, ok,
                           "successful push is followed by expansion accounting on every normal path" if ok else
                           "entity pushed at line %s with no expansion accounting on some normal path (SecurityManager limit not enforced)" % el.get("l"),
                           where)
                    # recursion report on the failure edge
                    rec = False
                    seen = set()
                    work = [succ_fail]
                    while work and len(seen) < 4:
                        b2 = work.pop()
                        if b2 in seen or b2 is None:
                            continue
                        seen.add(b2)
                        for e2 in pc.blocks[b2]["els"]:
                            for x in guard.el_sx(e2):
                                if guard.mentions(x, lambda s: s[0] == "e" and s[1].endswith("::RecursiveEntity")):
                                    rec = True
                        if not rec:
                            work.extend(pc.succs(b2))
                    rep.ob("C19.d/recursive", key, rec,
                           "failed push (recursive entity) reports RecursiveEntity" if rec else
                           "failed push (recursive entity) is not reported", where)
    rep.floor("C19.d/account", n, 8)


def _guaranteed_ahead(cfg, is_b):
    INb = {b: True for b in cfg.blocks}
    hasB = {bid: any(is_b(el) for el in blk["els"]) for bid, blk in cfg.blocks.items()}
    INb[cfg.exit] = False
    changed = True
    while changed:
        changed = False
        for bid in cfg.blocks:
            if bid == cfg.exit:
                continue
            if cfg.throws(bid):
                out = True
            else:
                ss = cfg.succs(bid)
                out = all(INb[s] for s in ss) if ss else True
            inn = out or hasB[bid]
            if inn != INb[bid]:
                INb[bid] = inn
                changed = True
    return INb


def no_dtd_scanners(rep, f):
    rep.rule("C19.e", "scanners documented to ignore DTDs (WFXMLScanner, SGXMLScanner, XSAXMLScanner) have no call path "
             "(own-object closure) to an external-entity ReaderMgr::createReader overload or to a DTDScanner")
    for S in ("WFXMLScanner", "SGXMLScanner"):
        fam = [S] + diag._bases(f, S)
        bad = []
        n = 0
        for q, fns in f.by_q.items():
            for fn in fns:
                if fn.get("cls") != S:
                    continue
                n += 1
                for x in fn["_facts"]:
                    if x["k"] == "call" and x["x"][1] == "ReaderMgr::createReader" and x["x"][4].count(",") >= 7:
                        bad.append("%s:%d createReader(external id)" % (fn["q"], x["l"]))
                    if x["k"] in ("new", "ctor") and (x.get("type") or x["x"][1]).split("::")[-1] == "DTDScanner":
                        bad.append("%s:%d constructs DTDScanner" % (fn["q"], x["l"]))
        rep.count(n)
        rep.ob("C19.e", S, not bad, "%d member functions, none fetches an external entity or runs the DTD scanner" % n if not bad else
               "; ".join(bad), "class " + S)


def recursion_decl_rule(rep, f):
    rep.rule("C19.d/decl", "recursion is detectable: ReaderMgr's recursion check walks the stack of *entity declarations* of the readers "
             "pushed so far and is skipped for a reader pushed without one; every reader pushed for an entity reference (the "
             "pushReader / pushReaderAdoptEntity calls in scanEntityRef / expandPERef / scanPERef of the scanners and the DTD "
             "scanner) therefore passes its declaration unconditionally — never a null, never a conditional with a null branch")
    n = 0
    for x in f.kind("call"):
        c = x["x"]
        if c[1] not in ("ReaderMgr::pushReader", "ReaderMgr::pushReaderAdoptEntity") or len(c[3]) < 2:
            continue
        q = x["_fn"]["q"]
        if q.split("::")[-1] not in ("scanEntityRef", "expandPERef", "scanPERef"):
            continue
        n += 1
        a = c[3][1]
        nullish = a == ["i", 0] or any(isinstance(y, list) and y and y[0] == "?" and (y[2] in (["i", 0], ["cast", "XMLEntityDecl *", ["i", 0]]) or
                                                                                        y[3] in (["i", 0], ["cast", "XMLEntityDecl *", ["i", 0]]) or
                                                                                        ["i", 0] in (y[2], y[3]) or
                                                                                        any(z == ["i", 0] for z in sx_walk(y[2])) or any(z == ["i", 0] for z in sx_walk(y[3])))
                                       for y in sx_walk(a))
        rep.ob("C19.d/decl", "%s@push:%s" % (q, x.get("l")), not nullish, "declaration passed: %s" % sx_str(a) if not nullish else
               "%s (line %s) pushes the reader of an entity with the declaration argument %s, which can be null: the recursion check is "
               "skipped for that reader and a self-referential entity expands without end" % (q, x.get("l"), sx_str(a)),
               "%s:%s" % (x["_fn"]["file"], x.get("l", 0)))
    rep.floor("C19.d/decl", n, 8)


def run(rep):
    f = core.library_facts()
    rep.units.update(os.path.relpath(t, core.REPO) for t in f.tus)
    found = census(rep, f)
    names = [q for q, (k, _) in OPENERS.items() if q in found and k in ("ref", "user")]
    names += ["IGXMLScanner::scanDocTypeDecl", "DGXMLScanner::scanDocTypeDecl"]
    cfgs, tus = cfgs_for(sorted(set(names)), f)
    gates(rep, f, found, cfgs)
    resolver_first(rep, f, found, cfgs)
    accounting(rep, f)
    recursion_decl_rule(rep, f)
    no_dtd_scanners(rep, f)
    diag.run(rep, f, "C19")
    rep.undecided += ["RFC 2396 resolution results (XMLURL/XMLUri arithmetic)",
                      "that the expansion count bounds run time (value-level)",
                      "xi:include targets are fetched by default resolution even when default entity resolution is disabled (remark)"]
    rep.assumptions += ["flag expressions are the field/parameter/getter named (f)DisableDefaultEntityResolution, fLoadExternalDTD, fValidate, fLoadSchema, ignoreLoadSchema",
                        "platform back-ends compiled in this configuration only (curl net accessor, POSIX file manager)"]
    return ("Static: closed-world census of every construct that can open a file/URL/stdin; CFG reachability of each "
            "reference-driven open site under the disabling flags; resolver-first dominance and provenance of the base URI; "
            "must-follow of expansion accounting and recursion report after every entity push; diagnostics matrix. Decides "
            "these structural necessary conditions, not URI arithmetic or run-time bounds.")
