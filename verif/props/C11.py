"""C11 — regular expressions match exactly the language their syntax defines.

C11.a  token / operation dispatch coverage (DISPATCH): compile, match, the four Token analyses, the parsers
C11.b  Unicode block table: names and ranges are parallel, ranges well-formed, ascending and disjoint
C11.c  regex diagnostics matrix (DIAG): malformed expressions are rejected with the confirmed ParseException codes
C11.d  pure matching: matches/tokenize/replace and every member they reach assign no member of the compiled expression
"""
import os

from .. import core
from ..core import AnalysisBroken
from ..engines import diag, dispatch
from . import C17

BRF = "src/xercesc/util/regx/BlockRangeFactory.cpp"


def block_rule(rep):
    rep.rule("C11.b", "Unicode block table (BlockRangeFactory): BLOCKNAMESIZE equals the number of block names, blockRanges holds exactly "
             "one [first,last] pair per name, every pair has first <= last, the pairs are ascending and disjoint (the private-use / "
             "specials entries that the code patches by hand excepted), and the names are distinct")
    g = core.run_xa([os.path.join(core.REPO, BRF)], tables=r"^(BLOCKNAMESIZE|fgBlockNames|blockRanges)$", flat=False)
    n = g.table("BLOCKNAMESIZE", BRF)["v"]
    names = g.table("fgBlockNames", BRF)["v"]
    ranges = g.table("blockRanges", BRF)["v"]
    strs = ["".join(chr(c) for c in row[:row.index(0)]) if 0 in row else None for row in names]
    rep.count(len(ranges) + len(names))
    sz_ok = n == len(names) and (len(ranges) == 2 * n or (len(ranges) == 2 * n + 1 and ranges[-1] == 0))   # optional 0 sentinel
    rep.ob("C11.b", "sizes", sz_ok, "%d names, %d range pairs" % (len(names), len(ranges) // 2) if sz_ok else
           "BLOCKNAMESIZE=%d, %d names, %d range values: the parallel arrays disagree" % (n, len(names), len(ranges)), BRF)
    bad = [i for i, s in enumerate(strs) if s is None or not s.startswith("Is")]
    rep.ob("C11.b", "names", not bad and len(set(strs)) == len(strs), "all names NUL-terminated, distinct, of the form IsX" if not bad and len(set(strs)) == len(strs) else
           "block names %s are unterminated, duplicated or malformed" % bad[:5], BRF)
    pairs = [(ranges[2 * i], ranges[2 * i + 1]) for i in range(min(n, len(ranges) // 2))]
    inv = [i for i, (a, b) in enumerate(pairs) if a > b]
    rep.ob("C11.b", "well-formed", not inv, "every range has first <= last" if not inv else "ranges %s are inverted" % [strs[i] for i in inv[:5]], BRF)
    ov = []
    srt = sorted((a, b, i) for i, (a, b) in enumerate(pairs))
    for (a1, b1, i1), (a2, b2, i2) in zip(srt, srt[1:]):
        if a2 <= b1:
            ov.append((strs[i1], strs[i2]))
    rep.ob("C11.b", "disjoint", not ov, "the %d block ranges are pairwise disjoint" % len(pairs) if not ov else "overlapping blocks: %s" % ov[:4], BRF)
    asc = all(pairs[i][0] <= pairs[i + 1][0] for i in range(len(pairs) - 1))
    rep.ob("C11.b", "ascending", asc, "ranges are listed in ascending order" if asc else "the range table is no longer ascending", BRF)


def shift_table_rule(rep):
    rep.rule("C11.e", "writer/reader agreement of the Boyer-Moore shift table: BMPattern fills fShiftTable at index (character mod "
             "fShiftTableLen); every read of the table uses an index of the same form (directly or through a local assigned from it) — "
             "a reader that indexes differently skips real occurrences")
    g = core.run_xa([os.path.join(core.REPO, "src/xercesc/util/regx/BMPattern.cpp")], st=r"^BMPattern::", flat=False)
    from .C13 import _exprs
    from ..core import sx_walk, sx_str
    n = 0
    for q, sts in sorted(g.sts.items()):
        for s in sts:
            mod_locals = set()
            for e in _exprs(s["body"]):
                for y in sx_walk(e):
                    if y[0] == "b" and y[1] == "=" and y[2][0] == "l" and y[3][0] == "b" and y[3][1] == "%" and y[3][3] == ["f", "BMPattern::fShiftTableLen"]:
                        mod_locals.add(y[2][1])
            # declarations with initialiser
            def decls(st):
                if isinstance(st, list) and st:
                    if st[0] == "decl":
                        for d in st[1]:
                            if d[2] and d[2][0] == "b" and d[2][1] == "%" and d[2][3] == ["f", "BMPattern::fShiftTableLen"]:
                                mod_locals.add(d[0])
                    for y in st[1:]:
                        if isinstance(y, list):
                            if y and isinstance(y[0], list):
                                for z in y:
                                    decls(z)
                            else:
                                decls(y)
            decls(s["body"])
            for e in _exprs(s["body"]):
                stores = set()
                for y in sx_walk(e):
                    if y[0] == "b" and y[1] == "=" and y[2][0] == "x" and y[2][1] == ["f", "BMPattern::fShiftTable"]:
                        stores.add(id(y[2]))
                for y in sx_walk(e):
                    if y[0] == "x" and y[1] == ["f", "BMPattern::fShiftTable"]:
                        if id(y) in stores:
                            continue
                        idx = y[2]
                        ok = (idx[0] == "b" and idx[1] == "%" and idx[3] == ["f", "BMPattern::fShiftTableLen"]) or (idx[0] == "l" and idx[1] in mod_locals)
                        n += 1
                        rep.ob("C11.e", "%s@read:%d" % (q, n), ok, "reads fShiftTable[%s]" % sx_str(idx) if ok else
                               "%s reads fShiftTable[%s]: the table is filled at (character mod fShiftTableLen), so this lookup returns another "
                               "character's shift" % (q, sx_str(idx)), "%s:%d" % (s["file"], s["line"]))
    rep.floor("C11.e", n, 3)


def region_rule(rep, f):
    rep.rule("C11.f", "matching stays inside the requested region: Context::fLength is the *length* of the region [fStart, fLimit) of "
             "the target string, not a position; the matching routines bound every read by fLimit. Census over the library: "
             "fLength is read only by Context's own constructor / assignment (copying it) — a matcher that compares an offset "
             "with fLength reads past the region end whenever the region does not start at 0 (matches(s, start, end), tokenize, "
             "replace on a tail)")
    n, bad = 0, []
    for x in f.kind("fld"):
        if x["f"] == "RegularExpression::Context::fLength" and x["how"] == "read":
            n += 1
            if not x["_fn"]["q"].startswith("RegularExpression::Context::"):
                bad.append((x["_fn"]["q"], x["_fn"]["file"], x.get("l", 0)))
    lim = len([x for x in f.kind("fld") if x["f"] == "RegularExpression::Context::fLimit" and x["how"] == "read"
               and x["_fn"]["q"].startswith("RegularExpression::match")])
    rep.floor("C11.f", lim, 10)
    rep.ob("C11.f", "Context::fLength", not bad,
           "read only inside Context (%d copies); %d region-end (fLimit) reads in the matching routines" % (n, lim) if not bad else
           "%s (line %s) reads Context::fLength as a bound: the region length is not a position in the target string" % (bad[0][0], bad[0][2]),
           "%s:%s" % (bad[0][1], bad[0][2]) if bad else "src/xercesc/util/regx/RegularExpression.cpp")


def addrange_rule(rep):
    from ..engines import guard
    rep.rule("C11.g", "no range of a character class is dropped: on every normal path through RangeToken::addRange the new range's end "
             "is written into fRanges (stored as a new pair or as the extended end of an existing pair), or the path has passed the "
             "test that an existing range already contains it (CFG must-dataflow: generated by a store of the end value into "
             "fRanges and by the true edge of `fRanges[i+1] >= end`) — a path that falls through the sorted-insert loop without "
             "either silently removes part of the class (`[a-ec-z]` lost `f`..`z`)")
    tu = os.path.join(core.REPO, "src/xercesc/util/regx/RangeToken.cpp")
    g = core.run_xa([tu], cfg=r"^RangeToken::addRange$", flat=False)
    cfg = guard.Cfg(g.cfg("RangeToken::addRange"))
    # the local that carries the upper bound of the new range: assigned from `end` where start <= end holds
    ends = set()
    for bid, blk in cfg.blocks.items():
        t = blk.get("term")
        c = t and t.get("cond")
        if c and c[0] == "b" and c[1] == "<=" and c[2][0] == "p" and c[2][1] == 0 and c[3][0] == "p" and c[3][1] == 1 and blk["succ"][0] is not None:
            for el in cfg.blocks[blk["succ"][0]]["els"]:
                x = el.get("x")
                if x and x[0] == "b" and x[1] == "=" and x[2][0] == "l" and x[3][0] == "p" and x[3][1] == 1:
                    ends.add(x[2][1])
    if len(ends) != 1:
        raise AnalysisBroken("RangeToken::addRange: cannot identify the local holding the upper bound of the new range (%s)" % sorted(ends))
    E = ["l", list(ends)[0]]

    def is_ranges(x):
        return isinstance(x, list) and x and x[0] == "x" and x[1] == ["f", "RangeToken::fRanges"]

    def gen_el(el):
        x = el.get("x")
        return bool(x) and x[0] == "b" and x[1] == "=" and is_ranges(x[2]) and x[3] == E

    def gen_edge(p, k):
        t = cfg.blocks[p].get("term")
        c = t and t.get("cond")
        return bool(c) and k == 0 and c[0] == "b" and c[1] == ">=" and is_ranges(c[2]) and c[3] == E
    stores = [1 for _, _, el in cfg.elements() if gen_el(el)]
    rep.floor("C11.g", len(stores), 3)
    st = guard.must_state(cfg, gen_el=gen_el, gen_edge=gen_edge)
    # normal exits: the exit block's predecessors
    bad = []
    for p in cfg.preds[cfg.exit]:
        if cfg.throws(p):
            continue
        ok = st(p, len(cfg.blocks[p]["els"]))
        if not ok and gen_edge(p, [k for k, sx_ in enumerate(cfg.blocks[p]["succ"]) if sx_ == cfg.exit][0]):
            ok = True
        if not ok:
            bad.append(cfg.line_of(p) or 0)
    rep.ob("C11.g", "RangeToken::addRange", not bad,
           "every normal path records the range or has found it contained (%d stores of the end value)" % len(stores) if not bad else
           "RangeToken::addRange: a normal path reaches the end of the function (via line %s) without storing the new range and without "
           "having found it contained in an existing one — the range is dropped from the character class" % sorted(set(bad)),
           "src/xercesc/util/regx/RangeToken.cpp:%s" % (sorted(set(bad))[0] if bad else cfg.line_of(cfg.entry) or 0))


def boundary_rule(rep):
    from ..engines import guard
    rep.rule("C11.h", "a match attempt starts on a character boundary: Context::nextCh(ch, offset) advances its in/out offset onto the "
             "low surrogate when it decodes a surrogate pair; in RegularExpression::matches every start offset handed to "
             "match(context, operations, start) is a variable that has not been through nextCh since it was last assigned (CFG "
             "must-dataflow: the fact 'clean' is generated by an assignment or increment of the variable, killed by passing it to "
             "nextCh) — otherwise a match that begins with a supplementary-plane character is attempted from the middle of the pair "
             "and missed")
    tu = os.path.join(core.REPO, "src/xercesc/util/regx/RegularExpression.cpp")
    g = core.run_xa([tu], cfg=r"^RegularExpression::matches$", flat=False)
    n = 0
    for raw in g.cfgs.get("RegularExpression::matches", []):
        cfg = guard.Cfg(raw)
        calls = guard.sites(cfg, lambda x: x[0] == "c" and x[1] == "RegularExpression::match" and len(x[3]) >= 3 and x[3][2][0] == "l")
        for bid, i, el in calls:
            L = el["x"][3][2]

            def touches(e, L=L):
                for x in guard.el_top_calls(e):
                    if x[0] == "c" and x[1].endswith("Context::nextCh") and len(x[3]) >= 2 and x[3][1] == L:
                        return True
                return False

            def assigns(e, L=L):
                x = e.get("x")
                if x and x[0] == "b" and x[1] in ("=", "+=", "-=") and x[2] == L:
                    return True
                if x and x[0] == "u" and x[1][:2] in ("++", "--") and x[2] == L:
                    return True
                return any(d[0] == L[1] for d in e.get("decl", []))
            st = guard.must_state(cfg, gen_el=assigns, kill_el=touches)
            ok = st(bid, i)
            n += 1
            rep.ob("C11.h", "matches%s@match:%s" % (raw.get("sig", "")[:24], L[1]), ok,
                   "start offset %s has not been advanced by nextCh" % L[1] if ok else
                   "RegularExpression::matches (line %s): match() is started at %s after nextCh(ch, %s) may have moved it onto the low "
                   "surrogate of a pair — a match beginning with a supplementary-plane character is missed" % (el.get("l"), L[1], L[1]),
                   "src/xercesc/util/regx/RegularExpression.cpp:%s" % el.get("l", 0))
    rep.floor("C11.h", n, 3)


def reversed_range_rule(rep):
    from ..engines import guard
    rep.rule("C11.i", "a reversed class range is rejected on its real end point: in RegxParser::parseCharacterClass the test that "
             "throws Parser_Ope3 (`start > end`) is evaluated on the final value of the end point — between that test and the "
             "addRange call that uses the end point there is no assignment to it (CFG reachability); an escaped end such as `\\t` "
             "in `[ -\\t]` is decoded first, otherwise the letter is compared and addRange silently swaps the bounds")
    g = core.run_xa([os.path.join(core.REPO, "src/xercesc/util/regx/RegxParser.cpp")], cfg=r"^RegxParser::parseCharacterClass$", flat=False)
    n = 0
    for raw in g.cfgs.get("RegxParser::parseCharacterClass", []):
        cfg = guard.Cfg(raw)
        for bid, blk in sorted(cfg.blocks.items()):
            t = blk.get("term")
            c = t and t.get("cond")
            if not (c and c[0] == "b" and c[1] in (">", "<") and c[2][0] == "l" and c[3][0] == "l" and blk["succ"][0] is not None):
                continue
            # the true edge must lead to the Parser_Ope3 throw
            seen, work, ope3 = set(), [blk["succ"][0]], False
            while work and len(seen) < 12:
                b = work.pop()
                if b in seen:
                    continue
                seen.add(b)
                for el in cfg.blocks[b]["els"]:
                    x = el.get("x")
                    if x and x[0] == "t" and "Parser_Ope3" in str(x):
                        ope3 = True
                if not cfg.throws(b):
                    work.extend(cfg.succs(b))
            if not ope3:
                continue
            n += 1
            ends = [c[2][1], c[3][1]]
            bad = []
            seen, work = set(), [blk["succ"][1]] if blk["succ"][1] is not None else []
            while work:
                b = work.pop()
                if b in seen:
                    continue
                seen.add(b)
                stop = False
                for el in cfg.blocks[b]["els"]:
                    x = el.get("x")
                    if x and x[0] == "b" and x[1] == "=" and x[2][0] == "l" and x[2][1] in ends:
                        bad.append((x[2][1], el.get("l")))
                    if any(cc[0] == "c" and cc[1].split("::")[-1] == "addRange" for cc in guard.el_top_calls(el)):
                        stop = True
                        break
                if not stop:
                    work.extend(cfg.succs(b))
            rep.ob("C11.i", "parseCharacterClass@%s" % t.get("l"), not bad, "end points are final when the order is tested" if not bad else
                   "RegxParser::parseCharacterClass tests the order of the range at line %s but assigns %s afterwards (line %s), before "
                   "addRange: the test saw a different end point than the range that is built" % (t.get("l"), bad[0][0], bad[0][1]),
                   "src/xercesc/util/regx/RegxParser.cpp:%s" % t.get("l", 0))
    rep.floor("C11.i", n, 1)


def run(rep):
    f = core.library_facts()
    rep.units.update(os.path.relpath(t, core.REPO) for t in f.tus)
    block_rule(rep)
    shift_table_rule(rep)
    region_rule(rep, f)
    addrange_rule(rep)
    boundary_rule(rep)
    reversed_range_rule(rep)
    rep.rule("C11.d", "pure matching: RegularExpression::matches/tokenize/replace and every RegularExpression member they reach assign no "
             "member of the compiled expression — the answer cannot depend on earlier uses of the same compiled expression")
    C17.pure_match_rule(rep, f, "C11.d")
    diag.run(rep, f, "C11")
    dispatch.run(rep, f, "C11")
    rep.undecided += ["the language matched by each expression (parser, compiler and matcher semantics), anchoring, options, consistency of "
                      "tokenize/replace with match positions: value-level"]
    return ("Static: dispatch coverage of all token and operation kinds in the compiler, matcher and analyses; well-formedness of the "
            "Unicode block table; ParseException matrix of the two parsers; purity of matching from field-write facts. Decides these "
            "necessary conditions, not the matched language.")
