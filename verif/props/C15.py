"""C15 — a parser's result is independent of its history; cached grammars are transparent.

C15.a  reset coverage of per-parse state (RESET engine): scanners + state holders; sibling agreement
C15.b  reader-manager janitor before any scanning; progressive-scan token checks
C15.c  a locked grammar pool is read-only (CFG, unreachable under fLocked) + writers of fLocked
C15.d  diagnostics matrix (DIAG)
"""
import os
import re
from collections import defaultdict

from .. import core
from ..core import AnalysisBroken, sx_walk, sx_str
from ..engines import diag, guard
from ..engines.reset import Reset, W_HOW

SCANNERS = ["IGXMLScanner", "DGXMLScanner", "SGXMLScanner", "WFXMLScanner", "XSAXMLScanner"]
ENTRIES = ("scanDocument", "scanFirst", "scanNext", "loadGrammar")

# per-parse state holders reached from the scanners
HOLDERS = ["ReaderMgr", "ElemStack", "WFElemStack", "ValidationContextImpl", "IdentityConstraintHandler", "SchemaValidator",
           "DTDValidator", "XMLBufferMgr", "GrammarResolver", "ValueStoreCache", "XPathMatcherStack", "FieldActivator",
           "XMLValidator", "NamespaceScope", "SAX2XMLReaderImpl", "SAXParser", "AbstractDOMParser", "DOMLSParserImpl", "XercesDOMParser"]
# API adapters: their per-parse state is written by the handler callbacks the scanners invoke
ADAPTERS = {"SAX2XMLReaderImpl", "SAXParser", "AbstractDOMParser", "DOMLSParserImpl", "XercesDOMParser"}
ADAPTER_ENTRIES = ("parse", "parseURI", "parseWithContext", "parseFirst", "loadGrammar")
HOLDER_RESET_ROOTS = ["ReaderMgr::reset"]   # run by the ReaderMgrResetType janitor at the end of every parse

# members written while scanning and deliberately not reset (one symbol, one reason)
EXEMPT = {
    "IGXMLScanner::fElemState": "scratch array indexed by element depth; the slot is written at element start before it is read",
    "IGXMLScanner::fElemLoopState": "same scratch array pair",
    "IGXMLScanner::fElemStateSize": "capacity of the scratch arrays, only grows",
    "IGXMLScanner::fRawAttrColonList": "scratch array filled by rawAttrScan before buildAttList reads it",
    "IGXMLScanner::fRawAttrColonListSize": "capacity of that scratch array, only grows",
    "SGXMLScanner::fElemState": "as IGXMLScanner",
    "SGXMLScanner::fElemLoopState": "as IGXMLScanner",
    "SGXMLScanner::fElemStateSize": "as IGXMLScanner",
    "SGXMLScanner::fRawAttrColonList": "as IGXMLScanner",
    "SGXMLScanner::fRawAttrColonListSize": "as IGXMLScanner",
    "XMLScanner::fAttrDupChkRegistry": "lazily created hash set, emptied (removeAll) immediately before every use",
    "XMLScanner::fSequenceId": "monotonic scan id by design: it is what invalidates stale progressive-scan tokens",
    "ReaderMgr::fEntityStack": "lazily created stack object; emptied as readers are popped, reset() flushes the reader stack it mirrors",
    "ElemStack::fStack": "growable array: capacity only grows, reset() rewinds fStackTop",
    "ElemStack::fStackCapacity": "capacity of that array",
    "WFElemStack::fStack": "growable array: capacity only grows",
    "WFElemStack::fStackCapacity": "capacity of that array",
    "ValidationContextImpl::fToCheckIdRefList": "write-before-read: SchemaValidator::validateAttrValue sets it to true on entry; it is false only for the remainder of a pre-validation call, which no scanner requests from the schema validator (preContentValidation's validateDefAttr is only passed by the DTD paths)",
    "SchemaValidator::fElemIsSpecified": "write-before-read: cleared at the start of every checkContent",
    "SchemaValidator::fMostRecentAttrValidator": "write-before-read: assigned by every validateAttrValue, read by the scanner immediately after that call",
    "SchemaValidator::fNotationBuf": "lazily created scratch buffer, reset() before each use",
    "GrammarResolver::fDataTypeReg": "lazily created datatype registry for user-defined types; its content depends on the grammars, not on the documents parsed",
    "XSAXMLScanner/SGXMLScanner::fModel": "XSAXMLScanner is the internal annotation scanner: no PSVI handler is ever installed on it, fModel is never read",
    "XSAXMLScanner/SGXMLScanner::fPSVIElemContext": "same: PSVI context is only read when a PSVI handler is installed",
}


def _key(S, fld):
    k = "%s/%s" % (S, fld)
    return k if k in EXEMPT else fld


def reset_rule(rep, f):
    rep.rule("C15.a", "reset coverage: for each of the five scanners, every member (own or inherited) that is assigned or "
             "incremented by a function reachable from scanDocument/scanFirst/scanNext/loadGrammar (calls on the same object, "
             "most-derived first, and into the per-parse state holders) outside the reset closure is also assigned or reset "
             "in the closure of scanReset; same for the members of the state holders (ReaderMgr, ElemStack, validators, "
             "identity-constraint stores ...); exemptions are single members with a reason")
    R = Reset(f, set(HOLDERS))
    allscan, allreset = set(), set(HOLDER_RESET_ROOTS)
    nfields = 0
    reset_by = defaultdict(set)   # XMLScanner member -> scanners whose reset closure writes it
    for S in SCANNERS:
        fam = R.fam(S)
        if S not in f.classes:
            raise AnalysisBroken("scanner class %s vanished" % S)
        rr = R.resolve(fam, "scanReset")
        if not rr:
            raise AnalysisBroken("%s::scanReset vanished" % S)
        # scanReset(const InputSource&) only: XMLScanner::scanReset(XMLPScanToken&) is the progressive-parse reset
        RC = R.closure(S, [rr])
        AC = R.closure(S, [R.resolve(fam, n) for n in ENTRIES])
        scanfns = AC - RC
        if len(scanfns) < 40 or len(RC) < 5:
            raise AnalysisBroken("%s: scan closure %d / reset closure %d functions — call facts went blind" % (S, len(scanfns), len(RC)))
        allscan |= scanfns
        allreset |= RC
        Wf = R.writes(scanfns, set(fam))
        Rf = R.writes(RC, set(fam))
        for fld, ws in Rf.items():
            if fld.startswith("XMLScanner::") and any(w[1] in W_HOW for w in ws):
                reset_by[fld].add(S)
        for fld, ws in sorted(Wf.items()):
            direct = [w for w in ws if w[1] in W_HOW]
            if not direct:
                continue
            nfields += 1
            key = "%s/%s" % (S, fld)
            if fld in Rf:
                rep.ob("C15.a/scanner", key, True, "written in %s, reset in %s" % (direct[0][0].split("::")[-1], Rf[fld][0][0].split("::")[-1]),
                       "%s:%d" % (direct[0][3], direct[0][2]))
            elif _key(S, fld) in EXEMPT:
                rep.ob("C15.a/scanner", key, True, "not reset, exempt: " + EXEMPT[_key(S, fld)], "%s:%d" % (direct[0][3], direct[0][2]))
            else:
                rep.ob("C15.a/scanner", _key(S, fld) if fld.startswith("XMLScanner::") else fld, False,
                       "%s is written while scanning (%s, line %d) but %s::scanReset never resets it: the next parse on the same "
                       "parser object starts from the previous document's value" % (fld, direct[0][0], direct[0][2], S),
                       "%s:%d" % (direct[0][3], direct[0][2]), detail={"writers": [(w[0], w[2]) for w in direct]})
    rep.floor("C15.a/scanner", nfields, 90)
    # holders
    nh = 0
    # functions named reset*/clear* of a holder that the scanners call (e.g. resetDocType at DOCTYPE start) reset state too
    named_resets = set(q for q in allscan if q.split("::")[-1].startswith(("reset", "clear")) and q.rsplit("::", 1)[0] in set(HOLDERS))
    for q in list(named_resets):
        named_resets |= R.closure(q.rsplit("::", 1)[0], [q])
    for H in HOLDERS:
        hf = set(R.fam(H))
        sf = [q for q in allscan if q.rsplit("::", 1)[0] in hf and q not in named_resets]
        rf = [q for q in (allreset | named_resets) if q.rsplit("::", 1)[0] in hf]
        if H in ADAPTERS:
            # only the handler callbacks (overrides of the scanner-facing interfaces) run while scanning; the public
            # parse entry points clear adapter state before they start the scanner
            sf = [q for q in sf if any(fn.get("ovr") for fn in f.fns_named(q))]
            rf += [c + "::" + n for c in hf for n in ADAPTER_ENTRIES if (c + "::" + n) in f.by_q]
        Wf = R.writes(sf, hf)
        Rf = R.writes(rf, hf)
        for fld, ws in sorted(Wf.items()):
            direct = [w for w in ws if w[1] in W_HOW]
            if not direct:
                continue
            nh += 1
            if fld in Rf:
                rep.ob("C15.a/holder", fld, True, "written in %s, reset in %s" % (direct[0][0], Rf[fld][0][0]), "%s:%d" % (direct[0][3], direct[0][2]))
            elif fld in EXEMPT:
                rep.ob("C15.a/holder", fld, True, "not reset, exempt: " + EXEMPT[fld], "%s:%d" % (direct[0][3], direct[0][2]))
            else:
                rep.ob("C15.a/holder", fld, False,
                       "%s is written while scanning (%s, line %d) but no reset function reached from scanReset / the reader-manager "
                       "janitor resets it" % (fld, direct[0][0], direct[0][2]), "%s:%d" % (direct[0][3], direct[0][2]))
    rep.floor("C15.a/holder", nh, 25)
    # sibling agreement on the inherited members
    rep.rule("C15.a/sibling", "an XMLScanner (base class) member reset by the scanReset closure of some scanner is reset by all "
             "five scanners (IG, DG, SG, WF, XSAX)")
    SIB_EXEMPT = {
        "XMLScanner::fDoNamespaces": "SGXMLScanner/XSAXMLScanner force namespace processing on; the other scanners honour the user's setting",
        "XMLScanner::fDoSchema": "SGXMLScanner/XSAXMLScanner force schema processing on",
        "XMLScanner::fEntityDeclPoolRetrieved": "WFXMLScanner has no DTD entity pool",
        "XMLScanner::fGrammarType": "WFXMLScanner has no grammar",
        "XMLScanner::fGrammar": "WFXMLScanner has no grammar",
        "XMLScanner::fRootGrammar": "WFXMLScanner has no grammar",
        "XMLScanner::fValidator": "WFXMLScanner never validates",
        "XMLScanner::fValidate": "WFXMLScanner never validates",
        "XMLScanner::fRootElemName": "root element name is checked against the DOCTYPE only by validating scanners with DTD support",
        "XMLScanner::fGrammarResolver": "WFXMLScanner has no grammar",
        "XMLScanner::fValidationContext": "WFXMLScanner keeps no ID/IDREF context",
        "XMLScanner::fSkipDTDValidation": "only the scanner that handles both DTD and schema (IG) recomputes it",
        "XMLScanner::fDTDElemNonDeclPool": "DTD scanners only",
        "XMLScanner::fUIntPool": "WFXMLScanner does not use the unsigned-int pool",
        "XMLScanner::fUIntPoolRow": "as fUIntPool", "XMLScanner::fUIntPoolCol": "as fUIntPool", "XMLScanner::fUIntPoolRowTotal": "as fUIntPool",
        "XMLScanner::fAttrList": "not an assignment reset: only the scanners that pre-size it touch it",
        "XMLScanner::fURIStringPool": "re-fetched from the grammar resolver by grammar-aware scanners only",
        "XMLScanner::fEmptyNamespaceId": "as fURIStringPool", "XMLScanner::fUnknownNamespaceId": "as fURIStringPool",
        "XMLScanner::fXMLNamespaceId": "as fURIStringPool", "XMLScanner::fXMLNSNamespaceId": "as fURIStringPool",
        "XMLScanner::fSchemaNamespaceId": "schema-aware scanners only",
    }
    k = 0
    for fld, ss in sorted(reset_by.items()):
        k += 1
        missing = [s for s in SCANNERS if s not in ss]
        ok = not missing or fld in SIB_EXEMPT
        rep.ob("C15.a/sibling", fld, ok,
               ("reset by all five scanners" if not missing else "reset by %s; exempt: %s" % (sorted(ss), SIB_EXEMPT[fld])) if ok else
               "%s is reset by %s but not by %s" % (fld, sorted(ss), missing), "src/xercesc/internal/XMLScanner.hpp")
    rep.floor("C15.a/sibling", k, 12)


def janitor_rule(rep, f):
    rep.rule("C15.b", "in every scanDocument/scanFirst/scanNext/loadGrammar of the scanners the reader-manager reset janitor "
             "(JanitorMemFunCall<ReaderMgr>) is declared on every path before the first scanning call, so the reader stack "
             "is flushed however the parse ends; scanNext checks isLegalToken (throwing) before anything else; the scan id "
             "is bumped by scanDocument and scanFirst")
    names = []
    for S in SCANNERS + ["XMLScanner"]:
        for n in ENTRIES:
            q = "%s::%s" % (S, n)
            if q in f.by_q:
                names.append(q)
    tus = sorted(set(os.path.join(core.REPO, fn["file"]) for q in names for fn in f.fns_named(q) if fn["file"].endswith(".cpp")))
    g = core.run_xa(tus, cfg="^(" + "|".join(re.escape(q) for q in names) + ")$", flat=False)
    n = 0
    for q in names:
        for raw in g.cfgs.get(q, []):
            cfg = guard.Cfg(raw)

            def is_jan(el):
                return "decl" in el and any("JanitorMemFunCall<ReaderMgr>" in d[1] or d[1] == "ReaderMgrResetType" or
                                            (d[2] and d[2][0] == "k" and "JanitorMemFunCall<ReaderMgr>" in d[2][1]) for d in el["decl"])

            def is_scan(el):
                for x in guard.el_top_calls(el):
                    if x[0] == "c" and x[2] == ["this"]:
                        nm = x[1].split("::")[-1]
                        if nm.startswith("scan") or nm in ("loadDTDGrammar", "loadXMLSchemaGrammar", "senseNextToken"):
                            return True
                return False
            res = guard.must_precede(cfg, is_jan, is_scan)
            has_jan = any(is_jan(el) for _, _, el in cfg.elements())
            simple = q.split("::")[-1]
            if not has_jan and res and all(any(x[0] == "c" and x[1].split("::")[-1] == simple for x in guard.el_top_calls(el)) for _, _, el, _ in res):
                # thin overload that only forwards to the InputSource overload of the same name
                continue
            if not res:
                # thin wrappers (the char*/XMLCh* overloads) delegate to the InputSource overload
                continue
            bad = [el.get("l") for b, i, el, ok in res if not ok]
            n += 1
            rep.ob("C15.b/janitor", q + raw["sig"], not bad, "%d scanning calls, all after the reader-manager janitor" % len(res) if not bad else
                   "scanning call(s) at line(s) %s can run before the reader-manager reset janitor is in place" % bad[:5],
                   "%s:%s" % (cfg.file, bad[0] if bad else cfg.line_of(cfg.entry)))
            if q.endswith("::scanNext"):
                gs = guard.guards(cfg, lambda c: guard.mentions(c, lambda s: s[0] == "c" and s[1].endswith("::isLegalToken")))

                def other(el):
                    for x in guard.el_top_calls(el):
                        if x[0] == "c" and not x[1].endswith("::isLegalToken"):
                            return True
                    return is_jan(el)
                r2 = guard.must_precede(cfg, lambda el: False, other, edge_a=lambda b, k: (b, k) in gs)
                bad2 = [el.get("l") for b, i, el, ok in r2 if not ok]
                rep.ob("C15.b/token", q, bool(gs) and not bad2, "isLegalToken guard dominates the whole function" if gs and not bad2 else
                       "work at line(s) %s is not preceded by the isLegalToken check" % bad2[:4], cfg.file)
    rep.floor("C15.b/janitor", n, 10)
    for q in ("XMLScanner::scanFirst",) + tuple("%s::scanDocument" % s for s in SCANNERS if "%s::scanDocument" % s in f.by_q):
        fns = [fn for fn in f.fns_named(q) if "InputSource" in fn["sig"]]
        for fn in fns:
            inc = any(x["k"] == "fld" and x["f"] == "XMLScanner::fSequenceId" and x["how"] == "inc" for x in fn["_facts"])
            rep.ob("C15.b/seqid", q, inc, "bumps fSequenceId" if inc else "%s no longer bumps the scan id: stale progressive-scan tokens stay legal" % q,
                   "%s:%d" % (fn["file"], fn["line"]))


def locked_pool_rule(rep, f):
    rep.rule("C15.c", "a locked grammar pool is never modified: in every XMLGrammarPoolImpl member function other than the "
             "lock/unlock/deserialize/cleanup administration, each mutation of the grammar registry, the XSModel and its "
             "validity flag, and the string pool is unreachable (CFG) when fLocked is true; fLocked itself is written only "
             "by lockPool, unlockPool, deserializeGrammars and the constructor")
    cls = "XMLGrammarPoolImpl"
    admin = {"lockPool", "unlockPool", "deserializeGrammars", "cleanUp", "XMLGrammarPoolImpl", "~XMLGrammarPoolImpl", "createXSModel"}
    fns = [fn for q, fns in f.by_q.items() for fn in fns if fn.get("cls") == cls]
    if len(fns) < 15:
        raise AnalysisBroken("XMLGrammarPoolImpl shrank to %d functions" % len(fns))
    g = core.run_xa([os.path.join(core.REPO, "src/xercesc/framework/XMLGrammarPoolImpl.cpp")], cfg="^XMLGrammarPoolImpl::", flat=False)
    MUT = ("put", "orphanKey", "removeAll", "removeKey", "flushAll", "addOrFind", "cleanup", "reset")

    def is_mut(x):
        if x[0] == "c":
            recv = x[2]
            nm = x[1].split("::")[-1]
            if recv and recv[0] == "f" and recv[1] in (cls + "::fGrammarRegistry", cls + "::fStringPool") and nm in MUT:
                return True
            if nm == "createXSModel" and recv == ["this"]:
                return True
        if x[0] == "d" and guard.mentions(x[2], lambda s: s[0] == "f" and s[1] == cls + "::fXSModel"):
            return True
        return False

    def is_mut_el(el):
        x = el.get("x")
        if x and x[0] == "b" and x[1] == "=" and x[2][0] == "f" and x[2][1] in (cls + "::fXSModel", cls + "::fXSModelIsValid", cls + "::fGrammarRegistry", cls + "::fStringPool"):
            return True
        return any(is_mut(y) for y in guard.el_top_calls(el))
    n = 0
    locked = lambda leaf: True if (leaf[0] == "f" and leaf[1] == cls + "::fLocked") else None
    for q, raws in sorted(g.cfgs.items()):
        nm = q.split("::")[-1]
        if nm in admin:
            continue
        for raw in raws:
            cfg = guard.Cfg(raw)
            all_sites = [(b, i, el) for b, i, el in cfg.elements() if is_mut_el(el)]
            if not all_sites:
                continue
            rb = guard.reachable(cfg, locked)
            live = [(b, i, el) for b, i, el in all_sites if b in rb]
            n += 1
            rep.ob("C15.c/locked", q, not live, "%d mutation site(s), none reachable while the pool is locked" % len(all_sites) if not live else
                   "%s can modify the pool at line(s) %s while it is locked" % (q, sorted(set(el.get("l") for _, _, el in live))),
                   "%s:%s" % (cfg.file, all_sites[0][2].get("l")))
    rep.floor("C15.c/locked", n, 4)
    writers = sorted(set(x["_fn"]["q"] for x in f.kind("fld") if x["f"] == cls + "::fLocked" and x["how"] in ("write", "init", "inc", "refarg:operator>>", "addr")))
    ok = set(writers) <= {cls + "::lockPool", cls + "::unlockPool", cls + "::deserializeGrammars", cls + "::cleanUp", cls + "::" + cls}
    rep.ob("C15.c/writers", "writers(fLocked)", ok, "fLocked written only by %s" % writers if ok else "unexpected writer of fLocked: %s" % writers,
           "src/xercesc/framework/XMLGrammarPoolImpl.cpp")


def row_reset_rule(rep, f):
    rep.rule("C15.e", "pooled rows are cleared whole: for every member that is a table of separately allocated rows "
             "(F[i] = allocate(S)), each memset that clears a row (memset(F[j], 0, n)) uses n == S, the size the rows are "
             "allocated with — a reset that clears only part of a row leaves values of the previous document in slots that are "
             "handed out again (the scanners' unsigned-int pool backs the per-element attribute bookkeeping)")
    alloc = {}
    for x in f.kind("asg"):
        l = x["lhs"]
        if l[0] == "x" and l[1][0] == "f" and len(l[1]) == 2:
            for s in sx_walk(x["rhs"]):
                if isinstance(s, list) and s and s[0] == "c" and s[1].endswith("::allocate") and s[3]:
                    alloc.setdefault(l[1][1], []).append((s[3][0], x["_fn"]["q"], x.get("l", 0)))
    n = 0
    for x in f.kind("call"):
        c = x["x"]
        if c[1] != "memset" or len(c[3]) != 3:
            continue
        d = c[3][0]
        if not (d[0] == "x" and d[1][0] == "f" and len(d[1]) == 2 and d[1][1] in alloc):
            continue
        n += 1
        F = d[1][1]
        ok = any(c[3][2] == a[0] for a in alloc[F])
        rep.ob("C15.e", "%s@memset(%s[..])" % (x["_fn"]["q"], F.split("::")[-1]), ok,
               "clears %s, the size the rows are allocated with" % core.sx_str(c[3][2]) if ok else
               "%s (line %s) clears %s bytes of a row of %s, but rows are allocated with %s bytes (%s): the rest of the row keeps "
               "values from the previous use" % (x["_fn"]["q"], x.get("l"), core.sx_str(c[3][2]), F, core.sx_str(alloc[F][0][0]), alloc[F][0][1]),
               "%s:%s" % (x["_fn"]["file"], x.get("l", 0)))
    rep.floor("C15.e", n, 3)


def pool_free_rule(rep, f, rid="C15.f"):
    rep.rule(rid, "no registry outlives the pool it points into: the per-attribute registry fAttDefRegistry maps XMLAttDef* to "
             "counters that live in the scanner's unsigned-int pool; every call of XMLScanner::recreateUIntPool (which frees the "
             "pool's rows) is preceded on every path, in the same function, by fAttDefRegistry->removeAll() — otherwise the next "
             "parse of the reused scanner reads and writes freed memory through the stale entries")
    callers = {}
    for x in f.kind("call"):
        if x["x"][1] == "XMLScanner::recreateUIntPool" and x["_fn"]["q"] != "XMLScanner::recreateUIntPool":
            callers[(x["_fn"]["q"], x["_fn"]["file"])] = 1
    if len(callers) < 3:
        raise AnalysisBroken("fewer than 3 callers of XMLScanner::recreateUIntPool (%d)" % len(callers))
    tus = sorted({os.path.join(core.REPO, fl) for (_, fl) in callers if fl.endswith(".cpp")})
    g = core.run_xa(tus, cfg="^(" + "|".join(sorted({re.escape(q) for (q, _) in callers})) + ")$", flat=False)
    n = 0
    for (q, fl) in sorted(callers):
        for raw in g.cfgs.get(q, []):
            cfg = guard.Cfg(raw)

            def is_clear(el):
                return any(c[0] == "c" and c[1].split("::")[-1] == "removeAll" and c[2] and c[2][0] == "f" and c[2][1].endswith("::fAttDefRegistry")
                           for c in guard.el_top_calls(el))

            def is_free(el):
                return any(c[0] == "c" and c[1] == "XMLScanner::recreateUIntPool" for c in guard.el_top_calls(el))
            for b, i, el, ok in guard.must_precede(cfg, is_clear, is_free):
                n += 1
                rep.ob(rid, "%s@recreateUIntPool" % q, ok, "registry emptied first" if ok else
                       "%s (line %s) frees the unsigned-int pool without first emptying fAttDefRegistry: its entries keep pointing into "
                       "the freed rows (use after free on the next parse with more than 1024 declared attributes behind it)" % (q, el.get("l")),
                       "%s:%s" % (fl, el.get("l", 0)))
    rep.floor(rid, n, 3)


def pooled_strings_rule(rep, f):
    rep.rule("C15.g", "a DOM document owns the strings it points to: every string the tree builder stores into a node's PSVI type "
             "information (DOMTypeInfoImpl::setStringProperty in AbstractDOMParser) is either copied into the document's string pool "
             "(fDocument->getPooledString(..)) or a static constant of the library — never a pointer into grammar, validator or "
             "PSVI memory, which is released by the next parse, resetCachedGrammarPool() or the parser's destruction while an "
             "adopted document lives on")
    n = 0
    for x in f.kind("call"):
        c = x["x"]
        if c[1].split("::")[-1] != "setStringProperty" or x["_fn"].get("cls") != "AbstractDOMParser" or len(c[3]) < 2:
            continue
        n += 1
        a = c[3][1]
        while a[0] == "cast":
            a = a[2]
        ok = (a[0] == "c" and a[1].split("::")[-1] == "getPooledString") or a[0] == "g" or a == ["i", 0]
        rep.ob("C15.g", "%s@setStringProperty:%s" % (x["_fn"]["q"], x.get("l")), ok, "pooled or static" if ok else
               "%s (line %s) stores %s into the node's type information without copying it into the document's string pool: the "
               "pointer dangles once the grammar it belongs to is released" % (x["_fn"]["q"], x.get("l"), sx_str(a)),
               "%s:%s" % (x["_fn"]["file"], x.get("l", 0)))
    rep.floor("C15.g", n, 12)


GRAMMAR_SYNC_EXEMPT = {
    "IGXMLScanner::scanReset": "with a validator supplied by the user that handles schemas only, the DTD grammar installed at reset is "
                               "not handed to it (it gets its grammars through the resolver)",
}


def grammar_sync_rule(rep, f):
    rep.rule("C15.h", "the validator validates against the scanner's current grammar: in every scanner function that both installs a "
             "grammar (assigns XMLScanner::fGrammar) and hands one to the validator (fValidator->setGrammar), each assignment is "
             "followed on every normal path by a setGrammar call (CFG must-follow) — a validator left with the previous, e.g. the "
             "empty scratch grammar after a cached grammar was installed, checks ENTITY/ID attributes against the wrong declarations")
    fns = {}
    for x in f.kind("asg"):
        if x["lhs"] == ["f", "XMLScanner::fGrammar"]:
            fns.setdefault((x["_fn"]["q"], x["_fn"]["file"]), [0, 0])[0] += 1
    for x in f.kind("call"):
        c = x["x"]
        if c[1].split("::")[-1] == "setGrammar" and c[2] and c[2][0] == "f" and c[2][1].endswith("::fValidator"):
            k = (x["_fn"]["q"], x["_fn"]["file"])
            if k in fns:
                fns[k][1] += 1
    both = {k: v for k, v in fns.items() if v[1]}
    if len(both) < 12:
        raise AnalysisBroken("C15.h: fewer than 12 functions install a grammar and hand it to the validator (%d)" % len(both))
    tus = sorted({os.path.join(core.REPO, fl) for (_, fl) in both if fl.endswith(".cpp")})
    g = core.run_xa(tus, cfg="^(" + "|".join(sorted({re.escape(q) for (q, _) in both})) + ")$", flat=False)
    n = 0
    for (q, fl) in sorted(both):
        for raw in g.cfgs.get(q, []):
            cfg = guard.Cfg(raw)

            def isa(el):
                x = el.get("x")
                return bool(x) and x[0] == "b" and x[1] == "=" and x[2] == ["f", "XMLScanner::fGrammar"]

            def isb(el):
                return any(c[0] == "c" and c[1].split("::")[-1] == "setGrammar" and c[2] and c[2][0] == "f" and c[2][1].endswith("::fValidator")
                           for c in guard.el_top_calls(el))
            for b, i, el, ok in guard.must_follow(cfg, isa, isb):
                n += 1
                ok2 = ok or q in GRAMMAR_SYNC_EXEMPT
                rep.ob("C15.h", "%s@fGrammar:%s" % (q, el.get("l")), ok2,
                       ("validator updated afterwards" if ok else "exempt: " + GRAMMAR_SYNC_EXEMPT[q]) if ok2 else
                       "%s (line %s) installs a grammar in fGrammar and can return without handing it to the validator: the validator "
                       "keeps the grammar it was given before" % (q, el.get("l")), "%s:%s" % (fl, el.get("l", 0)))
    rep.floor("C15.h", n, 15)


def slot_once_rule(rep, rid="C15.i"):
    from ..engines import advance
    rep.rule(rid, "every slot of the scanner's unsigned-int pool is handed out once: XMLScanner::getNewUIntPtr interpreted on both of "
             "its paths (room left in the current row / a new row is started): the pointer returned is slot (new column - 1) of the "
             "row that is current afterwards — the counters of two different declared attributes otherwise share one cell and the "
             "65th and 66th attribute of a document are reported as duplicates of each other")
    g = core.run_xa([os.path.join(core.REPO, "src/xercesc/internal/XMLScanner.cpp")], st=r"^XMLScanner::getNewUIntPtr$", flat=False)
    body = g.st("XMLScanner::getNewUIntPtr")["body"]
    n = 0
    for col0, what in ((5, "room left in the row"), (63, "last slot of the row"), (64, "row full: a new row is started")):
        env = {"f:XMLScanner::fUIntPoolCol": col0, "f:XMLScanner::fUIntPoolRow": 2, "f:XMLScanner::fUIntPoolRowTotal": 8,
               "arr:XMLScanner::fUIntPool": lambda i, st: i * 1000}
        it = advance.Interp()
        outs = []
        for kind, s2 in it.run(body, advance.State(env)):
            outs.append((kind, s2.v.get("__ret"), s2.v.get("f:XMLScanner::fUIntPoolRow"), s2.v.get("f:XMLScanner::fUIntPoolCol")))
        n += 1
        ok = len(outs) == 1 and outs[0][0] == "return" and all(isinstance(v, int) for v in outs[0][1:]) and \
            outs[0][1] == outs[0][2] * 1000 + outs[0][3] - 1 and 1 <= outs[0][3] <= 64
        rep.ob(rid, "getNewUIntPtr/col=%d" % col0, ok, "%s: returns slot %s of row %s, next free column %s" % (
            what, outs[0][1] % 1000 if ok else "?", outs[0][2] if ok else "?", outs[0][3] if ok else "?") if ok else
            "XMLScanner::getNewUIntPtr (%s): returns %s with row %s and next free column %s afterwards — the slot returned is not the one "
            "just before the next free column, so it is handed out twice or skipped" % (what, [o[1] for o in outs], [o[2] for o in outs], [o[3] for o in outs]),
            "src/xercesc/internal/XMLScanner.cpp")


def run(rep):
    f = core.library_facts()
    rep.units.update(os.path.relpath(t, core.REPO) for t in f.tus)
    reset_rule(rep, f)
    janitor_rule(rep, f)
    locked_pool_rule(rep, f)
    row_reset_rule(rep, f)
    pool_free_rule(rep, f)
    pooled_strings_rule(rep, f)
    grammar_sync_rule(rep, f)
    slot_once_rule(rep)
    diag.run(rep, f, "C15")
    rep.undecided += ["equality of the n-th parse's outcome with a fresh parser's (value-level)",
                      "transparency of cached/preloaded grammars for validation verdicts",
                      "state of the API adapters (SAXParser, SAX2XMLReaderImpl, AbstractDOMParser, DOMLSParserImpl) beyond what scanReset's resetDocument callbacks reach"]
    rep.assumptions += ["scan closure follows calls on the same object and into the listed state-holder classes; state mutated only through other objects' methods is not attributed"]
    return ("Static: field-write facts over the scan and reset call closures of the five scanners and their state holders "
            "(every member written while scanning must be reset, exemptions named), sibling agreement on inherited members, "
            "CFG dominance of the reader-manager janitor and the token check, CFG unreachability of pool mutations under "
            "fLocked. Decides reset coverage, not outcome equality.")
