"""C12 — serialised DOM re-parses to an equal tree; output is always well-formed.

C12.a  escape tables: gEscapeChars rows (NUL-terminated inside kEscapeCount, required members per mode) and the
       predefined-entity switch of XMLFormatter::formatBuf (case c writes the reference whose text is c's entity)
C12.b  DOMLSSerializerImpl::processNode handles all twelve DOM node types (DISPATCH)
C12.d  verbatim-emission closure check: value data written under NoEscapes inside <![CDATA[ / <!-- / <? is
       preceded on every path by a test of that data for the construct's closing delimiter
C12.e  escape-mode discipline: escape mode as a typestate over the CFG; value data is written under
       AttrEscapes/CharEscapes (or NoEscapes with the C12.d guard) — never with the mode unknown
C12.f  consumed-count discipline: every transcodeTo/transcodeFrom caller uses the eaten count it was given
C12.c  serializer/formatter diagnostics (DIAG)
"""
import os
import re

from .. import core
from ..core import AnalysisBroken, sx_walk, sx_str
from ..engines import diag, guard
from .C13 import _exprs

SER = "src/xercesc/dom/impl/DOMLSSerializerImpl.cpp"
FMT = "src/xercesc/framework/XMLFormatter.cpp"
ENT = {"&": "&amp;", "<": "&lt;", ">": "&gt;", '"': "&quot;", "'": "&apos;"}
CH = {"chAmpersand": "&", "chOpenAngle": "<", "chCloseAngle": ">", "chDoubleQuote": '"', "chSingleQuote": "'"}
NODE_TYPES = ["ELEMENT_NODE", "ATTRIBUTE_NODE", "TEXT_NODE", "CDATA_SECTION_NODE", "ENTITY_REFERENCE_NODE", "ENTITY_NODE",
              "PROCESSING_INSTRUCTION_NODE", "COMMENT_NODE", "DOCUMENT_NODE", "DOCUMENT_TYPE_NODE", "DOCUMENT_FRAGMENT_NODE", "NOTATION_NODE"]


def tables_rule(rep, g):
    rep.rule("C12.a", "escape tables: every row of gEscapeChars is NUL-terminated within its width; NoEscapes is empty; "
             "StdEscapes contains & < > \" ' ; AttrEscapes contains & < \" TAB LF CR; CharEscapes contains & < > CR; in "
             "XMLFormatter::formatBuf the switch on the character to escape writes, for each predefined entity character, the "
             "reference constant whose text is that character's entity")
    t = g.table("gEscapeChars", FMT)["v"]
    flags = dict(g.enums["XMLFormatter::EscapeFlags"]["items"])
    need = {"NoEscapes": set(), "StdEscapes": set("&<>\"'"), "AttrEscapes": set("&<\"\t\n\r"), "CharEscapes": set("&<>\r")}
    for name, req in need.items():
        row = t[flags[name]]
        term = 0 in row
        chars = set(chr(c) for c in row[:row.index(0)]) if term else set()
        ok = term and req <= chars and (name != "NoEscapes" or not chars)
        rep.count(len(row))
        rep.ob("C12.a/table", "gEscapeChars[%s]" % name, ok, "escapes %s" % sorted(chars) if ok else
               ("row is not NUL-terminated inside its width" if not term else "mode %s no longer escapes %s" % (name, sorted(req - chars))),
               FMT)
    # reference constants
    refs = {}
    for q in ("gAmpRef", "gAposRef", "gGTRef", "gLTRef", "gQuoteRef"):
        v = g.table(q, FMT)["v"]
        refs[q] = "".join(chr(c) for c in v[:v.index(0)])
    s = g.st("XMLFormatter::formatBuf")
    found = {}

    def walk(st):
        if not isinstance(st, list) or not st:
            return
        if st[0] == "switch":
            body = st[2]
            stmts = body[1] if body[0] == "block" else [body]
            cur = None
            for c in stmts:
                while c and c[0] == "case":
                    lab = [y[1] for y in sx_walk(c[1]) if y[0] == "g"]
                    cur = lab[0] if lab else None
                    c = c[2]
                if c and c[0] == "default":
                    cur = None
                    c = c[1]
                if cur and c:
                    for e in _exprs(c):
                        for y in sx_walk(e):
                            if y[0] == "g" and y[1] in refs:
                                found[cur] = y[1]
            return
        for y in st[1:]:
            if isinstance(y, list):
                if y and isinstance(y[0], list):
                    for z in y:
                        walk(z)
                else:
                    walk(y)
    walk(s["body"])
    for chn, ch in CH.items():
        ref = found.get(chn)
        ok = ref is not None and refs[ref] == ENT[ch]
        rep.ob("C12.a/entity", "formatBuf/case %s" % chn, ok, "writes %s = %s" % (ref, refs.get(ref)) if ok else
               "the character %r is escaped as %s (%s), expected %s" % (ch, ref, refs.get(ref), ENT[ch]), "%s:%d" % (s["file"], s["line"]))


def dispatch_rule(rep, f):
    rep.rule("C12.b", "DOMLSSerializerImpl::processNode has an explicit case for each of the twelve DOM node types")
    fn = f.fn("DOMLSSerializerImpl::processNode")
    sw = [x for x in fn["_facts"] if x["k"] == "switch" and x["enum"] == "DOMNode::NodeType"]
    if not sw:
        raise AnalysisBroken("processNode no longer switches on DOMNode::NodeType")
    cases = set(c for x in sw for c in x["cases"])
    # node types with no serialised form of their own: the default branch must report them (never silently emit nothing)
    BY_DEFAULT = {"NOTATION_NODE": "notations are written as part of the DOCTYPE's internal subset text; a bare Notation node is reported as not recognised"}
    reports = any(x["k"] == "enumuse" and x["name"] == "Writer_NotRecognizedType" for x in fn["_facts"])
    for t in NODE_TYPES:
        if t in BY_DEFAULT and t not in cases:
            rep.ob("C12.b", "processNode/case " + t, reports, "left to the default branch, which reports Writer_NotRecognizedType: " + BY_DEFAULT[t] if reports else
                   "node type %s falls to a default branch that no longer reports an error" % t, "%s:%d" % (fn["file"], sw[0]["l"]))
            continue
        rep.ob("C12.b", "processNode/case " + t, t in cases, "handled" if t in cases else "node type %s falls to the default branch" % t,
               "%s:%d" % (fn["file"], sw[0]["l"]))


VALUE_CALLS = ("getNodeValue", "getValue", "getData")
OPEN = {"gStartCDATA": "gEndCDATA", "gStartComment": "gDoubleDash", "gStartPI": "gEndPI"}


def _is_value(x):
    if isinstance(x, list) and x and x[0] == "l" and x[1] == "nodeValue":
        return True
    return guard.mentions(x, lambda s: s[0] == "c" and s[1].split("::")[-1] in VALUE_CALLS)


def mode_rule(rep, f, g):
    rep.rule("C12.e", "escape-mode discipline (typestate over the CFG of processNode and the functions it shares the formatter "
             "with): the formatter's escape mode is tracked through every `<< XMLFormatter::Mode`, setEscapeFlags and call that can "
             "change it; node value data (getNodeValue()/nodeValue) is written only under AttrEscapes or CharEscapes — or under "
             "NoEscapes inside a delimited construct that C12.d guards — and never while the mode is unknown")
    rep.rule("C12.d", "verbatim emission: value data written under NoEscapes after <![CDATA[ , <!-- or <? is preceded on every path "
             "by XMLString::patternMatch(<that data>, <closing delimiter of that construct>) — ]]> , -- , ?> — whose result guards "
             "an error report")
    # functions of the serializer that never touch the escape mode
    cls = "DOMLSSerializerImpl"
    setters = set()
    for q, fns in f.by_q.items():
        for fn in fns:
            if fn.get("cls") != cls:
                continue
            for x in fn["_facts"]:
                if x["k"] == "call" and (x["x"][1] in ("XMLFormatter::setEscapeFlags", "XMLFormatter::formatBuf") or
                                         (x["x"][1] == "XMLFormatter::operator<<" and "EscapeFlags" in (x["x"][4] or ""))):
                    setters.add(q)
    # close over own-class calls
    calls = {}
    for q, fns in f.by_q.items():
        for fn in fns:
            if fn.get("cls") == cls:
                calls.setdefault(q, set()).update(x["x"][1] for x in fn["_facts"] if x["k"] == "call" and x.get("ccls") == cls)
    changed = True
    while changed:
        changed = False
        for q, cs in calls.items():
            if q not in setters and cs & setters:
                setters.add(q)
                changed = True
    nsites = 0
    nverb = 0
    for q in ("DOMLSSerializerImpl::processNode",):
        cfg = guard.Cfg(g.cfg(q))
        IN = {b: None for b in cfg.blocks}
        IN[cfg.entry] = (frozenset(["?"]), frozenset())
        sites = []

        def flow(bid, report):
            st = IN[bid]
            if st is None:
                return None
            modes, opening = set(st[0]), set(st[1])
            for el in cfg.blocks[bid]["els"]:
                for x in guard.el_top_calls(el):
                    if x[0] != "c":
                        continue
                    name = x[1]
                    if name == "XMLFormatter::operator<<":
                        arg = x[3][0] if x[3] else None
                        if arg and arg[0] == "e" and arg[1].startswith("XMLFormatter::") and "EscapeFlags" in (x[4] or ""):
                            modes = {arg[1].split("::")[-1]}
                            continue
                        if arg and arg[0] == "g" and arg[1] in OPEN:
                            opening = {arg[1]}
                            continue
                        if arg and arg[0] == "g" and arg[1] in ("gEndCDATA", "gEndComment", "gEndPI"):
                            opening = set()
                            continue
                        if arg is not None and _is_value(arg) and report:
                            sites.append((el.get("l"), sx_str(arg), frozenset(modes), frozenset(opening), arg, bid))
                    elif name == "XMLFormatter::setEscapeFlags":
                        arg = x[3][0]
                        modes = {arg[1].split("::")[-1]} if arg[0] == "e" else {"?"}
                    elif name == "XMLFormatter::formatBuf":
                        # explicit flags argument: mode for that call only; value data checked here
                        arg = x[3][2] if len(x[3]) > 2 else None
                        m = arg[1].split("::")[-1] if arg and arg[0] == "e" else "?"
                        if _is_value(x[3][0]) and report:
                            sites.append((el.get("l"), sx_str(x[3][0]), frozenset([m]), frozenset(), x[3][0], bid))
                    elif name in setters and name.startswith(cls + "::"):
                        modes = {"?"}
                        opening = set()
            return [(s, (frozenset(modes), frozenset(opening))) for s in cfg.succs(bid)]
        work = [cfg.entry]
        it = 0
        while work and it < 20000:
            it += 1
            b = work.pop()
            o = flow(b, False)
            if o is None:
                continue
            for s, st in o:
                new = st if IN[s] is None else (IN[s][0] | st[0], IN[s][1] | st[1])
                if new != IN[s]:
                    IN[s] = new
                    work.append(s)
        for b in cfg.blocks:
            flow(b, True)
        for line, text, modes, opening, arg, bid in sorted(set((a, b_, c, d, json_key(e), f_) for a, b_, c, d, e, f_ in sites)):
            nsites += 1
            arg = json_unkey(arg)
            if modes <= {"AttrEscapes", "CharEscapes"}:
                rep.ob("C12.e", "processNode@%s:%d" % (text, nsites), True, "value data written under %s" % sorted(modes), "%s:%s" % (cfg.file, line))
                continue
            if modes == {"NoEscapes"} and len(opening) == 1:
                delim = OPEN[list(opening)[0]]
                nverb += 1

                def is_guard(el, arg=arg, delim=delim):
                    for x in guard.el_top_calls(el):
                        if x[0] == "c" and x[1] == "XMLString::patternMatch" and len(x[3]) >= 2 and x[3][0] == arg and x[3][1] == ["g", delim]:
                            return True
                    return False

                def is_site(el, line=line, arg=arg):
                    return el.get("l") == line and any(x[0] == "c" and x[1] == "XMLFormatter::operator<<" and x[3] and x[3][0] == arg
                                                       for x in guard.el_top_calls(el))
                # empty data cannot contain the delimiter: the tests are written `lent > 0 && patternMatch(...)`
                nonempty = guard.pruned(cfg, lambda leaf: True if (leaf[0] == "b" and leaf[1] == ">" and leaf[2] == ["l", "lent"] and leaf[3] == ["i", 0]) else None)
                res = guard.must_precede(nonempty, is_guard, is_site)
                ok = bool(res) and all(r[3] for r in res)
                rep.ob("C12.d", "processNode/%s" % list(opening)[0], ok,
                       "data is tested for %s before it is written verbatim" % delim if ok else
                       "node value is written verbatim after %s (line %s) without first testing it for the closing delimiter %s: the output "
                       "would not be well-formed" % (list(opening)[0], line, delim), "%s:%s" % (cfg.file, line))
                rep.ob("C12.e", "processNode@%s:%d" % (text, nsites), True, "verbatim inside %s (guarded by C12.d)" % list(opening)[0], "%s:%s" % (cfg.file, line))
                continue
            rep.ob("C12.e", "processNode@%s:%d" % (text, nsites), False,
                   "node value %s is written at line %s with escape mode %s%s: markup characters in the data reach the output unescaped" % (
                       text, line, sorted(modes), "" if not opening else " inside " + str(sorted(opening))), "%s:%s" % (cfg.file, line))
    rep.floor("C12.e", nsites, 6)
    rep.floor("C12.d", nverb, 3)


def json_key(x):
    import json
    return json.dumps(x)


def json_unkey(s):
    import json
    return json.loads(s)


def eaten_rule(rep, f, rid="C12.f", select=None):
    rep.rule(rid, "consumed-count discipline: in every function that calls XMLTranscoder::transcodeTo / transcodeFrom (or an "
             "override) with a local as the 'eaten' out-parameter, that local is read afterwards (to advance the source or to "
             "detect unconsumed input) — a caller that ignores it drops or duplicates data at block boundaries")
    cands = {}
    for x in f.kind("call"):
        nm = x["x"][1].split("::")[-1]
        if nm not in ("transcodeTo", "transcodeFrom") or len(x["x"][3]) < 5:
            continue
        fn = x["_fn"]
        if select and not select(fn):
            continue
        out = x["x"][3][4]
        if out[0] != "l":
            continue
        cands.setdefault(fn["q"], []).append((out[1], x["l"], fn["file"]))
    if not cands:
        raise AnalysisBroken("%s: no transcodeTo/transcodeFrom caller with a local count found" % rid)
    tus = sorted(set(os.path.join(core.REPO, v[0][2]) for v in cands.values() if v[0][2].endswith(".cpp")))
    g = core.run_xa(tus, st="^(" + "|".join(re.escape(q) for q in sorted(cands)) + ")$", flat=False)
    EXEMPT = {"XMLFormatter::getCharRef": "transcodes a constant predefined-entity reference (at most 6 characters) into a 32-byte buffer: it is always consumed whole"}
    n = 0
    for q in sorted(cands):
        for s in g.sts.get(q, []):
            for name in sorted(set(c[0] for c in cands[q])):
                if q in EXEMPT:
                    rep.ob(rid, "%s/%s" % (q, name), True, "exempt: " + EXEMPT[q], "%s:%d" % (s["file"], s["line"]))
                    n += 1
                    continue
                uses = 0
                for e in _exprs(s["body"]):
                    for y in sx_walk(e):
                        if y[0] == "c" and y[1].split("::")[-1] in ("transcodeTo", "transcodeFrom"):
                            continue
                    uses += _count_reads(e, name)
                n += 1
                rep.ob(rid, "%s/%s" % (q, name), uses > 0, "the count '%s' is read %d time(s) after the call" % (name, uses) if uses else
                       "%s never reads '%s', the number of source units the transcoder actually consumed" % (q, name), "%s:%d" % (s["file"], s["line"]))
    rep.floor(rid, n, 1)
    return n


def _count_reads(e, name):
    """reads of local `name` in expression e, not counting its use as an argument of transcodeTo/From."""
    n = 0
    if not isinstance(e, list) or not e:
        return 0
    if e[0] == "l" and e[1] == name:
        return 1
    if e[0] == "c" and e[1].split("::")[-1] in ("transcodeTo", "transcodeFrom"):
        args = e[3]
        for i, a in enumerate(args):
            if i == 4 and a == ["l", name]:
                continue
            n += _count_reads(a, name)
        if e[2] is not None:
            n += _count_reads(e[2], name)
        return n
    if e[0] == "b" and e[1] == "=" and e[2] == ["l", name]:
        return _count_reads(e[3], name)
    for y in e[1:]:
        if isinstance(y, list):
            if y and isinstance(y[0], list):
                for z in y:
                    n += _count_reads(z, name)
            else:
                n += _count_reads(y, name)
    return n


def nearest_rule(rep):
    from ..engines import scope
    rep.rule("C12.g", "nearest declaration wins when the serializer decides whether a namespace binding is already in scope: "
             "DOMLSSerializerImpl::isNamespaceBindingActive / isDefaultNamespacePrefixDeclared walk fNamespaceStack from the "
             "innermost element outwards, and a scope in which the prefix is declared (non-null map lookup) ends the walk on "
             "every path — an inner re-declaration to another URI must hide the outer one, or the element is written without the "
             "xmlns attribute it needs and re-parses into a different namespace")
    qs = ["DOMLSSerializerImpl::isNamespaceBindingActive", "DOMLSSerializerImpl::isDefaultNamespacePrefixDeclared"]
    pat = "^(" + "|".join(re.escape(q) for q in qs) + ")$"
    g = core.run_xa([os.path.join(core.REPO, SER)], cfg=pat, st=pat, flat=False)
    n = 0
    for q in qs:
        cfg = guard.Cfg(g.cfg(q))
        looked = set()
        for bid, i, el in cfg.elements():
            for d in el.get("decl", []):
                if d[2] and any(isinstance(x, list) and x and x[0] == "c" and x[1].split("::")[-1] == "get" for x in sx_walk(d[2])):
                    looked.add(d[0])
        if not looked:
            raise AnalysisBroken("%s: no local initialised from a namespace map lookup" % q)

        def hit(c, looked=looked):
            if isinstance(c, list) and len(c) == 4 and c[0] == "b" and c[1] == "!=" and c[3] == ["i", 0]:
                c = c[2]
            return isinstance(c, list) and len(c) == 2 and c[0] == "l" and c[1] in looked
        n += scope.nearest_wins(rep, "C12.g", g, q, hit, ("size", "fNamespaceStack"), SER)
    rep.floor("C12.g", n, 2)


def charref_rule(rep, f):
    rep.rule("C12.h", "character references name code points, not UTF-16 code units: every function of XMLFormatter / "
             "DOMLSSerializerImpl that turns source characters into `&#x...;` references (calls writeCharRef, or formats with "
             "binToText radix 16 behind an `&#x` prefix) tests for surrogates (a comparison with 0xD800) before formatting — a "
             "surrogate half written as its own reference is not a legal character reference, the output does not parse")
    builders = {}
    for x in f.kind("call"):
        fn = x["_fn"]
        if fn.get("cls") not in ("XMLFormatter", "DOMLSSerializerImpl"):
            continue
        c = x["x"]
        short = c[1].split("::")[-1]
        if short == "writeCharRef" and fn["q"] != c[1]:
            builders.setdefault(fn["q"], fn)
        if short == "binToText" and len(c[3]) >= 4 and c[3][3] == ["i", 16] and not fn["q"].endswith("::writeCharRef") \
                and any(a["rhs"] == ["g", "chPound"] for a in fn["_facts"] if a["k"] == "asg"):
            builders.setdefault(fn["q"], fn)      # hex digits behind an `&#` prefix (not a hex number in an error message)
    # XMLFormatter::formatBuf writes a reference only in the default branch of its switch over the characters of the active
    # escape table (CR and other controls): those are single BMP code units by construction of gEscapeChars (rule C12.a)
    builders.pop("XMLFormatter::formatBuf", None)
    if len(builders) < 2:
        raise AnalysisBroken("character-reference builders not found (%s)" % sorted(builders))
    tus = sorted({os.path.join(core.REPO, fn["file"]) for fn in builders.values()})
    g = core.run_xa(tus, st="^(" + "|".join(re.escape(q) for q in builders) + ")$", flat=False)
    for q in sorted(builders):
        ok = False
        for st in g.sts.get(q, []):
            if any(isinstance(x, list) and len(x) >= 2 and x[0] == "i" and x[1] == 0xD800 for x in sx_walk(st["body"])):
                ok = True
        rep.ob("C12.h", q, ok, "recombines surrogate pairs before writing a reference" if ok else
               "%s writes a character reference for each UTF-16 code unit without testing for surrogates: a supplementary-plane "
               "character becomes two invalid references (&#xD83D;&#xDE00;)" % q, builders[q]["file"])


def split_rule(rep):
    rep.rule("C12.i", "splitting a CDATA section loses no character: in DOMLSSerializerImpl::procCdataSection the read cursor moves "
             "forward by exactly the length of the piece handed to the section writer (recognised forms: `copyNString(piece, cur, "
             "K) ... cur += K`, or the cut `*(cur + A) = 0` with `next = cur + A + B; cur = next`, where B must be 0) — the "
             "re-parsed character data must equal the original up to the division into sections")
    g = core.run_xa([os.path.join(core.REPO, SER)], st=r"^DOMLSSerializerImpl::procCdataSection$", flat=False)
    body = g.st("DOMLSSerializerImpl::procCdataSection")["body"]
    nodes = [x for x in sx_walk(body) if isinstance(x, list) and x]
    adv = [x for x in nodes if x[0] == "b" and x[1] == "+=" and x[2][0] == "l"]
    copies = [x for x in nodes if x[0] == "c" and x[1] == "XMLString::copyNString" and len(x[3]) == 3]
    where = SER
    if adv and copies:
        cur, K = adv[0][2], adv[0][3]
        ok = any(c[3][1] == cur and c[3][2] == K for c in copies)
        rep.ob("C12.i", "procCdataSection", ok, "cursor advances by the length of the piece written (%s)" % sx_str(K) if ok else
               "procCdataSection advances %s by %s but writes a piece of a different length: characters of the value are skipped or "
               "written twice" % (sx_str(cur), sx_str(K)), where)
        return
    # the cut-and-skip form
    cuts = [x for x in nodes if x[0] == "b" and x[1] == "=" and x[2][0] == "u" and x[2][1] == "*" and x[3][0] in ("g", "i")
            and x[2][2][0] == "b" and x[2][2][1] == "+"]
    nexts = [x for x in nodes if x[0] == "b" and x[1] == "=" and x[2][0] == "l" and x[3][0] == "b" and x[3][1] == "+"
             and x[3][2][0] == "b" and x[3][2][1] == "+"]
    if cuts and nexts:
        A = cuts[0][2][2]              # cur + A
        N = nexts[0][3]                # (cur + A) + B
        if N[2] == A:
            rep.ob("C12.i", "procCdataSection", False,
                   "procCdataSection cuts the piece at %s but continues reading at %s: the %s characters in between (the `]]>` itself) "
                   "are dropped from the output" % (sx_str(A), sx_str(N), sx_str(N[3])), where)
            return
    raise AnalysisBroken("procCdataSection: neither of the modelled splitting forms found")


WRITE_STATE_EXEMPT = {
    "DOMLSSerializerImpl::fCurrentLine": "monotonic line counter, only compared with a snapshot taken during the same write",
}
MUTATORS = ("addElement", "put", "push", "removeLastElement", "removeElementAt", "setElementAt", "insertElementAt")


def write_state_rule(rep, f):
    rep.rule("C12.j", "a write does not depend on earlier writes: every member of DOMLSSerializerImpl that the serialisation engine "
             "(processNode and the members it calls on the same object) assigns, increments or mutates as a container is "
             "re-initialised by write() itself (assigned, or emptied with removeAllElements / reset) — a write aborted by a fatal "
             "error otherwise leaves state behind (open namespace scopes) that makes the next write omit declarations it needs")
    cls = "DOMLSSerializerImpl"
    calls = {}
    for x in f.kind("call"):
        fn = x["_fn"]
        c = x["x"]
        if fn.get("cls") == cls and c[1].startswith(cls + "::") and (c[2] is None or c[2] == ["this"]):
            calls.setdefault(fn["q"], set()).add(c[1])
    seen, work = set(), [cls + "::processNode"]
    while work:
        q = work.pop()
        if q in seen:
            continue
        seen.add(q)
        work += list(calls.get(q, ()))
    written = {}
    for x in f.kind("fld"):
        fn = x["_fn"]
        if fn["q"] in seen and x["f"].startswith(cls + "::"):
            how = x["how"]
            if how in ("write", "inc") or (how.startswith("call:") and how[5:] in MUTATORS):
                written.setdefault(x["f"], (fn["q"], x.get("l", 0)))
    reset = set()
    for x in f.kind("fld"):
        if x["_fn"]["q"] == cls + "::write" and x["f"].startswith(cls + "::"):
            how = x["how"]
            if how == "write" or how in ("call:removeAllElements", "call:reset", "call:removeAll"):
                reset.add(x["f"])
    if len(written) < 4:
        raise AnalysisBroken("C12.j: fewer than 4 members written by the serialisation engine (%s)" % sorted(written))
    for fld, (q, l) in sorted(written.items()):
        ok = fld in reset or fld in WRITE_STATE_EXEMPT
        rep.ob("C12.j", fld, ok, ("re-initialised by write()" if fld in reset else "exempt: " + WRITE_STATE_EXEMPT[fld]) if ok else
               "%s is changed while serialising (%s, line %s) but write() does not re-initialise it: what an earlier, possibly aborted, "
               "write left there influences the next one" % (fld, q, l), "src/xercesc/dom/impl/DOMLSSerializerImpl.cpp:%s" % l)


def unrep_mode_rule(rep, g):
    rep.rule("C12.k", "unrepresentable characters in values become character references: the serializer switches the formatter to "
             "UnRep_Fail while it writes names and markup (the TRY_CATCH_THROW blocks) and back with setURCharRef(); every place in "
             "processNode that writes node *value* data under an escaping mode (`<< getNodeValue()`, formatBuf(value, .., "
             "CharEscapes)) is reached only with the reference mode re-established since the last switch to UnRep_Fail (CFG "
             "must-dataflow: generated by setURCharRef, killed by setUnRepFlags(UnRep_Fail)) — otherwise a character the output "
             "encoding lacks aborts the write instead of being written as &#x...;")
    cfg = guard.Cfg(g.cfg("DOMLSSerializerImpl::processNode"))

    def gen(el):
        return any(c[0] == "c" and c[1].split("::")[-1] == "setURCharRef" for c in guard.el_top_calls(el))

    def kill(el):
        return any(c[0] == "c" and c[1].split("::")[-1] == "setUnRepFlags" and c[3] and c[3][0][0] == "e" and c[3][0][1].endswith("UnRep_Fail")
                   for c in guard.el_top_calls(el))
    # entry state: write() constructs the formatter in reference mode, and every case of processNode that recurses into
    # children re-establishes it first (the TEXT / ELEMENT / DOCUMENT cases call setURCharRef themselves)
    st = guard.must_state(cfg, gen_el=gen, kill_el=kill, entry=True)
    n = 0

    def is_value_write(el):
        for c in guard.el_top_calls(el):
            if c[0] != "c":
                continue
            short = c[1].split("::")[-1]
            if short == "operator<<" and c[3] and any(isinstance(y, list) and y and y[0] == "c" and y[1].split("::")[-1] == "getNodeValue" for y in sx_walk(c[3][0])):
                return True
            if short == "formatBuf" and len(c[3]) >= 3 and c[3][2][0] == "e" and c[3][2][1].endswith("CharEscapes"):
                return True
        return False
    for b, i, el in cfg.elements():
        if not is_value_write(el):
            continue
        # value data written verbatim (CDATA, comments, PIs) is a different matter (C12.d): only escaped writes count here
        n += 1
        ok = st(b, i)
        rep.ob("C12.k", "processNode@value:%s" % el.get("l"), ok, "written with character-reference substitution active" if ok else
               "DOMLSSerializerImpl::processNode (line %s) writes value data on a path on which the formatter was last switched to "
               "UnRep_Fail (a TRY_CATCH_THROW block) and not back with setURCharRef(): an unrepresentable character there aborts the "
               "serialisation" % el.get("l"), "%s:%s" % (SER, el.get("l", 0)))
    rep.floor("C12.k", n, 2)


class _StrEval:
    """evaluates a pointer-walking string function's statement tree over concrete small strings: pointers are
    (buffer name, index) pairs, a buffer reads 0 at and past its end; anything else is unmodelled (analysis-broken)."""
    class Ret(Exception):
        def __init__(self, v):
            self.v = v

    def __init__(self, bufs, params):
        self.bufs, self.env, self.steps = bufs, dict(params), 0

    def rd(self, p):
        b = self.bufs[p[0]]
        if p[1] < 0 or p[1] > len(b):
            raise AnalysisBroken("string walk reads outside its buffer (index %d of %d)" % (p[1], len(b)))
        return ord(b[p[1]]) if p[1] < len(b) else 0

    def lv(self, x):
        if x[0] == "l":
            return x[1]
        if x[0] == "p":
            return x[2]
        raise AnalysisBroken("string walk: unmodelled assignment target %s" % x[0])

    def ev(self, x):
        t = x[0]
        if t == "i":
            return x[1]
        if t in ("l", "p"):
            return self.env[self.lv(x)]
        if t == "cast":
            return self.ev(x[2])
        if t == "u":
            op = x[1]
            if op in ("++", "++pre", "++post", "--", "--pre", "--post"):
                k = self.lv(x[2])
                old = self.env[k]
                d = 1 if op[0] == "+" else -1
                new = (old[0], old[1] + d) if isinstance(old, tuple) else old + d
                self.env[k] = new
                return old if op.endswith("post") else new
            v = self.ev(x[2])
            if op == "*":
                return self.rd(v)
            if op == "!":
                return 0 if (v[1] >= 0 if isinstance(v, tuple) else v) else 1
            if op == "-":
                return -v
            raise AnalysisBroken("string walk: unmodelled unary %s" % op)
        if t == "x":
            b, i = self.ev(x[1]), self.ev(x[2])
            return self.rd((b[0], b[1] + i))
        if t == "b":
            op = x[1]
            if op == "=":
                v = self.ev(x[3])
                self.env[self.lv(x[2])] = v
                return v
            if op == "&&":
                return 1 if (self.ev(x[2]) and self.ev(x[3])) else 0
            if op == "||":
                return 1 if (self.ev(x[2]) or self.ev(x[3])) else 0
            a, b = self.ev(x[2]), self.ev(x[3])
            if op in ("+", "-"):
                if isinstance(a, tuple) and isinstance(b, tuple):
                    if op == "-" and a[0] == b[0]:
                        return a[1] - b[1]
                    raise AnalysisBroken("string walk: pointer arithmetic across buffers")
                if isinstance(a, tuple):
                    return (a[0], a[1] + (b if op == "+" else -b))
                return a + b if op == "+" else a - b
            if isinstance(a, tuple) or isinstance(b, tuple):
                if isinstance(a, tuple) and isinstance(b, tuple) and a[0] == b[0]:
                    a, b = a[1], b[1]
                else:
                    raise AnalysisBroken("string walk: pointer compared with a non-pointer")
            return int({"==": a == b, "!=": a != b, "<": a < b, "<=": a <= b, ">": a > b, ">=": a >= b}[op]) if op in ("==", "!=", "<", "<=", ">", ">=") \
                else self._arith(op, a, b)
        if t == "c" and isinstance(x[1], str) and x[1].endswith("::stringLen"):
            p_ = self.ev(x[3][0])
            return len(self.bufs[p_[0]]) - p_[1]
        raise AnalysisBroken("string walk: unmodelled expression %s" % t)

    def _arith(self, op, a, b):
        raise AnalysisBroken("string walk: unmodelled operator %s" % op)

    def run(self, s):
        if s is None:
            return
        self.steps += 1
        if self.steps > 20000:
            raise AnalysisBroken("string walk does not terminate on a small input")
        t = s[0]
        if t == "block":
            for k in s[1]:
                self.run(k)
        elif t == "decl":
            for name, _ty, init, _n in s[1]:
                self.env[name] = self.ev(init) if init is not None else 0
        elif t == "expr":
            self.ev(s[1])
        elif t == "if":
            self.run(s[2] if self.ev(s[1]) else s[3])
        elif t == "while":
            while self.ev(s[1]):
                self.run(s[2])
                self.steps += 1
                if self.steps > 20000:
                    raise AnalysisBroken("string walk does not terminate on a small input")
        elif t == "return":
            raise _StrEval.Ret(self.ev(s[1]))
        else:
            raise AnalysisBroken("string walk: unmodelled statement %s" % t)


def terminator_search_rule(rep):
    import itertools
    rep.rule("C12.m", "the serializer finds every terminator in the data it is about to write verbatim: `]]>` in CDATA sections, `?>` in "
             "processing instructions and `--` in comments are located with XMLString::patternMatch, whose statement tree is evaluated "
             "here for the three terminator shapes over every string of up to 6 characters of a 3-letter alphabet (1092 x 3) and "
             "compared with the first-occurrence index — a search that loses a match overlapping a failed partial match (`]]]>`) lets "
             "the terminator through and the output does not re-parse")
    g = core.run_xa([os.path.join(core.REPO, "src/xercesc/util/XMLString.cpp")], st=r"^XMLString::patternMatch$", flat=False)
    body = g.st("XMLString::patternMatch")["body"]
    users = 0
    f = core.library_facts()
    for x in f.kind("call"):
        if x["x"][1] == "XMLString::patternMatch" and x["_fn"].get("cls") == "DOMLSSerializerImpl":
            users += 1
    rep.floor("C12.m", users, 1)
    n = 0
    for pat, what in (("aab", "]]> (CDATA end)"), ("ab", "?> (PI end)"), ("aa", "-- (comment)")):
        bad = []
        for ln in range(0, 7):
            for tup in itertools.product("abc", repeat=ln):
                text = "".join(tup)
                e = _StrEval({"T": text, "P": pat}, {"toSearch": ("T", 0), "pattern": ("P", 0)})
                try:
                    e.run(body)
                    got = None
                except _StrEval.Ret as r:
                    got = r.v
                n += 1
                if got != text.find(pat):
                    bad.append("in %r: %s, first occurrence is at %d" % (text, got, text.find(pat)))
        rep.ob("C12.m", "patternMatch/%s" % pat, not bad, "first occurrence found in all 1093 strings" if not bad else
               "XMLString::patternMatch, terminator shape %s written as %r over the alphabet a,b,c: %s (+%d more)" % (what, pat, bad[0], len(bad) - 1),
               "src/xercesc/util/XMLString.cpp")
    rep.floor("C12.m", n, 3000)


def run(rep):
    f = core.library_facts()
    g = core.run_xa([os.path.join(core.REPO, SER), os.path.join(core.REPO, FMT)],
                    cfg=r"^DOMLSSerializerImpl::processNode$", st=r"^XMLFormatter::formatBuf$",
                    tables=r"^gEscapeChars$|^g(Amp|Apos|GT|LT|Quote)Ref$", flat=False)
    rep.units.update([SER, FMT])
    tables_rule(rep, g)
    dispatch_rule(rep, f)
    mode_rule(rep, f, g)
    nearest_rule(rep)
    charref_rule(rep, f)
    split_rule(rep)
    write_state_rule(rep, f)
    terminator_search_rule(rep)
    unrep_mode_rule(rep, g)
    from . import C13
    C13.attr_identity_rule(rep, "C12.l")
    eaten_rule(rep, f, "C12.f", lambda fn: fn.get("cls") in ("XMLFormatter", "DOMLSSerializerImpl"))
    diag.run(rep, f, "C12")
    rep.undecided += ["round-trip equality (isEqualNode) and idempotence of serialisation: value-level",
                      "namespace fix-up decisions (which declarations are emitted)", "character-reference generation for unrepresentable characters"]
    return ("Static: exhaustive checks of the escape tables and of the predefined-entity switch; dispatch over the twelve node "
            "types; the escape mode tracked as a typestate over the CFG with the delimiter guard required in front of every "
            "verbatim emission; use of the transcoder's consumed count; diagnostics matrix. Decides these necessary conditions "
            "of well-formed output, not round-trip equality.")
