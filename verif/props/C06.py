"""C06 — namespace processing binds every name to the URI the declarations in scope imply.

C06.a  SAX2 prefix-mapping bookkeeping is balanced (CFG, under the namespaces-on assumption)
C06.b  namespace diagnostics matrix (DIAG)
C06.c  DOM lookupNamespaceURI / lookupPrefix / isDefaultNamespace dispatch over the node types
C06.d  duplicate-detection registries: probe and insert use the same key; loops that probe-and-fill visit every attribute
"""
import os
import re

from .. import core
from ..core import AnalysisBroken, sx_walk, sx_str
from ..engines import diag, guard
from .C18 import _guaranteed

SAX2 = "src/xercesc/parsers/SAX2XMLReaderImpl.cpp"


def _recv_call(el, field, method):
    for x in guard.el_top_calls(el):
        if x[0] == "c" and x[1].split("::")[-1] == method and x[2] and x[2][0] == "f" and x[2][1].endswith("::" + field):
            return True
    return False


def _calls(el, method):
    return any(x[0] == "c" and x[1].split("::")[-1] == method for x in guard.el_top_calls(el))


def _assume(tv):
    def a(leaf):
        if leaf[0] == "c" and leaf[1].split("::")[-1] == "getDoNamespaces" and "ns" in tv:
            return tv["ns"]
        if leaf[0] == "p" and leaf[2] == "isEmpty" and "empty" in tv:
            return tv["empty"]
        if leaf[0] == "f" and leaf[1].endswith("::fDocHandler") and "dh" in tv:
            return tv["dh"]
        return None
    return a


def sax2_rule(rep):
    rep.rule("C06.a", "SAX2 prefix-mapping bookkeeping (CFG of SAX2XMLReaderImpl::startElement/endElement with namespace processing "
             "assumed on): startElement pushes exactly one count on every path, every startPrefixMapping is followed by recording "
             "the prefix, and pops nothing unless the element is empty; the empty-element shortcut and endElement pop one count on "
             "every path and every popped prefix is followed by endPrefixMapping")
    g = core.run_xa([os.path.join(core.REPO, SAX2)], cfg=r"^SAX2XMLReaderImpl::(startElement|endElement)$", flat=False)
    for raw in g.cfgs.get("SAX2XMLReaderImpl::startElement", []):
        cfg = guard.Cfg(raw)
        ns = guard.pruned(cfg, _assume({"ns": True, "dh": True}))
        ok = _guaranteed(ns, lambda el: _recv_call(el, "fPrefixCounts", "push")).get(ns.entry, False)
        rep.ob("C06.a", "startElement/push-count", ok, "a prefix count is pushed on every path" if ok else
               "startElement can finish without pushing the number of prefixes declared on this element: endElement then pops another element's count",
               cfg.file)
        res = guard.must_follow(ns, lambda el: _calls(el, "startPrefixMapping"), lambda el: _recv_call(el, "fPrefixes", "push"))
        bad = [el.get("l") for b, i, el, o in res if not o]
        rep.ob("C06.a", "startElement/record-prefix", bool(res) and not bad, "every startPrefixMapping is followed by recording the prefix" if res and not bad else
               "startPrefixMapping at line %s is not followed by pushing the prefix: its endPrefixMapping is never sent" % bad, cfg.file)
        nonempty = guard.pruned(cfg, _assume({"ns": True, "empty": False, "dh": True}))
        pops = guard.reachable_sites(nonempty, lambda x: x[0] == "c" and x[1].split("::")[-1] == "pop" and x[2] and x[2][0] == "f" and x[2][1].endswith("::fPrefixCounts"), None)
        rb = guard.reachable(nonempty)
        pops = [p for p in pops if p[0] in rb]
        rep.ob("C06.a", "startElement/no-pop-unless-empty", not pops, "the count stays on the stack for non-empty elements" if not pops else
               "startElement pops the prefix count of a non-empty element (line %s)" % [el.get("l") for _, _, el in pops], cfg.file)
        empty = guard.pruned(cfg, _assume({"ns": True, "empty": True, "dh": True}))
        ok = _guaranteed(empty, lambda el: _recv_call(el, "fPrefixCounts", "pop")).get(empty.entry, False)
        rep.ob("C06.a", "startElement/empty-pop", ok, "the empty-element shortcut pops its count on every path" if ok else
               "the empty-element shortcut can return without popping its prefix count: every later endPrefixMapping is shifted", cfg.file)
        dh = guard.pruned(cfg, _assume({"ns": True, "empty": True, "dh": True}))
        res = guard.must_follow(dh, lambda el: _recv_call(el, "fPrefixes", "pop"), lambda el: _calls(el, "endPrefixMapping"))
        bad = [el.get("l") for b, i, el, o in res if not o]
        rep.ob("C06.a", "startElement/empty-endPrefixMapping", bool(res) and not bad, "each popped prefix is reported with endPrefixMapping" if res and not bad else
               "prefix popped at line %s without endPrefixMapping" % bad, cfg.file)
    for raw in g.cfgs.get("SAX2XMLReaderImpl::endElement", []):
        cfg = guard.Cfg(raw)
        ns = guard.pruned(cfg, _assume({"ns": True, "dh": True}))
        ok = _guaranteed(ns, lambda el: _recv_call(el, "fPrefixCounts", "pop")).get(ns.entry, False)
        rep.ob("C06.a", "endElement/pop-count", ok, "one count is popped on every path" if ok else
               "endElement can return without popping the element's prefix count", cfg.file)
        res = guard.must_follow(ns, lambda el: _recv_call(el, "fPrefixes", "pop"), lambda el: _calls(el, "endPrefixMapping"))
        bad = [el.get("l") for b, i, el, o in res if not o]
        rep.ob("C06.a", "endElement/endPrefixMapping", bool(res) and not bad, "each popped prefix is reported with endPrefixMapping" if res and not bad else
               "prefix popped at line %s without endPrefixMapping" % bad, cfg.file)


NODE_TYPES = ["ELEMENT_NODE", "ATTRIBUTE_NODE", "TEXT_NODE", "CDATA_SECTION_NODE", "ENTITY_REFERENCE_NODE", "ENTITY_NODE",
              "PROCESSING_INSTRUCTION_NODE", "COMMENT_NODE", "DOCUMENT_NODE", "DOCUMENT_TYPE_NODE", "DOCUMENT_FRAGMENT_NODE", "NOTATION_NODE"]
# DOM Level 3 Core, Appendix B: the node types with their own rule; the remaining ones (text, comment, PI, CDATA, entity
# reference) take the default branch "ask the ancestor element"
LOOKUP_EXPLICIT = {"ELEMENT_NODE", "DOCUMENT_NODE", "ENTITY_NODE", "NOTATION_NODE", "DOCUMENT_FRAGMENT_NODE", "DOCUMENT_TYPE_NODE", "ATTRIBUTE_NODE"}


def dispatch_rule(rep, f):
    rep.rule("C06.c", "DOMNodeImpl::lookupNamespaceURI, lookupPrefix and isDefaultNamespace switch on the node type with an explicit "
             "case for each node type that DOM Level 3 Core Appendix B treats specially (element, document, entity, notation, "
             "document fragment, document type, attribute) and a default branch for the rest")
    for nm in ("lookupNamespaceURI", "lookupPrefix", "isDefaultNamespace"):
        fns = f.fns_named("DOMNodeImpl::" + nm)
        if not fns:
            raise AnalysisBroken("DOMNodeImpl::%s vanished" % nm)
        sws = [x for fn in fns for x in fn["_facts"] if x["k"] == "switch" and x["enum"] == "DOMNode::NodeType"]
        if not sws:
            raise AnalysisBroken("DOMNodeImpl::%s no longer switches on the node type" % nm)
        cases = set(c for x in sws for c in x["cases"])
        has_default = any(x["default"] for x in sws)
        missing = sorted(LOOKUP_EXPLICIT - cases)
        rep.ob("C06.c", "DOMNodeImpl::" + nm, not missing and has_default,
               "explicit cases %s, default for the rest" % sorted(cases) if not missing and has_default else
               "DOMNodeImpl::%s has no explicit case for %s%s" % (nm, missing, "" if has_default else " and no default branch"),
               "%s:%d" % (fns[0]["file"], fns[0]["line"]))


REG = ("fAttrDupChkRegistry", "fUndeclaredAttrRegistry", "fAttDefRegistry")


def registry_rule(rep, f):
    rep.rule("C06.d", "duplicate-attribute registries (fAttrDupChkRegistry, fUndeclaredAttrRegistry, fAttDefRegistry): in every "
             "function that both probes (containsKey/get) and fills (put) a registry, the key expressions of the probe equal the "
             "key expressions of the insert; and a for-loop that probes and fills a registry visits every element (its upper bound "
             "is the element count, not count-1)")
    n = 0
    per = {}
    for x in f.kind("call"):
        c = x["x"]
        r = c[2]
        if r and r[0] == "f" and r[1].split("::")[-1] in REG:
            per.setdefault((x["_fn"]["q"], r[1].split("::")[-1]), []).append((x["l"], c[1].split("::")[-1], c[3], x["_fn"]))
    for (q, reg), calls in sorted(per.items()):
        probes = [c for c in calls if c[1] in ("containsKey", "get")]
        puts = [c for c in calls if c[1] == "put"]
        if not probes or not puts:
            continue
        for pl, pm, pargs, fn in probes:
            later = [c for c in puts if c[0] >= pl]
            if not later:
                continue
            ul, um, uargs, _ = later[0]
            nk = len(pargs)
            if nk == 0 or len(uargs) < nk:
                continue
            n += 1
            ok = [sx_str(a) for a in pargs] == [sx_str(a) for a in uargs[:nk]]
            rep.ob("C06.d/key", "%s/%s@%d" % (q, reg, n), ok, "probe and insert use the key %s" % [sx_str(a) for a in pargs] if ok else
                   "%s probes %s with key %s (line %d) but inserts with key %s (line %d): the probe can never hit what was inserted, "
                   "duplicates go unnoticed" % (q, reg, [sx_str(a) for a in pargs], pl, [sx_str(a) for a in uargs[:nk]], ul),
                   "%s:%d" % (fn["file"], pl))
    rep.floor("C06.d/key", n, 6)
    # loops
    names = sorted(set(q for (q, reg), calls in per.items() if reg == "fAttrDupChkRegistry" and any(c[1] == "put" for c in calls)))
    tus = sorted(set(os.path.join(core.REPO, fn["file"]) for q in names for fn in f.fns_named(q) if fn["file"].endswith(".cpp")))
    g = core.run_xa(tus, st="^(" + "|".join(re.escape(q) for q in names) + ")$", flat=False)
    k = 0

    def walk(s, q, file):
        nonlocal k
        if not isinstance(s, list) or not s:
            return
        if s[0] == "for":
            body = s[4]
            txt = str(body)
            if "fAttrDupChkRegistry" in txt and "'put'" not in txt and "::put" in txt and "::containsKey" in txt:
                cond = s[2]
                k += 1
                bad = cond and cond[0] == "b" and cond[1] in ("<", "<=") and isinstance(cond[3], list) and cond[3][0] == "b" and cond[3][1] == "-"
                rep.ob("C06.d/loop", "%s@for:%d" % (q, k), not bad, "the probing loop runs to %s" % sx_str(cond[3] if cond else None) if not bad else
                       "%s: the loop that probes and fills the duplicate registry stops at %s: the last attribute is never looked up, so a "
                       "colliding expanded name in last position is accepted" % (q, sx_str(cond[3])), "%s:%s" % (file, s[5]))
        for y in s[1:]:
            if isinstance(y, list):
                if y and isinstance(y[0], list):
                    for z in y:
                        walk(z, q, file)
                else:
                    walk(y, q, file)
    for q in names:
        for s in g.sts.get(q, []):
            walk(s["body"], q, s["file"])
    rep.floor("C06.d/loop", k, 1)


SCOPE_WALKS = [
    # function, file, fields that mark the top of the scope stack
    ("ElemStack::mapPrefixToURI", "src/xercesc/internal/ElemStack.cpp", ("fStackTop",)),
    ("WFElemStack::mapPrefixToURI", "src/xercesc/internal/ElemStack.cpp", ("fStackTop", "fTopPrefix")),
    ("NamespaceScope::getNamespaceForPrefix", "src/xercesc/validators/schema/NamespaceScope.cpp", ("fStackTop",)),
]


def nearest_rule(rep):
    from ..engines import scope
    rep.rule("C06.e", "nearest enclosing declaration wins: the prefix lookups of the scanners' element stacks and of the schema "
             "reader's namespace scope (ElemStack / WFElemStack::mapPrefixToURI, NamespaceScope::getNamespaceForPrefix) walk the "
             "scope stack from its top downwards, and a match of the prefix id in a scope returns on every path (CFG: the true "
             "edge of the `fPrefId == id` test leaves the function; statement tree: the loop over scopes is initialised from the "
             "stack top and decrements)")

    def hit(c):
        return isinstance(c, list) and len(c) == 4 and c[0] == "b" and c[1] == "==" and any(
            isinstance(x, list) and x and x[0] == "f" and x[1].endswith("::fPrefId") for side in (c[2], c[3]) for x in sx_walk(side))
    tus = sorted({os.path.join(core.REPO, w[1]) for w in SCOPE_WALKS})
    pat = "^(" + "|".join(re.escape(w[0]) for w in SCOPE_WALKS) + ")$"
    g = core.run_xa(tus, cfg=pat, st=pat, flat=False)
    n = 0
    for q, file, tops in SCOPE_WALKS:
        n += scope.nearest_wins(rep, "C06.e", g, q, hit, tops, file)
    rep.floor("C06.e", n, 4)


DECLARE_FNS = [
    # start-tag functions that push the xmlns declarations of the tag being scanned
    ("WFXMLScanner::scanStartTagNS", "src/xercesc/internal/WFXMLScanner.cpp"),
    ("DGXMLScanner::scanStartTag", "src/xercesc/internal/DGXMLScanner.cpp"),
    ("IGXMLScanner::scanStartTagNS", "src/xercesc/internal/IGXMLScanner.cpp"),
    ("IGXMLScanner::scanRawAttrListforNameSpaces", "src/xercesc/internal/IGXMLScanner2.cpp"),
    ("SGXMLScanner::scanStartTag", "src/xercesc/internal/SGXMLScanner.cpp"),
    ("SGXMLScanner::scanRawAttrListforNameSpaces", "src/xercesc/internal/SGXMLScanner.cpp"),
    ("XSAXMLScanner::scanStartTag", "src/xercesc/internal/XSAXMLScanner.cpp"),
    ("XSAXMLScanner::scanRawAttrListforNameSpaces", "src/xercesc/internal/XSAXMLScanner.cpp"),
]
DECLARES = ("addPrefix", "updateNSMap", "scanRawAttrListforNameSpaces")
RESOLVES = ("resolvePrefix", "resolveQName", "resolveQNameWithColon", "mapPrefixToURI", "buildAttList")


def declare_first_rule(rep):
    rep.rule("C06.f", "all declarations of a start tag precede every resolution: in the start-tag functions of the five scanners no "
             "call that pushes a namespace declaration (ElemStack::addPrefix, updateNSMap, scanRawAttrListforNameSpaces) is "
             "reachable in the CFG from a call that resolves a prefix (resolvePrefix, resolveQName*, mapPrefixToURI, buildAttList) "
             "— a prefix resolved while declarations of the same tag are still being pushed can bind to an outer, shadowed "
             "namespace when its xmlns attribute comes later in the tag")
    pat = "^(" + "|".join(re.escape(q) for q, _ in DECLARE_FNS) + ")$"
    g = core.run_xa(sorted({os.path.join(core.REPO, fl) for _, fl in DECLARE_FNS}), cfg=pat, flat=False)
    n = 0

    def named(el, names):
        return any(x[0] == "c" and x[1].split("::")[-1] in names for x in guard.el_top_calls(el))
    for q, fl in DECLARE_FNS:
        for raw in g.cfgs.get(q, []):
            cfg = guard.Cfg(raw)
            decl = [(b, i, el) for b, i, el in cfg.elements() if named(el, DECLARES)]
            res = [(b, i, el) for b, i, el in cfg.elements() if named(el, RESOLVES)]
            if not decl:
                continue
            n += 1
            dblocks = {}
            for b, i, el in decl:
                dblocks.setdefault(b, []).append((i, el))
            bad = []
            for b, i, el in res:
                later = [e2 for j, e2 in dblocks.get(b, []) if j > i]
                seen, work = set(), list(cfg.succs(b))
                while work:
                    x = work.pop()
                    if x in seen:
                        continue
                    seen.add(x)
                    work.extend(cfg.succs(x))
                hit = later + [e2 for bb in seen for _, e2 in dblocks.get(bb, [])]
                if hit:
                    bad.append((el.get("l"), hit[0].get("l")))
            rep.ob("C06.f", q + raw.get("sig", ""), not bad,
                   "%d declaring call(s), %d resolving call(s); no declaration after a resolution" % (len(decl), len(res)) if not bad else
                   "%s: the prefix resolution at line %s can be followed by the namespace declaration pushed at line %s of the same "
                   "start tag — a prefix is resolved before all xmlns attributes of its tag are in scope" % (q, bad[0][0], bad[0][1]),
                   "%s:%s" % (fl, bad[0][0] if bad else decl[0][2].get("l", 0)))
    rep.floor("C06.f", n, 6)


def shadow_recheck_rule(rep, f):
    rep.rule("C06.g", "a prefix found on an ancestor is reported only if it is not shadowed (DOM Level 3 Core Appendix B.2): in "
             "DOMNodeImpl::lookupPrefix(namespaceURI, originalElement) every candidate prefix is re-checked by resolving it from the "
             "element the lookup started at — each lookupNamespaceURI call in that function has the originalElement parameter as its "
             "receiver — and the recursion to the ancestor passes originalElement on unchanged")
    n = k = 0
    for x in f.kind("call"):
        fn = x["_fn"]
        if fn["q"] != "DOMNodeImpl::lookupPrefix" or "DOMElement" not in fn.get("sig", ""):
            continue
        c = x["x"]
        short = c[1].split("::")[-1]
        if short == "lookupNamespaceURI":
            n += 1
            ok = bool(c[2]) and c[2][0] == "p" and c[2][2] == "originalElement"
            rep.ob("C06.g", "lookupPrefix@lookupNamespaceURI:%d" % n, ok, "re-check from the original element" if ok else
                   "DOMNodeImpl::lookupPrefix (line %s) re-checks the candidate prefix by resolving it from %s instead of the element the "
                   "lookup started at: a nearer re-declaration of the prefix to another namespace is not seen, the shadowed prefix is "
                   "returned" % (x.get("l"), sx_str(c[2]) if c[2] else "this"), "%s:%s" % (fn["file"], x.get("l", 0)))
        elif short == "lookupPrefix" and len(c[3]) == 2:
            k += 1
            ok = c[3][1][0] == "p" and c[3][1][2] == "originalElement"
            rep.ob("C06.g", "lookupPrefix@recursion:%d" % k, ok, "originalElement passed on" if ok else
                   "DOMNodeImpl::lookupPrefix (line %s) recurses with %s as the original element" % (x.get("l"), sx_str(c[3][1])),
                   "%s:%s" % (fn["file"], x.get("l", 0)))
    rep.floor("C06.g", n, 2)


def undeclare_rule(rep):
    rep.rule("C06.h", "namespace un-declarations are prefix mappings too: in SAX2XMLReaderImpl::startElement the startPrefixMapping call "
             "is controlled (CFG controlling conditions) only by tests that do not look *into* the namespace name — `xmlns=\"\"` (and "
             "`xmlns:p=\"\"` in XML 1.1) must fire startPrefixMapping(prefix, \"\") or a handler that tracks scopes from these events "
             "keeps the outer binding while the elements below are reported in no namespace")
    tu = os.path.join(core.REPO, "src/xercesc/parsers/SAX2XMLReaderImpl.cpp")
    g = core.run_xa([tu], cfg=r"^SAX2XMLReaderImpl::startElement$", flat=False)
    cfg = guard.Cfg(g.cfg("SAX2XMLReaderImpl::startElement"))
    ss = guard.sites(cfg, lambda x: x[0] == "c" and x[1].split("::")[-1] == "startPrefixMapping")
    if not ss:
        raise AnalysisBroken("SAX2XMLReaderImpl::startElement no longer calls startPrefixMapping")
    for k, (bid, i, el) in enumerate(ss):
        uri = el["x"][3][1] if len(el["x"][3]) > 1 else None
        bad = []
        for cond, pol, _p in guard.controlling(cfg, bid):
            for y in sx_walk(cond):
                if isinstance(y, list) and y and ((y[0] == "u" and y[1] == "*" and y[2] == uri) or
                                                   (y[0] == "c" and y[1].split("::")[-1] in ("stringLen", "isEmpty") and uri in y[3]) or
                                                   (y[0] == "x" and y[1] == uri)):
                    bad.append(sx_str(cond))
        rep.ob("C06.h", "startElement@startPrefixMapping:%d" % (k + 1), not bad, "fires for every xmlns attribute, empty value included" if not bad else
               "SAX2XMLReaderImpl::startElement (line %s): startPrefixMapping is skipped when %s — a namespace un-declaration produces no "
               "prefix-mapping event" % (el.get("l"), " / ".join(sorted(set(bad)))), "src/xercesc/parsers/SAX2XMLReaderImpl.cpp:%s" % el.get("l", 0))


def run(rep):
    f = core.library_facts()
    rep.units.update(os.path.relpath(t, core.REPO) for t in f.tus)
    sax2_rule(rep)
    dispatch_rule(rep, f)
    registry_rule(rep, f)
    nearest_rule(rep)
    declare_first_rule(rep)
    shadow_recheck_rule(rep, f)
    undeclare_rule(rep)
    diag.run(rep, f, "C06")
    rep.undecided += ["that the URI bound to each name is the right one (scoping arithmetic in ElemStack): value-level",
                      "DOM lookupNamespaceURI/lookupPrefix results"]
    return ("Static: CFG must-pass-through/must-follow rules for the SAX2 prefix-mapping stacks under the namespaces-on "
            "assumption; dispatch over the DOM node types; key agreement and full coverage of the duplicate-attribute registries; "
            "namespace diagnostics matrix. Decides these necessary conditions, not the bound URIs.")
