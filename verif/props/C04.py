"""C04 — parse result independent of chunking, buffer alignment and source type.

C04.a  look-ahead availability typestate in XMLReader (AVAIL engine)
C04.b  block comparisons (memcmp on the character buffer) are covered by a fresh charsLeftInBuffer() bound
C04.c  refill-until-no-progress: the reader gives up on a multi-character token only when a refill fails
       or adds nothing — never because one refill returned too little (short reads)
C04.d  every BinInputStream::readBytes result is used as the count of valid bytes; carried-over bytes
       are counted (refill-with-carry agreement, shared with C20.e)
"""
import os

from .. import core
from ..core import AnalysisBroken, sx_walk, sx_str
from ..engines import guard, avail

READER_TU = "src/xercesc/internal/XMLReader.cpp"
# implementation of the refill itself / start-up decoding: they *establish* the window, they do not look ahead in it
SKIP = {"refreshCharBuffer", "xcodeMoreChars", "doInitDecode", "refreshRawBuffer", "XMLReader", "~XMLReader",
        "setEncoding", "doInitCharSizeChecks", "checkForSwapped"}
BLOCK_FUNCS = ("XMLReader::skippedString", "XMLReader::skippedStringLong", "XMLReader::peekString")


def _is_local(x):
    return isinstance(x, list) and len(x) == 2 and x[0] == "l"


def _is_clib(x):
    return isinstance(x, list) and x and x[0] == "c" and x[1] == "XMLReader::charsLeftInBuffer"


def block_compare(cfg):
    """relational must-analysis for memcmp(&fCharBuf[fCharIndex], s, N * sizeof(XMLCh)).
    facts: ('cur', L)  local L == charsLeftInBuffer() for the current window
           ('ge', a, b) a >= b  (a, b rendered structural expressions)
    returns [(line, ok, N, facts)]"""
    ALL = None
    IN = {b: ALL for b in cfg.blocks}
    IN[cfg.entry] = frozenset()

    def key(x):
        return sx_str(x)

    out_sites = []

    def flow(bid, report):
        st = IN[bid]
        if st is ALL:
            return None
        facts = set(st)
        pending = {}    # L -> adjusted-by expr key
        for el in cfg.blocks[bid]["els"]:
            xs = []
            if "decl" in el:
                for name, ty, init in el["decl"]:
                    if init is not None:
                        xs.append(("asg", ["l", name], init))
            x = el.get("x")
            if x is not None:
                if x[0] == "b" and x[1] == "=":
                    xs.append(("asg", x[2], x[3]))
                elif x[0] == "b" and x[1] in ("+=", "-="):
                    xs.append((x[1], x[2], x[3]))
                elif x[0] == "c":
                    xs.append(("call", x, None))
                elif x[0] == "u" and x[1] in ("++", "++post", "--", "--post"):
                    xs.append(("inc", x[2], None))
            for kind, lhs, rhs in xs:
                if kind == "asg" and _is_local(lhs):
                    L = lhs[1]
                    facts = set(f for f in facts if not ((f[0] == "cur" and f[1] == L) or (f[0] == "ge" and (f[1] == L or f[2] == L))))
                    pending.pop(L, None)
                    if _is_clib(rhs):
                        facts.add(("cur", L))
                    elif _is_local(rhs):
                        M = rhs[1]
                        if ("cur", M) in facts:
                            facts.add(("cur", L))
                        for f in list(facts):
                            if f[0] == "ge" and f[1] == M:
                                facts.add(("ge", L, f[2]))
                    elif rhs and rhs[0] == "?" and len(rhs) == 4 and rhs[1][0] == "b" and rhs[1][1] == "<" \
                            and rhs[1][2] == rhs[2] and rhs[1][3] == rhs[3]:
                        # L = a < b ? a : b   (minimum)
                        facts.add(("ge", key(rhs[2]), L))
                        facts.add(("ge", key(rhs[3]), L))
                elif kind == "+=" and lhs == ["f", "XMLReader::fCharIndex"]:
                    for f in list(facts):
                        if f[0] == "cur":
                            facts.discard(f)
                            pending[f[1]] = key(rhs)
                elif kind == "-=" and _is_local(lhs) and pending.get(lhs[1]) == key(rhs):
                    # cursor advanced by e and the cached count reduced by e: still the chars left
                    facts = set(f for f in facts if not (f[0] == "ge" and (f[1] == lhs[1] or f[2] == lhs[1])))
                    facts.add(("cur", lhs[1]))
                    pending.pop(lhs[1])
                elif kind in ("+=", "-=", "inc") and _is_local(lhs):
                    L = lhs[1]
                    facts = set(f for f in facts if not ((f[0] == "cur" and f[1] == L) or (f[0] == "ge" and (f[1] == L or f[2] == L))))
                elif kind in ("+=", "-=", "inc") and isinstance(lhs, list) and lhs and lhs[0] == "p":
                    # parameter adjusted (toSkip += n; srcLen -= n): facts about it die
                    nm = lhs[2]
                    facts = set(f for f in facts if not (f[0] == "ge" and (f[1] == nm or f[2] == nm)))
                elif kind == "call":
                    c = lhs
                    sig = c[4] if len(c) > 4 else ""
                    if c[2] == ["this"] and c[1].startswith("XMLReader::") and not sig.endswith("const"):
                        facts = set(f for f in facts if f[0] != "cur")
                        pending.clear()
                    if c[1] == "memcmp" and report:
                        a0 = c[3][0]
                        if guard.mentions(a0, lambda s: s[0] == "f" and s[1] == "XMLReader::fCharBuf"):
                            size = c[3][2]
                            N = None
                            if size[0] == "b" and size[1] == "*":
                                N = size[2] if not (size[2][0] == "i" and len(size[2]) > 2) else size[3]
                            nk = key(N) if N is not None else None
                            ok = nk is not None and any(("cur", f[1]) in facts for f in facts if f[0] == "ge" and f[2] == nk)
                            out_sites.append((el.get("l"), ok, nk, sorted(facts)))
        outs = []
        blk = cfg.blocks[bid]
        term = blk.get("term")
        for idx, s in enumerate(blk["succ"]):
            if s is None:
                continue
            fs = set(facts)
            if term and len(blk["succ"]) == 2 and term.get("cond") is not None:
                c = term["cond"]
                val = idx == 0
                while c[0] == "u" and c[1] == "!":
                    c = c[2]
                    val = not val
                if c[0] == "b" and c[1] in ("<", ">=", ">", "<="):
                    a, b = key(c[2]), key(c[3])
                    if (c[1] == "<" and not val) or (c[1] == ">=" and val):
                        fs.add(("ge", a, b))
                    if (c[1] == ">" and not val) or (c[1] == "<=" and val):
                        fs.add(("ge", b, a))
            outs.append((s, frozenset(fs)))
        return outs

    work = [cfg.entry]
    n = 0
    while work and n < 5000:
        n += 1
        b = work.pop()
        outs = flow(b, False)
        if outs is None:
            continue
        for s, fs in outs:
            new = fs if IN[s] is ALL else (IN[s] & fs)
            if new != IN[s]:
                IN[s] = new
                work.append(s)
    for b in cfg.blocks:
        flow(b, True)
    return out_sites


def giveup_rule(cfg):
    """every `return false` that can be reached without having passed the block comparison must sit directly
    behind the failure edge of refreshCharBuffer() or behind the 'refill added nothing' equality test."""
    def is_cmp(el):
        return any(x[0] == "c" and x[1] == "memcmp" for x in guard.el_top_calls(el))

    def is_ret_false(el):
        return "ret" in el and el["ret"] in (["i", 0],)
    res = guard.must_precede(cfg, is_cmp, is_ret_false)
    out = []
    for bid, i, el, passed in res:
        if passed:
            continue
        # all incoming edges of this block must be allowed give-up guards
        ok = True
        why = []
        for p in cfg.preds[bid]:
            pb = cfg.blocks[p]
            t = pb.get("term")
            if not t or t.get("cond") is None or len(pb["succ"]) != 2:
                ok = False
                why.append("unconditional")
                continue
            k = pb["succ"].index(bid)
            c = t["cond"]
            val = k == 0
            while c[0] == "u" and c[1] == "!":
                c = c[2]
                val = not val
            if c[0] == "c" and c[1] == "XMLReader::refreshCharBuffer" and not val:
                continue
            if c[0] == "b" and c[1] == "==" and val and _is_local(c[2]) and _is_local(c[3]):
                continue
            ok = False
            why.append(sx_str(t["cond"]) + (" true" if k == 0 else " false"))
        out.append((el.get("l"), ok, why))
    return out


def column_rule(rep, g):
    rep.rule("C04.f", "positions do not depend on where the buffer ends: in the name scanners (XMLReader::getName, getNCName) the "
             "characters of a name are copied out in pieces whenever the character buffer runs out; every such copy "
             "`toFill.append(&fCharBuf[start], n)` is accompanied, in the same basic block, by `fCurCol += n` with the same n — a piece "
             "copied without advancing the column makes every later position on that line depend on the refill boundary")
    n = 0
    for q in ("XMLReader::getName", "XMLReader::getNCName"):
        for raw in g.cfgs.get(q, []):
            cfg = guard.Cfg(raw)
            for bid, blk in sorted(cfg.blocks.items()):
                for el in blk["els"]:
                    for c in guard.el_top_calls(el):
                        if not (c[0] == "c" and c[1] == "XMLBuffer::append" and len(c[3]) == 2 and c[3][0][0] == "u" and c[3][0][1] == "&"):
                            continue
                        n += 1
                        N = c[3][1]
                        adds = []
                        for e2 in blk["els"]:
                            x = e2.get("x")
                            if x and x[0] == "b" and x[1] == "+=" and x[2] == ["f", "XMLReader::fCurCol"]:
                                r = x[3]
                                while r[0] == "cast":
                                    r = r[2]
                                adds.append(r)
                        ok = any(a == N for a in adds)
                        rep.ob("C04.f", "%s@append:%s" % (q, el.get("l")), ok, "column advanced by the same count" if ok else
                               "%s (line %s) copies %s name characters out of the buffer without adding that count to fCurCol in the same "
                               "step: positions reported later on the line are short by the part of the name that preceded the refill" % (
                                   q, el.get("l"), core.sx_str(N)), "%s:%s" % (cfg.file, el.get("l", 0)))
    rep.floor("C04.f", n, 5)


def icu_flush_rule(rep, rid="C04.g"):
    f = core.library_facts()
    rep.rule(rid, "block-wise conversion never tells ICU that the input has ended: XMLTranscoder's transcodeFrom / transcodeTo are "
             "called once per buffer block, so every ucnv_toUnicode / ucnv_fromUnicode call made by ICUTranscoder passes flush = "
             "false (argument 7) — with flush set ICU treats a multi-byte character cut by the end of the block as truncated input "
             "and substitutes it, so a document in an ICU-handled multi-byte encoding decodes differently depending on where the "
             "48K refill or a short read happens to fall")
    n = 0
    for x in f.kind("call"):
        c = x["x"]
        if not (c[1].startswith("ucnv_toUnicode") or c[1].startswith("ucnv_fromUnicode")) or x["_fn"].get("cls") != "ICUTranscoder":
            continue
        if len(c[3]) < 8:
            raise AnalysisBroken("%s: unexpected argument list of %s" % (x["_fn"]["q"], c[1]))
        n += 1
        fl = c[3][6]
        while fl[0] == "cast":
            fl = fl[2]
        ok = fl == ["i", 0]
        rep.ob(rid, "%s@%s" % (x["_fn"]["q"], c[1].rsplit("_", 1)[0]), ok, "flush = false" if ok else
               "%s (line %s) calls %s with flush = %s: each block is converted as if it were the end of the input" % (
                   x["_fn"]["q"], x.get("l"), c[1], core.sx_str(c[3][6])), "%s:%s" % (x["_fn"]["file"], x.get("l", 0)))
    if n == 0:
        rep.notes.append("%s: no ICU conversion calls in this build configuration (ICU transcoder not compiled)" % rid)
        return
    rep.floor(rid, n, 3)


def run(rep):
    tus = [os.path.join(core.REPO, READER_TU)]
    g = core.run_xa(tus, cfg="^XMLReader::", flat=False)
    rep.units.add(READER_TU)
    rep.rule("C04.a", "look-ahead availability: on the CFG of every XMLReader member (window-establishing functions excluded) "
             "a read of fCharBuf[fCharIndex + j] is reached only with 'at least j+1 characters available' established on "
             "every path (comparisons of fCharIndex(+j) with fCharsAvail, refreshCharBuffer() true giving one character "
             "only), so no stale character left from an earlier buffer fill can be consumed")
    nreads = 0
    nfun = 0
    for q, raws in sorted(g.cfgs.items()):
        nm = q.split("::")[-1]
        if nm in SKIP:
            continue
        for raw in raws:
            cfg = guard.Cfg(raw)
            r = avail.analyse(cfg)
            if r.unmodelled:
                raise AnalysisBroken("%s: unmodelled look-ahead idiom at line %s: %s" % (q, r.unmodelled[0][0], r.unmodelled[0][1]))
            if not r.reads and not r.addrs:
                continue
            nfun += 1
            nreads += len(r.reads)
            bad = [x for x in r.reads if not x[3]]
            rep.count(len(r.reads))
            rep.ob("C04.a", q, not bad,
                   "%d buffer reads, each with the required availability" % len(r.reads) if not bad else
                   "%s reads fCharBuf[fCharIndex+%d] at line %s with only %d character(s) known to be available: after a refill that "
                   "adds nothing this is a stale character from the previous buffer contents (result depends on buffer alignment)" % (
                       q, bad[0][1], bad[0][0], bad[0][2]),
                   "%s:%s" % (raw["file"], bad[0][0] if bad else r.reads[0][0] if r.reads else 0),
                   detail={"reads": r.reads})
    rep.floor("C04.a", nreads, 30)
    rep.floor("C04.a/functions", nfun, 14)

    rep.rule("C04.b", "block comparisons: every memcmp on &fCharBuf[fCharIndex] of N characters is reached only with a local "
             "that still equals charsLeftInBuffer() for the current window and is >= N on every path")
    rep.rule("C04.c", "refill until no progress: in skippedString / skippedStringLong / peekString a 'no match' return before the "
             "comparison is taken only directly behind a failed refreshCharBuffer() or behind the test that the refill added "
             "nothing — one short read never decides the outcome")
    ns = 0
    for q in BLOCK_FUNCS:
        raws = g.cfgs.get(q)
        if not raws:
            raise AnalysisBroken("anchor %s vanished" % q)
        for raw in raws:
            cfg = guard.Cfg(raw)
            sites = block_compare(cfg)
            if not sites:
                raise AnalysisBroken("%s no longer compares against the character buffer (idiom changed)" % q)
            for line, ok, N, facts in sites:
                ns += 1
                rep.ob("C04.b", "%s@memcmp" % q, ok, "compared length %s is covered by a fresh charsLeftInBuffer() bound" % N if ok else
                       "memcmp of %s characters at line %s is not covered by a fresh charsLeftInBuffer() bound (facts: %s)" % (N, line, facts),
                       "%s:%s" % (raw["file"], line))
            gu = giveup_rule(cfg)
            if not gu and q != "XMLReader::peekString":
                raise AnalysisBroken("%s has no give-up path (idiom changed)" % q)
            bad = [x for x in gu if not x[1]]
            rep.ob("C04.c", q, not bad, "%d give-up return(s), each behind a failed or fruitless refill" % len(gu) if not bad else
                   "%s gives up at line %s behind %s: a short read (refill that returns fewer characters than asked) changes the result" % (q, bad[0][0], bad[0][2]),
                   "%s:%s" % (raw["file"], bad[0][0] if bad else 0))
    rep.floor("C04.b", ns, 3)

    readbytes_rule(rep)
    from . import C05
    C05.utf8_advance_rule(rep, "C04.e")
    column_rule(rep, g)
    icu_flush_rule(rep)
    rep.undecided += ["equality of the event stream across partitions of the input (refill arithmetic, transcoders' bytesEaten): value-level",
                      "error positions across source types"]
    rep.assumptions += ["refreshCharBuffer() true guarantees only one available character (it returns true with just the spare character)",
                        "any non-const XMLReader member called on this may move the window"]
    return ("Static: forward must-dataflow over the CFG of every XMLReader member for the availability of look-ahead "
            "characters; a relational must-analysis for the three block comparisons; dominance of give-up returns by "
            "failed/fruitless refills; use of every readBytes result. Decides these necessary conditions of chunk "
            "independence, not the equality of results.")


def readbytes_rule(rep, rid="C04.d", select=None):
    f = core.library_facts()
    rep.rule(rid, "short reads are tolerated structurally: the value returned by every BinInputStream::readBytes call in the "
             "library is kept (assigned, initialises a local, or returned), never discarded; where a read is issued behind "
             "carried-over bytes (destination offset by a count) the consumer is handed result + carry")
    n = 0
    for x in f.kind("call"):
        c = x["x"]
        if c[1].split("::")[-1] != "readBytes":
            continue
        fn = x["_fn"]
        if select and not select(fn):
            continue
        if fn.get("cls", "").endswith("InputStream") and fn["name"] == "readBytes":
            # forwarding implementations
            pass
        kept = False
        for y in fn["_facts"]:
            if y["k"] == "asg" and abs(y["l"] - x["l"]) <= 3 and guard.mentions(y["rhs"], lambda s: s == c):
                kept = True
            if y["k"] == "local" and y.get("init") is not None and guard.mentions(y["init"], lambda s: s == c):
                kept = True
            if y["k"] == "ret" and guard.mentions(y["x"], lambda s: s == c):
                kept = True
        n += 1
        rep.ob(rid, "%s@readBytes:%d" % (fn["q"], n), kept,
               "result kept as the number of valid bytes" if kept else "%s discards the number of bytes actually read (line %d)" % (fn["q"], x["l"]),
               "%s:%d" % (fn["file"], x["l"]))
        # carry
        dst = c[3][0] if c[3] else None
        carry = None
        if dst and dst[0] == "b" and dst[1] == "+":
            carry = dst[3]
        elif dst and dst[0] == "u" and dst[1] == "&" and dst[2][0] == "x" and dst[2][2] != ["i", 0]:
            carry = dst[2][2]
        if carry is not None:
            # the consumer call (transcodeFrom / xcodeMoreChars-like) must receive result + carry
            ok = False
            for y in fn["_facts"]:
                if y["k"] in ("asg", "local"):
                    e = y.get("rhs") if y["k"] == "asg" else y.get("init")
                    if e and e[0] == "b" and e[1] == "+" and ({sx_str(e[2]), sx_str(e[3])} >= {sx_str(carry)}):
                        ok = True
            rep.ob(rid + "/carry", "%s@readBytes:%d" % (fn["q"], n), ok,
                   "bytes carried over (%s) are added to the count read" % sx_str(carry) if ok else
                   "reads behind %s carried-over bytes but never adds them to the number of valid bytes" % sx_str(carry),
                   "%s:%d" % (fn["file"], x["l"]))
    rep.floor(rid, n, 3 if select is None else 1)
