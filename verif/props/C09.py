"""C09 — schema datatypes: lexical, value-space, facet and canonical-form correctness.

C09.a  the built-in derived types the factory constructs equal XML Schema Part 2: base type, list variety and
       value-space facets (numeric bounds, whiteSpace, minLength) read from the straight-line "table as code"
       in DatatypeValidatorFactory::expandRegistryToFullSchemaSet with every string constant resolved
C09.b  XSValue: the data-type name registry covers the same built-in list; the group handlers have a case for
       every data type (DISPATCH)
C09.c  datatype diagnostics matrix (DIAG): every lexical/facet violation code confirmed per validator function
"""
import os

from .. import core
from ..core import AnalysisBroken, sx_walk, sx_str
from ..engines import diag, dispatch, guard
from ..oracles import xsd_builtins as O

FACTORY = "DatatypeValidatorFactory::expandRegistryToFullSchemaSet"
TUS = ["src/xercesc/util/XMLUni.cpp", "src/xercesc/validators/schema/SchemaSymbols.cpp",
       "src/xercesc/validators/datatype/DatatypeValidatorFactory.cpp"]


def _strings(g):
    s = {}
    for q, t in g.tables.items():
        v = t.get("v")
        if isinstance(v, list) and v and all(isinstance(c, int) for c in v) and 0 in v:
            try:
                s[q] = "".join(chr(c) for c in v[:v.index(0)])
            except ValueError:
                pass
    return s


def _name(x, strs):
    """string value of a constant reference expression (through casts)."""
    while isinstance(x, list) and x and x[0] == "cast":
        x = x[2]
    if isinstance(x, list) and x and x[0] == "g":
        return strs.get(x[1])
    return None


def builtins_rule(rep, f):
    rep.rule("C09.a", "built-in derived types equal XML Schema Part 2 §3.3: reading DatatypeValidatorFactory::"
             "expandRegistryToFullSchemaSet as a table (facets = new ..; facets->put(K, new KVStringPair(K, V)) ..; "
             "createDatatypeValidator(NAME, getDatatypeValidator(BASE), facets, .., isList, ..)) with every XMLCh constant "
             "resolved to its text, each derived type has the base type, list variety and value-space facets (numeric bounds, "
             "whiteSpace, minLength, fractionDigits) the recommendation gives; primitives and the Name family are registered "
             "under their names with the right base")
    g = core.run_xa([os.path.join(core.REPO, t) for t in TUS], tables=r"^(XMLUni|SchemaSymbols)::fg\w+$", flat=False)
    strs = _strings(g)
    if len(strs) < 300:
        raise AnalysisBroken("only %d string constants resolved" % len(strs))
    fn = f.fn(FACTORY)
    ev = []
    for x in fn["_facts"]:
        if x["k"] == "new" and x["x"][1] == "KVStringPair":
            ev.append((x["l"], 1, "kv", x["x"][3]))
        elif x["k"] == "call" and x["x"][1].split("::")[-1] == "createDatatypeValidator":
            ev.append((x["l"], 2, "create", x["x"][3]))
        elif x["k"] == "asg" and x["lhs"] == ["l", "facets"]:
            ev.append((x["l"], 0, "reset", None))
        elif x["k"] == "new" and x["x"][1].endswith("DatatypeValidator") and x["x"][1] != "RefHashTableOf<DatatypeValidator>":
            ev.append((x["l"], 1, "newdv", x["x"]))
        elif x["k"] == "call" and x["x"][1].split("::")[-1] == "put" and x["x"][2] and "fBuiltInRegistry" in str(x["x"][2]):
            ev.append((x["l"], 2, "put", x["x"][3]))
    ev.sort(key=lambda e: (e[0], e[1]))
    facets = {}
    found = {}
    direct = {}
    lastnew = None
    for l, _, kind, a in ev:
        if kind == "reset":
            facets = {}
        elif kind == "kv":
            k, v = _name(a[0], strs), _name(a[1], strs)
            if k is None:
                raise AnalysisBroken("%s:%d facet name is not a resolvable constant" % (fn["file"], l))
            facets[k] = v if v is not None else True
        elif kind == "create":
            name = _name(a[0], strs)
            base = None
            for y in sx_walk(a[1]):
                if y[0] == "c" and y[1].split("::")[-1] == "getDatatypeValidator":
                    base = _name(y[3][0], strs)
            is_list = a[4] == ["i", 1]
            found[name] = (base, is_list, dict(facets), l)
            facets = {}
        elif kind == "newdv":
            base = None
            for y in sx_walk(a):
                if isinstance(y, list) and y and y[0] == "c" and y[1].split("::")[-1] == "getDatatypeValidator":
                    base = _name(y[3][0], strs)
            lastnew = (a[1], base, l)
        elif kind == "put":
            name = _name(a[0], strs)
            if lastnew:
                direct[name] = lastnew
    n = 0
    for name, (base, is_list, fac) in sorted(O.DERIVED.items()):
        n += 1
        got = found.get(name)
        where = "%s:%d" % (fn["file"], got[3] if got else fn["line"])
        if not got:
            rep.ob("C09.a", name, False, "built-in type '%s' is no longer constructed by the factory" % name, where)
            continue
        problems = []
        if got[0] != base:
            problems.append("base is '%s', the recommendation derives it from '%s'" % (got[0], base))
        if got[1] != is_list:
            problems.append("variety is %s, expected %s" % ("list" if got[1] else "atomic", "list" if is_list else "atomic"))
        for k, v in fac.items():
            gv = got[2].get(k)
            if v is True:
                if gv is None:
                    problems.append("facet %s is missing" % k)
            elif gv != v:
                problems.append("facet %s is '%s', the recommendation says '%s'" % (k, gv, v))
        for k in got[2]:
            if k not in fac and k not in ("pattern", "whiteSpace"):
                problems.append("unexpected facet %s=%s" % (k, got[2][k]))
        rep.ob("C09.a", name, not problems, "%s <- %s%s %s" % (name, base, " (list)" if is_list else "", {k: v for k, v in got[2].items() if k != "pattern"}) if not problems else
               "built-in type '%s': %s" % (name, "; ".join(problems)), where)
    for name, base in sorted(O.DIRECT.items()):
        n += 1
        got = direct.get(name)
        ok = bool(got) and got[1] == base
        rep.ob("C09.a", name, ok, "%s <- %s (%s)" % (name, base, got[0]) if ok else
               "built-in type '%s' is %s, expected base '%s'" % (name, "registered with base '%s'" % got[1] if got else "not registered", base),
               "%s:%d" % (fn["file"], got[2] if got else fn["line"]))
    for name in O.PRIMITIVES:
        n += 1
        got = direct.get(name)
        want_cls = {"string": "String", "boolean": "Boolean", "decimal": "Decimal", "float": "Float", "double": "Double", "duration": "Duration",
                    "dateTime": "DateTime", "time": "Time", "date": "Date", "gYearMonth": "YearMonth", "gYear": "Year", "gMonthDay": "MonthDay",
                    "gDay": "Day", "gMonth": "Month", "hexBinary": "HexBinary", "base64Binary": "Base64Binary", "anyURI": "AnyURI", "QName": "QName",
                    "NOTATION": "NOTATION", "anySimpleType": "AnySimpleType"}[name] + "DatatypeValidator"
        ok = bool(got) and got[0] == want_cls
        rep.ob("C09.a", name, ok, "%s is a %s" % (name, want_cls) if ok else
               "primitive '%s' is registered as %s, expected %s" % (name, got[0] if got else "nothing", want_cls), "%s:%d" % (fn["file"], got[2] if got else fn["line"]))
    rep.floor("C09.a", n, 40)
    return strs


def xsvalue_rule(rep, f, strs):
    rep.rule("C09.b", "XSValue's name registry (initializeRegistry) maps each built-in type name to the data type of the same name")
    fn = f.fn("XSValue::initializeRegistry")
    k = 0
    for x in fn["_facts"]:
        if x["k"] == "call" and x["x"][1].split("::")[-1] == "put" and len(x["x"][3]) >= 2:
            name = _name(x["x"][3][0], strs)
            dt = None
            for y in sx_walk(x["x"][3][1]):
                if y[0] == "e":
                    dt = y[1].split("::")[-1]
            if name is None or dt is None:
                continue
            k += 1
            want = "dt_" + name
            rep.ob("C09.b", "XSValue/%s" % name, dt == want, "%s -> %s" % (name, dt) if dt == want else
                   "type name '%s' is mapped to XSValue::%s instead of %s" % (name, dt, want), "%s:%d" % (fn["file"], x["l"]))
    rep.floor("C09.b", k, 40)


# the one checkContent whose base call is legitimately conditional on more than "a base exists"
BASE_FIRST_ALLOW = {
    "ListDatatypeValidator::checkContent": ("DatatypeValidator::getType", "DatatypeValidator::List",
        "a list's base validator is either another list (restriction of a list: delegate) or the item type, which the "
        "else-branch applies to every token with validate()"),
}


def base_first_rule(rep, f):
    rep.rule("C09.c", "restriction only narrows: every DatatypeValidator::checkContent override passes the value to the base "
             "validator's checkContent (asBase = true), and that call is controlled by nothing but the test that a base "
             "validator exists — a derived type that skips its base for some values accepts values outside the base's value space")
    fns = [fn for fn in f.fns.values() if fn["q"].endswith("::checkContent") and "/validators/datatype/" in fn.get("file", "")
           and fn["file"].endswith(".cpp")]
    tus = sorted({os.path.join(core.REPO, fn["file"]) for fn in fns})
    if not tus:
        raise AnalysisBroken("no checkContent override found under validators/datatype")
    g = core.run_xa(tus, cfg="::checkContent$", flat=False)
    n = 0
    for q, cs in sorted(g.cfgs.items()):
        for c in cs:
            cfg = guard.Cfg(c)
            calls = guard.sites(cfg, lambda x: x[0] == "c" and x[1].endswith("::checkContent"))
            if any(el["x"][2] == ["this"] for _, _, el in calls):
                continue      # thin overload delegating to the real one on the same object
            where = "%s:%s" % (c.get("file", ""), c.get("line", 0))
            base = []
            for bid, i, el in calls:
                x = el["x"]
                recv = x[2]
                while recv and recv[0] == "cast":
                    recv = recv[2]
                if recv and recv[0] == "l" and any(a == ["i", 1] for a in x[3]):
                    base.append((bid, el, recv))
            n += 1
            if not base:
                rep.ob("C09.c", q, False, "%s never hands the value to the base validator's checkContent(.., asBase = true, ..)" % q, where)
                continue
            for bid, el, recv in base:
                bad = []
                for cond, pol, _p in guard.controlling(cfg, bid):
                    cc = cond
                    if cc[0] == "b" and cc[1] == "!=" and cc[3] == ["i", 0]:
                        cc = cc[2]
                    if cc == recv and pol:
                        continue
                    al = BASE_FIRST_ALLOW.get(q)
                    if al and pol and cc[0] == "b" and cc[1] == "==" and cc[2][0] == "c" and cc[2][1] == al[0] and cc[2][2] == recv \
                            and cc[3][0] == "e" and cc[3][1] == al[1]:
                        continue
                    bad.append("%s%s" % ("" if pol else "!", core.sx_str(cond)))
                rep.ob("C09.c", q, not bad,
                       "base checkContent call controlled only by the existence of the base validator" if not bad else
                       "%s (line %s): the call of the base validator's checkContent is additionally conditional on %s — values for "
                       "which it is skipped are not checked against the base type" % (q, el.get("l"), "; ".join(bad)),
                       "%s:%s" % (c.get("file", ""), el.get("l", 0)))
    rep.floor("C09.c", n, 9)


# XML Schema Part 2 §3.2.6.2: the four dateTimes s for which s+x is compared with s+y
REF_DATETIMES = [(1696, 9, 1), (1697, 2, 1), (1903, 3, 1), (1903, 7, 1)]


def _index_values(node, callee, operand_pos, operand, idx_pos, env, out):
    """collect the values of argument idx_pos of every `callee` call whose argument operand_pos is `operand`,
    interpreting constant-bounded for loops; an index the walk cannot evaluate is recorded as None."""
    if not isinstance(node, list) or not node:
        return
    if node[0] == "for" and len(node) >= 5:
        init, cond, inc, body = node[1], node[2], node[3], node[4]
        rng = None
        if init and init[0] == "decl" and len(init[1]) == 1 and init[1][0][2] and init[1][0][2][0] == "i" and cond and cond[0] == "b" \
                and cond[1] in ("<", "<=") and cond[2] == ["l", init[1][0][0]] and cond[3][0] == "i" \
                and inc and inc[0] == "u" and inc[1] in ("++post", "++pre", "++") and inc[2] == ["l", init[1][0][0]]:
            hi = cond[3][1] + (1 if cond[1] == "<=" else 0)
            rng = (init[1][0][0], list(range(init[1][0][2][1], hi)))
        if rng:
            env = dict(env)
            env[rng[0]] = rng[1]
        else:
            env = dict(env)
            if init and init[0] == "decl":
                for d in init[1]:
                    env[d[0]] = None
        _index_values(body, callee, operand_pos, operand, idx_pos, env, out)
        return
    if node[0] == "c" and node[1] == callee and len(node[3]) > max(operand_pos, idx_pos) and node[3][operand_pos] == operand:
        a = node[3][idx_pos]
        if a[0] == "i":
            out.append([a[1]])
        elif a[0] == "l" and env.get(a[1]) is not None:
            out.append(env[a[1]])
        else:
            out.append(None)
    for c in (node if isinstance(node[0], list) else node[1:]):
        if isinstance(c, list):
            _index_values(c, callee, operand_pos, operand, idx_pos, env, out)


def duration_order_rule(rep, f):
    rep.rule("C09.d", "order of durations (XML Schema Part 2 §3.2.6.2): the reference table DATETIMES holds exactly the four "
             "dateTimes of the recommendation, and XMLDateTime::compare(d1, d2, strict) adds every one of them to both operands "
             "(the set of row indices passed to addDuration, constant-bounded loops unrolled, is the whole table) — a comparison "
             "that leaves a reference dateTime out reports an order for durations the recommendation calls indeterminate")
    tu = os.path.join(core.REPO, "src/xercesc/util/XMLDateTime.cpp")
    g = core.run_xa([tu], tables=r"^DATETIMES$", st=r"^XMLDateTime::compare$", flat=False)
    t = g.table("DATETIMES")
    rows = t["v"]
    got = [tuple(r[:3]) for r in rows]
    rep.ob("C09.d", "DATETIMES", got == REF_DATETIMES and all(all(v == 0 for v in r[3:7]) for r in rows),
           "reference dateTimes %s" % got if got == REF_DATETIMES else "DATETIMES holds %s, the recommendation lists %s" % (got, REF_DATETIMES),
           "src/xercesc/util/XMLDateTime.cpp:%s" % t.get("line", 0))
    sts = [s for s in g.sts.get("XMLDateTime::compare", []) if s["sig"].count(",") == 2]
    if not sts:
        raise AnalysisBroken("XMLDateTime::compare(const XMLDateTime*, const XMLDateTime*, bool) not found")
    body = sts[0]["body"]
    for pos, name in ((0, "pDate1"), (1, "pDate2")):
        out = []
        _index_values(body, "XMLDateTime::addDuration", 1, ["p", pos, name], 2, {}, out)
        if not out:
            raise AnalysisBroken("XMLDateTime::compare: no addDuration call for operand %s" % name)
        if any(o is None for o in out):
            raise AnalysisBroken("XMLDateTime::compare: an addDuration index for %s is not a constant or a constant-bounded loop variable" % name)
        used = sorted(set(v for o in out for v in o))
        want = list(range(len(rows)))
        rep.ob("C09.d", "compare/" + name, used == want,
               "rows %s of DATETIMES are applied to %s" % (used, name) if used == want else
               "XMLDateTime::compare applies only the reference dateTimes %s to %s; the table has rows %s — the order of two durations "
               "is decided without %s" % (used, name, want, [REF_DATETIMES[i] for i in want if i not in used and i < len(REF_DATETIMES)]),
               "src/xercesc/util/XMLDateTime.cpp:%s" % sts[0].get("line", 0))


def base64_filler_rule(rep):
    rep.rule("C09.e", "base64Binary final quantum (XML Schema Part 2 3.2.16: `B16 '='` and `B04 '=='`): in Base64::decode the branch "
             "for two pad characters rejects the value unless the low 4 bits of the preceding sextet are zero, the branch for one "
             "pad unless the low 2 bits are zero (CFG: the filler test found under the controlling conditions isPad(d3) / isPad(d4) "
             "uses mask 0xF resp. 0x3 and its failing edge leaves the function) — a narrower mask accepts literals outside the "
             "lexical space, which then have no canonical form")
    g = core.run_xa([os.path.join(core.REPO, "src/xercesc/util/Base64.cpp")], cfg=r"^Base64::decode$", flat=False)
    n = 0
    for raw in g.cfgs.get("Base64::decode", []):
        cfg = guard.Cfg(raw)
        for bid, blk in sorted(cfg.blocks.items()):
            t = blk.get("term")
            c = t and t.get("cond")
            if not (c and c[0] == "b" and c[1] == "!=" and c[3] == ["i", 0] and c[2][0] == "b" and c[2][1] == "&" and c[2][3][0] == "i"):
                continue
            pads = {}
            for cond, pol, _p in guard.controlling(cfg, bid):
                cc, neg = cond, False
                while cc[0] == "u" and cc[1] == "!":
                    cc, neg = cc[2], not neg
                if cc[0] == "c" and cc[1].split("::")[-1] == "isPad" and cc[3] and cc[3][0][0] == "l":
                    pads[cc[3][0][1]] = (pol != neg)
            if len(pads) < 2:
                continue
            names = sorted(pads)            # d3, d4
            two = all(pads[k] for k in names)
            want = 0xF if two else 0x3
            n += 1
            mask = c[2][3][1]
            rep.ob("C09.e", "decode/%s" % ("two-pad" if two else "one-pad"), mask == want,
                   "filler bits tested with mask 0x%X" % mask if mask == want else
                   "Base64::decode (line %s): the %s branch tests the filler bits with mask 0x%X instead of 0x%X: a final quantum with "
                   "non-zero filler bits is accepted" % (t.get("l"), "two-pad (xx==)" if two else "one-pad (xxx=)", mask, want),
                   "src/xercesc/util/Base64.cpp:%s" % t.get("l", 0))
    rep.floor("C09.e", n, 2)


def union_compare_rule(rep):
    rep.rule("C09.f", "two values of a union are equal only as values of a member type that accepts both: in "
             "UnionDatatypeValidator::compare every call of a member validator's compare() is preceded, in the same basic block "
             "(the try block of one loop round), by validate() of the left and of the right value on that member — a member that "
             "rejects the literals (facets) must not be the one that declares them equal in its primitive value space")
    g = core.run_xa([os.path.join(core.REPO, "src/xercesc/validators/datatype/UnionDatatypeValidator.cpp")],
                    cfg=r"^UnionDatatypeValidator::compare$", flat=False)
    cfg = guard.Cfg(g.cfg("UnionDatatypeValidator::compare"))
    n = 0
    for bid, blk in sorted(cfg.blocks.items()):
        els = blk["els"]
        for i, el in enumerate(els):
            for c in guard.el_top_calls(el):
                if not (c[0] == "c" and c[1] == "DatatypeValidator::compare" and c[2] and c[2] != ["this"] and len(c[3]) >= 2):
                    continue
                n += 1
                seen = set()
                for e2 in els[:i]:
                    for v in guard.el_top_calls(e2):
                        if v[0] == "c" and v[1] == "DatatypeValidator::validate" and v[2] == c[2] and v[3]:
                            seen.add(sx_str(v[3][0]))
                need = {sx_str(c[3][0]), sx_str(c[3][1])}
                ok = need <= seen
                rep.ob("C09.f", "UnionDatatypeValidator::compare@%s" % el.get("l"), ok, "both operands validated against the member first" if ok else
                       "UnionDatatypeValidator::compare (line %s) lets a member type compare %s without first validating %s against it" % (
                           el.get("l"), sorted(need), sorted(need - seen)), "src/xercesc/validators/datatype/UnionDatatypeValidator.cpp:%s" % el.get("l", 0))
    rep.floor("C09.f", n, 1)


def chunk_normalisation_rule(rep, f):
    rep.rule("C09.g", "the whiteSpace facet is applied to an element's value as a whole although it arrives in chunks (text, CDATA "
             "sections, entity boundaries): SchemaValidator::normalizeWhiteSpace keeps the collapse state between chunks unless it is "
             "told the value is standalone; in the character-data paths of the schema-aware scanners (sendCharData, scanCDSection) "
             "it is never called with standalone = true — that would drop the white space at a chunk boundary (`12<![CDATA[ 34]]>` "
             "validating as the integer 1234)")
    n = 0
    for x in f.kind("call"):
        c = x["x"]
        q = x["_fn"]["q"]
        if c[1].split("::")[-1] != "normalizeWhiteSpace" or q.split("::")[-1] not in ("sendCharData", "scanCDSection"):
            continue
        n += 1
        a = c[3][3] if len(c[3]) > 3 else ["def", ["i", 0]]
        standalone = not (a[0] == "def" or a == ["i", 0])
        rep.ob("C09.g", "%s@normalizeWhiteSpace:%s" % (q, x.get("l")), not standalone, "chunk-wise (collapse state carried over)" if not standalone else
               "%s (line %s) normalises a chunk of element content as a standalone value: white space at the boundary to the neighbouring "
               "chunk is dropped instead of collapsed" % (q, x.get("l")), "%s:%s" % (x["_fn"]["file"], x.get("l", 0)))
    rep.floor("C09.g", n, 5)


def run(rep):
    f = core.library_facts()
    rep.units.update(os.path.relpath(t, core.REPO) for t in f.tus)
    strs = builtins_rule(rep, f)
    xsvalue_rule(rep, f, strs)
    base_first_rule(rep, f)
    duration_order_rule(rep, f)
    base64_filler_rule(rep)
    union_compare_rule(rep)
    chunk_normalisation_rule(rep, f)
    diag.run(rep, f, "C09")
    dispatch.run(rep, f, "C09")
    rep.undecided += ["lexical and value-space verdicts of each validator, facet arithmetic, comparison order (consistency, indeterminate cases), "
                      "canonical forms and their idempotence, agreement of XSValue with in-parse validation: value-level"]
    rep.assumptions += ["oracle: XML Schema Part 2 (2nd ed.) §3.2/§3.3, transcribed in verif/oracles/xsd_builtins.py"]
    return ("Static: the factory's construction of the 45 built-in types read as a table with all constants resolved and compared "
            "with the recommendation (bases, variety, numeric bounds, whitespace); XSValue's registry and group dispatch; datatype "
            "diagnostics matrix. Decides the built-in type table, not the validators' verdicts.")
