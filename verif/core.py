"""Driver core: compile database, xa runs, fact loading, verdict plumbing.

Nothing here executes the library under analysis.  `cmake` is run in
*configure-only* mode to obtain the generated headers and the exact compiler
flags; every source and header is re-parsed from the analysed root's working
tree on every run.
"""
import atexit
import glob
import hashlib
import json
import os
import shutil
import subprocess
import sys
import tempfile
import time
from concurrent.futures import ThreadPoolExecutor

VERIF = os.path.dirname(os.path.dirname(os.path.abspath(__file__)))
REPO = os.environ.get("VERIF_REPO", "/repo")
CACHE = os.path.join(VERIF, ".cache")
XA_SRC = os.path.join(VERIF, "tools", "xa", "xa.cc")
XA_BIN = os.path.join(CACHE, "xa")
NPROC = int(os.environ.get("VERIF_JOBS", "16"))

EXIT_OK, EXIT_VIOLATION, EXIT_BROKEN = 0, 1, 2


class AnalysisBroken(Exception):
    """The analysis cannot give a verdict (anchor vanished, parse failure,
    unmodelled idiom, instance count below the confirmed floor)."""


# --------------------------------------------------------------------------
# scratch space
_scratch = []


def scratch_dir(prefix="xverif."):
    base = os.environ.get("TMPDIR", "/tmp")
    d = tempfile.mkdtemp(prefix=prefix, dir=base)
    _scratch.append(d)
    return d


def _cleanup():
    for d in _scratch:
        shutil.rmtree(d, ignore_errors=True)


atexit.register(_cleanup)


# --------------------------------------------------------------------------
# building xa
def ensure_xa():
    os.makedirs(CACHE, exist_ok=True)
    h = hashlib.sha256(open(XA_SRC, "rb").read()).hexdigest()[:16]
    stamp = XA_BIN + ".stamp"
    if os.path.exists(XA_BIN) and os.path.exists(stamp) and open(stamp).read() == h:
        return XA_BIN
    flags = subprocess.check_output(["llvm-config-14", "--cxxflags"], text=True).split()
    tmp = XA_BIN + ".tmp%d" % os.getpid()
    cmd = ["clang++"] + flags + ["-fno-rtti", "-O1", XA_SRC, "-o", tmp,
                                 "/usr/lib/llvm-14/lib/libclang-cpp.so.14",
                                 "/usr/lib/llvm-14/lib/libLLVM-14.so"]
    r = subprocess.run(cmd, stdout=subprocess.PIPE, stderr=subprocess.STDOUT, text=True)
    if r.returncode != 0:
        raise AnalysisBroken("building xa failed:\n" + r.stdout[-3000:])
    os.replace(tmp, XA_BIN)
    open(stamp, "w").write(h)
    return XA_BIN


# --------------------------------------------------------------------------
# compile database
def _cmake_inputs_hash(root):
    h = hashlib.sha256()
    files = []
    for pat in ("CMakeLists.txt", "cmake/*", "*.in", "*.cmake.in", "configure.ac", "version.incl", "src/CMakeLists.txt",
                "src/*.in", "src/xercesc/util/*.in", "src/xercesc/util/*.cmake.in",
                "samples/CMakeLists.txt", "tests/CMakeLists.txt", "doc/CMakeLists.txt"):
        files += glob.glob(os.path.join(root, pat))
    for f in sorted(set(files)):
        if os.path.isfile(f):
            h.update(f[len(root):].encode())
            h.update(open(f, "rb").read())
    return h.hexdigest()[:16]


def compdb(root=REPO):
    """Return (entries, gen_dir).  entries: list of dicts {file, args} for the
    library translation units of `root`.  The configure step is cached by the
    hash of the CMake inputs of `root`; the cache holds only generated headers
    and flags, never facts about sources."""
    os.makedirs(CACHE, exist_ok=True)
    key = _cmake_inputs_hash(root)
    cdir = os.path.join(CACHE, "cfg-" + key)
    dbfile = os.path.join(cdir, "db.json")
    if not os.path.exists(dbfile):
        tmp = cdir + ".tmp%d" % os.getpid()
        shutil.rmtree(tmp, ignore_errors=True)
        os.makedirs(tmp)
        # configure only; sources are not compiled
        src = root
        r = subprocess.run(["cmake", "-G", "Ninja", "-S", src, "-B", os.path.join(tmp, "b")],
                           stdout=subprocess.PIPE, stderr=subprocess.STDOUT, text=True)
        if r.returncode != 0:
            raise AnalysisBroken("cmake configure failed:\n" + r.stdout[-2000:])
        out = subprocess.check_output(["ninja", "-C", os.path.join(tmp, "b"), "-t", "compdb"], text=True)
        db = json.loads(out)
        ents = []
        for e in db:
            f = e["file"]
            if not f.endswith((".cpp", ".c")):
                continue
            cmd = e["command"].replace(os.path.join(tmp, "b"), "@GEN@").replace(root + "/", "@ROOT@/")
            ents.append({"file": f.replace(root + "/", "@ROOT@/"), "command": cmd})
        # keep generated headers only
        gen = os.path.join(tmp, "gen")
        os.makedirs(gen)
        for dirpath, _, files in os.walk(os.path.join(tmp, "b")):
            if "CMakeFiles" in dirpath:
                continue
            for fn in files:
                if fn.endswith((".h", ".hpp")):
                    relp = os.path.relpath(os.path.join(dirpath, fn), os.path.join(tmp, "b"))
                    os.makedirs(os.path.dirname(os.path.join(gen, relp)), exist_ok=True)
                    shutil.copy(os.path.join(dirpath, fn), os.path.join(gen, relp))
        shutil.rmtree(os.path.join(tmp, "b"))
        json.dump(ents, open(os.path.join(tmp, "db.json"), "w"))
        try:
            os.rename(tmp, cdir)
        except OSError:
            shutil.rmtree(tmp, ignore_errors=True)
    ents = json.load(open(dbfile))
    gen = os.path.join(cdir, "gen")
    res = []
    for e in ents:
        cmd = e["command"].replace("@GEN@", gen).replace("@ROOT@", root)
        cmd = cmd.replace(" -MD", "")
        if "-std=" not in cmd:
            cmd = cmd.replace(" -c ", " -std=gnu++17 -c ", 1)
        cmd = cmd.replace(" -c ", " -UNDEBUG -c ", 1)
        res.append({"directory": gen, "command": cmd, "file": e["file"].replace("@ROOT@", root)})
    return res, gen


def library_tus(root=REPO):
    ents, _ = compdb(root)
    return [e["file"] for e in ents if "/src/xercesc/" in e["file"]]


# --------------------------------------------------------------------------
# running xa
class Facts:
    """All facts of one xa run, indexed."""

    def __init__(self, outdir, root, tus):
        self.root = root
        self.tus = tus
        self.fns = {}        # key (outfile,id) -> fn dict
        self.by_q = {}       # qualified name -> [fn]
        self.by_kind = {}    # kind -> [fact]
        self.units = []
        self.cfgs = {}       # q -> [cfg]
        self.sts = {}        # q -> [st]
        self.tables = {}     # q -> table fact
        self.tables_by = {}  # (q, file) -> table fact (file-static tables share names)
        self.classes = {}
        self.enums = {}
        self.gvars = {}
        for path in sorted(glob.glob(os.path.join(outdir, "*.jsonl"))):
            base = os.path.basename(path)
            with open(path) as fh:
                for line in fh:
                    try:
                        d = json.loads(line)
                    except ValueError as ex:
                        raise AnalysisBroken("bad fact line in %s: %s: %r" % (path, ex, line[:200]))
                    k = d["k"]
                    if k == "fn":
                        d["_key"] = (base, d["id"])
                        self.fns[d["_key"]] = d
                        self.by_q.setdefault(d["q"], []).append(d)
                        d["_facts"] = []
                    elif k == "unit":
                        self.units.append(d)
                    elif k == "cfg":
                        self.cfgs.setdefault(d["q"], []).append(d)
                    elif k == "st":
                        self.sts.setdefault(d["q"], []).append(d)
                    elif k == "table":
                        self.tables[d["q"]] = d
                        self.tables_by[(d["q"], d["file"])] = d
                    elif k == "cls":
                        self.classes[d["q"]] = d
                    elif k == "enum":
                        self.enums[d["q"]] = d
                    elif k == "gvar":
                        self.gvars.setdefault(d["q"], d)
                    else:
                        fn = self.fns.get((base, d.get("in")))
                        if fn is not None:
                            d["_fn"] = fn
                            fn["_facts"].append(d)
                        self.by_kind.setdefault(k, []).append(d)

    def kind(self, k):
        return self.by_kind.get(k, [])

    def fn(self, q, sig=None):
        """the unique function definition named q (exit 2 if it vanished)."""
        c = self.by_q.get(q, [])
        if sig is not None:
            c = [f for f in c if f["sig"] == sig]
        if not c:
            raise AnalysisBroken("anchor function %s%s not found in the analysed units" % (q, sig or ""))
        return c[0]

    def fns_named(self, q):
        return self.by_q.get(q, [])

    def facts_in(self, fn, kind=None):
        if kind is None:
            return fn["_facts"]
        return [x for x in fn["_facts"] if x["k"] == kind]

    def cfg(self, q, sig=None):
        c = self.cfgs.get(q, [])
        if sig is not None:
            c = [f for f in c if f["sig"] == sig]
        if not c:
            raise AnalysisBroken("no CFG for anchor function %s" % q)
        return c[0]

    def st(self, q, sig=None):
        c = self.sts.get(q, [])
        if sig is not None:
            c = [f for f in c if f["sig"] == sig]
        if not c:
            raise AnalysisBroken("no statement tree for anchor function %s" % q)
        return c[0]

    def table(self, q, file=None):
        t = self.tables.get(q) if file is None else self.tables_by.get((q, file))
        if t is None or t.get("v") is None:
            raise AnalysisBroken("constant table %s not found or not constant-evaluable" % q)
        return t

    def is_derived(self, cls, base, _seen=None):
        if cls == base:
            return True
        c = self.classes.get(cls)
        if not c:
            return False
        for b in c["bases"]:
            b = b.split("<")[0]
            if self.is_derived(b, base):
                return True
        return False


def _fnv(sv):
    h = 1469598103934665603
    for c in sv.encode():
        h ^= c
        h = (h * 1099511628211) & 0xFFFFFFFFFFFFFFFF
    return "%016x" % h


def _xa_into(sel, out, root, cfg=None, st=None, tables=None, flat=True):
    """run xa on the compile-database entries `sel`, writing facts into directory `out`."""
    xa = ensure_xa()
    work = scratch_dir()
    dbdir = os.path.join(work, "db")
    os.makedirs(dbdir)
    json.dump(sel, open(os.path.join(dbdir, "compile_commands.json"), "w"))
    env = dict(os.environ)
    env.update({"XA_ROOT": root, "XA_OUT": out, "XA_FLAT": "1" if flat else "0",
                "XA_CFG": cfg or "", "XA_ST": st or "", "XA_TABLES": tables or ""})

    def one(f):
        r = subprocess.run([xa, "-p", dbdir, f], env=env, stdout=subprocess.PIPE,
                           stderr=subprocess.STDOUT, text=True)
        return f, r.returncode, r.stdout

    # big units first
    order = sorted(sel, key=lambda e: -os.path.getsize(e["file"]))
    errs = []
    with ThreadPoolExecutor(max_workers=NPROC) as ex:
        for f, rc, outp in ex.map(one, [e["file"] for e in order]):
            if rc != 0:
                errs.append((f, outp[-1500:]))
    shutil.rmtree(work, ignore_errors=True)
    if errs:
        raise AnalysisBroken("xa failed on %d unit(s); first: %s\n%s" % (len(errs), errs[0][0], errs[0][1]))


def _select(tus, root, compdb_root=None):
    ents, gen = compdb(compdb_root or root)
    if compdb_root and compdb_root != root:
        for e in ents:
            e["command"] = e["command"].replace(compdb_root + "/", root + "/")
            e["file"] = e["file"].replace(compdb_root + "/", root + "/")
    want = set(tus)
    sel = [e for e in ents if e["file"] in want]
    missing = want - set(e["file"] for e in sel)
    if missing:
        raise AnalysisBroken("translation units not in the build: %s" % sorted(missing)[:5])
    return sel, want


def _checked_facts(out, root, want):
    facts = Facts(out, root, sorted(want))
    done = set(u["file"] for u in facts.units if not u.get("errors"))
    for f in want:
        if os.path.relpath(f, root) not in done:
            raise AnalysisBroken("unit %s did not parse cleanly" % f)
    return facts


def run_xa(tus, cfg=None, st=None, tables=None, flat=True, root=REPO, compdb_root=None):
    """Parse the given translation units of `root` and return Facts."""
    sel, want = _select(tus, root, compdb_root)
    work = scratch_dir()
    out = os.path.join(work, "out")
    os.makedirs(out)
    _xa_into(sel, out, root, cfg, st, tables, flat)
    facts = _checked_facts(out, root, want)
    shutil.rmtree(work, ignore_errors=True)
    return facts


def tree_hash(root=REPO):
    """content hash of every source/header under src/ plus the analyzer and the
    build configuration: the key of the fact cache."""
    h = hashlib.sha256()
    h.update(open(XA_SRC, "rb").read())
    h.update(_cmake_inputs_hash(root).encode())
    for dirpath, dirs, files in os.walk(os.path.join(root, "src")):
        dirs.sort()
        for fn in sorted(files):
            if fn.endswith((".cpp", ".hpp", ".c", ".h")):
                p = os.path.join(dirpath, fn)
                h.update(p[len(root):].encode())
                with open(p, "rb") as fh:
                    h.update(fh.read())
    return h.hexdigest()[:20]


_LIB = {}


def _sha_file(p):
    with open(p, "rb") as fh:
        return hashlib.sha256(fh.read()).hexdigest()[:20]


def _shared_hash(root, tus):
    """hash of everything a unit's facts depend on besides its own main file: the analyzer, the build configuration
    and every header / included source under src/ (any file that is not itself a library unit)."""
    tuset = set(tus)
    h = hashlib.sha256()
    h.update(open(XA_SRC, "rb").read())
    h.update(_cmake_inputs_hash(root).encode())
    for dirpath, dirs, files in os.walk(os.path.join(root, "src")):
        dirs.sort()
        for fn in sorted(files):
            p = os.path.join(dirpath, fn)
            if fn.endswith((".cpp", ".hpp", ".c", ".h")) and p not in tuset:
                h.update(p[len(root):].encode())
                with open(p, "rb") as fh:
                    h.update(fh.read())
    return h.hexdigest()[:20]


def _prune(pattern, keep):
    olds = sorted(glob.glob(os.path.join(CACHE, pattern)), key=os.path.getmtime)
    for o in olds[:-keep]:
        try:
            if os.path.isdir(o):
                shutil.rmtree(o, ignore_errors=True)
            else:
                os.remove(o)
        except OSError:
            pass


def library_facts(root=REPO):
    """flat facts of every library translation unit of `root`.

    Two cache levels, both keyed by content only (never by time stamps):
      facts-<tree hash>.pkl   the indexed facts of exactly this tree (any source, header, CMake input or the analyzer
                              changed -> different key)
      out-<shared hash>/      the raw per-unit fact files of a tree with the same headers/configuration/analyzer,
                              with the content hash of each unit's main file; a tree that differs from it only in
                              some .cpp files re-parses just those units (their facts depend on nothing else)
    """
    import pickle
    key = tree_hash(root)
    if key in _LIB:
        return _LIB[key]
    os.makedirs(CACHE, exist_ok=True)
    path = os.path.join(CACHE, "facts-%s.pkl" % key)
    f = None
    if os.path.exists(path):
        try:
            with open(path, "rb") as fh:
                f = pickle.load(fh)
            os.utime(path, None)      # least-recently-used eviction below
        except Exception:
            f = None
    if f is None:
        tus = library_tus(root)
        sel, want = _select(tus, root)
        shared = _shared_hash(root, tus)
        odir = os.path.join(CACHE, "out-" + shared)
        mfile = os.path.join(odir, "MANIFEST.json")
        work = scratch_dir()
        out = os.path.join(work, "out")
        cur = {os.path.relpath(t, root): _sha_file(t) for t in tus}
        redo = sel
        reused = 0
        if os.path.exists(mfile):
            try:
                man = json.load(open(mfile))
                os.utime(mfile, None)
                os.utime(odir, None)
                shutil.copytree(odir, out)
                os.remove(os.path.join(out, "MANIFEST.json"))
                redo = []
                for e in sel:
                    rel = os.path.relpath(e["file"], root)
                    tf = os.path.join(out, "tu_%s.jsonl" % _fnv(rel))
                    if man.get(rel) == cur[rel] and os.path.exists(tf):
                        reused += 1
                        continue
                    if os.path.exists(tf):
                        os.remove(tf)
                    redo.append(e)
                # units that no longer exist
                for rel in man:
                    if rel not in cur:
                        tf = os.path.join(out, "tu_%s.jsonl" % _fnv(rel))
                        if os.path.exists(tf):
                            os.remove(tf)
            except Exception:
                shutil.rmtree(out, ignore_errors=True)
                redo, reused = sel, 0
        if not os.path.isdir(out):
            os.makedirs(out)
        if redo:
            _xa_into(redo, out, root)
        f = _checked_facts(out, root, want)
        f.cache_hit = False
        f.reparsed = len(redo)
        f.reused = reused
        if not os.path.exists(mfile):
            # first full extraction for this header/configuration state: keep the raw fact files
            tmpd = odir + ".tmp%d" % os.getpid()
            shutil.rmtree(tmpd, ignore_errors=True)
            shutil.copytree(out, tmpd)
            json.dump(cur, open(os.path.join(tmpd, "MANIFEST.json"), "w"))
            try:
                os.rename(tmpd, odir)
            except OSError:
                shutil.rmtree(tmpd, ignore_errors=True)
            _prune("out-*", 2)
        shutil.rmtree(work, ignore_errors=True)
        tmp = path + ".tmp%d" % os.getpid()
        sys.setrecursionlimit(100000)
        with open(tmp, "wb") as fh:
            pickle.dump(f, fh, protocol=4)
        os.replace(tmp, path)
        _prune("facts-*.pkl", 4)
    else:
        f.cache_hit = True
    _LIB[key] = f
    return f


def tus_matching(patterns, root=REPO):
    """library TUs whose repo-relative path matches any of the glob patterns."""
    import fnmatch
    allt = library_tus(root)
    res = []
    for t in allt:
        rel = os.path.relpath(t, root)
        if any(fnmatch.fnmatch(rel, p) for p in patterns):
            res.append(t)
    return res


# --------------------------------------------------------------------------
# structural expression helpers (sx = nested lists produced by xa)
def sx_walk(x):
    """yield every sub-expression list of a structural expression."""
    if isinstance(x, list):
        if x and isinstance(x[0], str):
            yield x
        for y in x:
            if isinstance(y, list):
                for z in sx_walk(y):
                    yield z


def sx_calls(x, name=None):
    for s in sx_walk(x):
        if s[0] == "c" and (name is None or s[1] == name or s[1].endswith("::" + name)):
            yield s


def sx_str(x):
    """compact human readable rendering."""
    if x is None:
        return "null"
    if not isinstance(x, list) or not x:
        return str(x)
    t = x[0]
    if t == "this":
        return "this"
    if t == "f":
        n = x[1].split("::")[-1]
        return n if len(x) < 3 else sx_str(x[2]) + "." + n
    if t in ("p",):
        return x[2]
    if t in ("l", "g", "fn"):
        return x[1].split("::")[-1] if t != "g" else x[1]
    if t == "e":
        return x[1]
    if t == "i":
        return str(x[1])
    if t == "s":
        return json.dumps(x[1])
    if t == "u":
        op = x[1]
        if op.endswith("post"):
            return sx_str(x[2]) + op[:-4]
        return op + sx_str(x[2])
    if t == "b":
        return "(" + sx_str(x[2]) + " " + x[1] + " " + sx_str(x[3]) + ")"
    if t == "?":
        if len(x) == 4:
            return "(" + sx_str(x[1]) + " ? " + sx_str(x[2]) + " : " + sx_str(x[3]) + ")"
        return "<" + str(x[1]) + ">"
    if t == "x":
        return sx_str(x[1]) + "[" + sx_str(x[2]) + "]"
    if t == "c":
        r = (sx_str(x[2]) + "->") if x[2] else ""
        return r + x[1].split("::")[-1] + "(" + ", ".join(sx_str(a) for a in x[3]) + ")"
    if t == "n":
        return "new" + ("(" + ", ".join(sx_str(a) for a in x[2]) + ")" if x[2] else "") + " " + x[1]
    if t == "k":
        return x[1] + "(" + ", ".join(sx_str(a) for a in x[2]) + ")"
    if t == "d":
        return "delete " + sx_str(x[2])
    if t == "t":
        return "throw " + (sx_str(x[1]) if x[1] else "")
    if t == "cast":
        return "(" + x[1] + ")" + sx_str(x[2])
    if t == "def":
        return sx_str(x[1])
    if t == "m":
        return sx_str(x[2]) + "." + x[1]
    return "<" + t + ">"


# --------------------------------------------------------------------------
# results, known findings, evidence
class Report:
    def __init__(self, prop, tier, seed):
        self.prop = prop
        self.tier = tier
        self.seed = seed
        self.t0 = time.time()
        self.violations = []     # dicts {rule,key,what,where,detail}
        self.obligations = 0
        self.discharged = 0
        self.evaluations = 0
        self.nontrivial = set()
        self.samples = []
        self.rules = []          # [(rule id, description, instances)]
        self.units = set()
        self.assumptions = []
        self.notes = []
        self.undecided = []
        self.extra = {}

    # a rule instance that was checked
    def ob(self, rule, key, ok, what="", where="", detail=None, sample=False):
        self.obligations += 1
        self.evaluations += 1
        self.nontrivial.add((rule, key))
        if ok:
            self.discharged += 1
            if sample or len([s for s in self.samples if s.get("rule") == rule]) < 2:
                self.samples.append({"rule": rule, "instance": key, "verdict": "holds", "where": where, "what": what[:300]})
        else:
            self.violations.append({"rule": rule, "key": key, "what": what, "where": where, "detail": detail})

    def count(self, n=1):
        self.evaluations += n

    def rule(self, rid, text):
        self.rules.append((rid, text))

    def floor(self, rule, n, floor):
        """instance-count floor: fewer instances than confirmed by hand means the
        rule went blind, which is analysis-broken, never a pass."""
        if n < floor:
            raise AnalysisBroken("rule %s matched %d instance(s), below its confirmed floor %d" % (rule, n, floor))


def load_known():
    p = os.path.join(VERIF, "known_findings.json")
    if not os.path.exists(p):
        return []
    return json.load(open(p))["findings"]


def finish(rep, explanation):
    """apply known findings, write evidence, print verdict lines, return exit code."""
    known = [k for k in load_known() if k["property"] == rep.prop]
    real = []
    seen_known = set()
    for v in rep.violations:
        m = [k for k in known if k.get("status") == "known" and k["rule"] == v["rule"] and k["key"] == v["key"]]
        if m:
            if (v["rule"], v["key"]) not in seen_known:
                print("KNOWN-FINDING: property=%s %s [%s %s]" % (rep.prop, m[0]["what"], v["rule"], v["key"]))
                seen_known.add((v["rule"], v["key"]))
        else:
            real.append(v)
    # a known finding that no longer fires is reported (informational)
    for k in known:
        if k.get("status") == "known" and (k["rule"], k["key"]) not in seen_known:
            rep.notes.append("known finding %s %s did not fire on this tree" % (k["rule"], k["key"]))
    # runs against another checkout (mutation self-tests, --root) must not overwrite the evidence of /repo
    outbase = VERIF if REPO == "/repo" else os.environ.get("VERIF_OUT", os.path.join(os.environ.get("TMPDIR", "/tmp"), "xverif-out"))
    os.makedirs(os.path.join(outbase, "evidence"), exist_ok=True)
    os.makedirs(os.path.join(outbase, "replays"), exist_ok=True)
    ev = {
        "property_id": rep.prop,
        "tier": rep.tier,
        "seed": rep.seed,
        "level": "other",
        "coverage": {
            "explanation": explanation,
            "obligations": rep.obligations,
            "discharged": rep.discharged - 0,
            "evaluations": max(rep.evaluations, 1),
            "distinct_nontrivial": len(rep.nontrivial),
            "rule": "one obligation per rule instance (rule id, construct key); distinct_nontrivial counts distinct (rule, construct) pairs on which the rule had something to decide; evaluations additionally counts table entries / sites / paths inspected",
            "samples": rep.samples[:40],
            "rules": [{"id": r, "text": t} for r, t in rep.rules],
            "units": sorted(rep.units),
            "known_findings_matched": sorted("%s %s" % k for k in seen_known),
            "undecided": rep.undecided,
            "notes": rep.notes,
        },
        "assumptions": rep.assumptions,
        "wall_s": round(time.time() - rep.t0, 2),
        "violations": len(real),
    }
    ev["coverage"].update(rep.extra)
    json.dump(ev, open(os.path.join(outbase, "evidence", rep.prop + ".json"), "w"), indent=1)
    if real:
        rp = os.path.join(outbase, "replays", "%s.json" % rep.prop)
        json.dump({"property": rep.prop, "violations": real}, open(rp, "w"), indent=1)
        for v in real[:50]:
            print("  violation: rule=%s instance=%s at %s: %s" % (v["rule"], v["key"], v["where"], v["what"]))
        print("VIOLATION property=%s replay=%s" % (rep.prop, rp))
        return EXIT_VIOLATION
    print("OK property=%s tier=%s obligations=%d discharged=%d known=%d wall=%.1fs" % (
        rep.prop, rep.tier, rep.obligations, rep.discharged, len(seen_known), time.time() - rep.t0))
    return EXIT_OK
