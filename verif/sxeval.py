"""Constant folding of structural expressions / statement trees over a finite
domain.  Used for table-like *pure* functions of the source (severity
classification, enum↔name maps): the function's expression tree is evaluated
for every value of its (finite) domain — an exhaustive table rule over the
source, not an execution of the library.
"""
from .core import AnalysisBroken


class Unmodelled(AnalysisBroken):
    pass


def ev(x, env):
    t = x[0]
    if t == "i":
        return x[1]
    if t == "e":
        return x[2]
    if t == "p":
        if x[2] in env:
            return env[x[2]]
        raise Unmodelled("free parameter %s" % x[2])
    if t == "l":
        if x[1] in env:
            return env[x[1]]
        raise Unmodelled("free local %s" % x[1])
    if t == "g":
        if x[1] in env:
            return env[x[1]]
        raise Unmodelled("free global %s" % x[1])
    if t == "cast":
        return ev(x[2], env)
    if t == "u":
        v = ev(x[2], env)
        op = x[1]
        if op == "!":
            return 0 if v else 1
        if op == "-":
            return -v
        if op == "~":
            return ~v
        if op == "+":
            return v
        raise Unmodelled("unary " + op)
    if t == "?" and len(x) == 4:
        return ev(x[2], env) if ev(x[1], env) else ev(x[3], env)
    if t == "b" and x[1] == "=":
        return _assign(x[2], ev(x[3], env), env)
    if t == "b":
        op = x[1]
        if op == "&&":
            return 1 if (ev(x[2], env) and ev(x[3], env)) else 0
        if op == "||":
            return 1 if (ev(x[2], env) or ev(x[3], env)) else 0
        a, b = ev(x[2], env), ev(x[3], env)
        if op == "==": return int(a == b)
        if op == "!=": return int(a != b)
        if op == "<": return int(a < b)
        if op == "<=": return int(a <= b)
        if op == ">": return int(a > b)
        if op == ">=": return int(a >= b)
        if op == "+": return a + b
        if op == "-": return a - b
        if op == "*": return a * b
        if op == "&": return a & b
        if op == "|": return a | b
        if op == "^": return a ^ b
        if op == "<<": return a << b
        if op == ">>": return a >> b
        raise Unmodelled("binary " + op)
    if t == "x":
        base = ev(x[1], env)
        return base[ev(x[2], env)]
    if t == "f":
        k = "f:" + x[1]
        if k in env:
            return env[k]
        raise Unmodelled("free field %s" % x[1])
    if t == "c" and "__call__" in env:
        return env["__call__"](x, env)
    if t == "t":
        raise Thrown(x)
    raise Unmodelled("expression kind %s" % t)


class Thrown(Exception):
    """the evaluated path ends in a throw expression."""


def _assign(lhs, v, env):
    while lhs[0] == "cast":
        lhs = lhs[2]
    if lhs[0] == "l":
        env[lhs[1]] = v
    elif lhs[0] == "p":
        env[lhs[2]] = v
    elif lhs[0] == "f" and len(lhs) == 2:
        env["f:" + lhs[1]] = v
    else:
        raise Unmodelled("assignment target %s" % lhs[0])
    return v


class _Return(Exception):
    def __init__(self, v):
        self.v = v


def run_env(body, env):
    """execute a statement tree for its effect on the environment (assignments to locals, parameters and members of
    *this, calls interpreted by env["__call__"]); returns the final environment, or None when the path throws."""
    env = dict(env)
    try:
        _exec(body, env)
    except _Return:
        pass
    except Thrown:
        return None
    return env


def run_st(body, env):
    """evaluate a statement tree consisting of blocks / if / return / switch-free
    code; returns the returned value."""
    try:
        _exec(body, dict(env))
    except _Return as r:
        return r.v
    raise Unmodelled("function falls off its end")


def _exec(s, env):
    if s is None:
        return
    t = s[0]
    if t == "block":
        for c in s[1]:
            _exec(c, env)
    elif t == "if":
        if ev(s[1], env):
            _exec(s[2], env)
        else:
            _exec(s[3], env)
    elif t == "return":
        raise _Return(ev(s[1], env))
    elif t == "null":
        return
    elif t == "expr":
        ev(s[1], env)
    elif t == "decl":
        for name, _ty, init, _cap in s[1]:
            if init is not None:
                env[name] = ev(init, env)
    else:
        raise Unmodelled("statement kind %s" % t)
