"""Thorough tier: mutation self-test of the rules of one property.

The quick tier decides the property on /repo's current tree.  The thorough tier
additionally shows that the rules that just passed are *armed* on that same tree:
it copies the working tree to a scratch directory outside /repo and /verif, breaks
one rule instance at a time there (named source mutants from mutants/mutants.json,
and the reverse of every "fix:" commit listed as fixed in known_findings.json), runs
the same static check on the copy, and requires that it reports the broken construct.
Nothing is compiled or executed: every step is the static analysis again, on a
different source text.  A mutant that applies but is not reported means the rule
went blind on today's tree -> analysis broken (exit 2), never a pass.
A mutant whose anchor text is no longer present is skipped and named in the evidence
(the tree under analysis has changed there; the quick rules have already judged it)."""
import json
import os
import shutil
import subprocess
import tempfile

from . import core


def _copy_tree(dst):
    subprocess.run(["rsync", "-a", "--exclude=/_build", "--exclude=/.git", core.REPO + "/", dst + "/"], check=True)


def _apply_text(root, m):
    p = os.path.join(root, m["file"])
    if not os.path.exists(p):
        return None
    s = open(p, encoding="utf-8", errors="surrogateescape").read()
    n = s.count(m["old"])
    nth = m.get("nth", 1)
    if n < nth or (n > 1 and "nth" not in m):
        return None
    i = -1
    for _ in range(nth):
        i = s.find(m["old"], i + 1)
    t = s[:i] + m["new"] + s[i + len(m["old"]):]
    open(p, "w", encoding="utf-8", errors="surrogateescape").write(t)
    return [(p, s)]


def _apply_reverse(root, diff):
    files = []
    for l in open(diff):
        if l.startswith("+++ b/"):
            files.append(os.path.join(root, l[6:].strip()))
    saved = [(f, open(f, encoding="utf-8", errors="surrogateescape").read()) for f in files if os.path.exists(f)]
    r = subprocess.run(["patch", "-R", "-p1", "-s", "-f", "--no-backup-if-mismatch", "-d", root, "-i", diff],
                       capture_output=True, text=True)
    if r.returncode != 0:
        _restore(saved)
        for f in files:
            for suf in (".rej", ".orig"):
                if os.path.exists(f + suf):
                    os.remove(f + suf)
        return None
    return saved


def _restore(saved):
    for p, s in saved:
        open(p, "w", encoding="utf-8", errors="surrogateescape").write(s)


def _run(prop, root, out):
    env = dict(os.environ, VERIF_OUT=out, VERIF_TIER="quick")
    r = subprocess.run([os.path.join(core.VERIF, "check"), prop, "--tier", "quick", "--root", root],
                       capture_output=True, text=True, env=env, cwd=core.VERIF)
    viol = []
    rp = os.path.join(out, "replays", prop + ".json")
    if r.returncode == core.EXIT_VIOLATION and os.path.exists(rp):
        viol = json.load(open(rp))["violations"]
        os.remove(rp)
    return r.returncode, viol, r.stdout[-1500:]


def plan(prop):
    muts = json.load(open(os.path.join(core.VERIF, "mutants", "mutants.json"))).get(prop, [])
    out = [dict(m, kind="mutant") for m in muts]
    fixed = {}
    for k in core.load_known():
        if k["property"] == prop and k.get("status") == "fixed":
            fixed.setdefault(k["commit"], []).append((k["rule"], k["key"]))
    for c, keys in sorted(fixed.items()):
        d = os.path.join(core.VERIF, "mutants", "fixes", c + ".diff")
        if os.path.exists(d):
            out.append({"kind": "reverted-fix", "id": "revert-" + c, "diff": d, "expect": keys})
    return out


def run(rep):
    """returns (results, survivors)."""
    prop = rep.prop
    todo = plan(prop)
    base = tempfile.mkdtemp(prefix="xverif-selftest-")
    root, out = os.path.join(base, "tree"), os.path.join(base, "out")
    os.makedirs(root)
    results, survivors = [], []
    try:
        _copy_tree(root)
        for m in todo:
            saved = _apply_text(root, m) if m["kind"] == "mutant" else _apply_reverse(root, m["diff"])
            if saved is None:
                results.append({"id": m["id"], "kind": m["kind"], "status": "skipped",
                                "why": "anchor text not present in the tree under analysis"})
                continue
            key = core.tree_hash(root)
            try:
                code, viol, tail = _run(prop, root, out)
            finally:
                _restore(saved)
                fp = os.path.join(core.CACHE, "facts-%s.pkl" % key)
                if os.path.exists(fp):
                    os.remove(fp)
            if m["kind"] == "mutant":
                hit = [v for v in viol if m["names"] in (v["rule"] + " " + v["key"] + " " + v["what"])]
            else:
                want = set(tuple(k) for k in m["expect"])
                hit = [v for v in viol if (v["rule"], v["key"]) in want]
            r = {"id": m["id"], "kind": m["kind"], "exit": code,
                 "status": "killed" if (code == core.EXIT_VIOLATION and hit) else "survived",
                 "reported": ["%s %s at %s" % (v["rule"], v["key"], v["where"]) for v in (hit or viol)[:3]]}
            if m["kind"] == "mutant":
                r["site"] = m["file"]
            if r["status"] == "survived":
                r["tail"] = tail
                survivors.append(m["id"])
            results.append(r)
            print("  self-test %-34s %s%s" % (m["id"], r["status"], (" -> " + r["reported"][0]) if r["reported"] else ""), flush=True)
    finally:
        shutil.rmtree(base, ignore_errors=True)
    return results, survivors
