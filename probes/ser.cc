#include "clang/AST/RecursiveASTVisitor.h"
#include "clang/Frontend/FrontendActions.h"
#include "clang/Frontend/CompilerInstance.h"
#include "clang/Tooling/CommonOptionsParser.h"
#include "clang/Tooling/Tooling.h"
#include "llvm/Support/CommandLine.h"
using namespace clang; using namespace clang::tooling;
static llvm::cl::OptionCategory Cat("ser");
static bool inRepo(ASTContext&C, SourceLocation L){ auto &SM=C.getSourceManager(); auto F=SM.getFilename(SM.getSpellingLoc(L)); return F.contains("/repo/src/"); }
static std::string clean(QualType T){ T=T.getNonReferenceType(); T.removeLocalConst(); std::string s=T.getUnqualifiedType().getAsString(); size_t p; while((p=s.find("xercesc_4_0::"))!=std::string::npos) s.erase(p,13); while((p=s.find("class "))!=std::string::npos) s.erase(p,6); while((p=s.find("struct "))!=std::string::npos) s.erase(p,7); return s; }
static bool isEng(QualType T){ return T.getNonReferenceType().getAsString().find("XSerializeEngine")!=std::string::npos; }
struct Col : RecursiveASTVisitor<Col>{ ASTContext&C; std::vector<std::string> ops; Col(ASTContext&c):C(c){}
  bool shouldVisitTemplateInstantiations() const {return true;}
  bool VisitCallExpr(CallExpr*CE){ auto*FD=CE->getDirectCallee(); if(!FD) return true; std::string n=FD->getNameAsString(); std::string q=FD->getQualifiedNameAsString();
    if(auto*OC=dyn_cast<CXXOperatorCallExpr>(CE)){ if((OC->getOperator()==OO_LessLess||OC->getOperator()==OO_GreaterGreater)&&CE->getNumArgs()==2&&isEng(CE->getArg(0)->getType())){ QualType pt= FD->getNumParams()==2?FD->getParamDecl(1)->getType():FD->getParamDecl(0)->getType(); std::string t=clean(pt); if(OC->getOperator()==OO_LessLess&&pt->isPointerType()) t="OBJ*"; if(OC->getOperator()==OO_GreaterGreater&&pt.getNonReferenceType()->isPointerType()) t="OBJ*"; ops.push_back("op:"+t); } return true; }
    if(auto*MC=dyn_cast<CXXMemberCallExpr>(CE)){ auto*M=MC->getMethodDecl(); if(M&&M->getParent()->getNameAsString()=="XSerializeEngine"){ if(n=="isStoring"||n=="isLoading"||n=="getMemoryManager"||n=="getStringPool"||n=="getGrammarPool"||n=="needToStoreObject"||n=="needToLoadObject") return true; std::string k=n; if(k.rfind("write",0)==0) k="rw"+k.substr(5); else if(k.rfind("read",0)==0) k="rw"+k.substr(4); ops.push_back("eng:"+k+"/"+std::to_string(CE->getNumArgs())); return true; }
      if(n=="serialize"&&CE->getNumArgs()==1&&isEng(CE->getArg(0)->getType())){ ops.push_back("ser:"+M->getParent()->getNameAsString()); return true; } }
    bool takesEng=false; for(unsigned i=0;i<CE->getNumArgs();i++) if(isEng(CE->getArg(i)->getType())) takesEng=true;
    if(takesEng){ std::string k=n; if(k.rfind("store",0)==0) k="sl"+k.substr(5); else if(k.rfind("load",0)==0) k="sl"+k.substr(4); std::string t; if(n=="storeObject"&&CE->getNumArgs()>0) t=clean(CE->getArg(0)->getType()->getPointeeType()); if(n=="loadObject"&&CE->getNumArgs()>0){ QualType a=CE->getArg(0)->getType(); if(a->isPointerType()&&a->getPointeeType()->isPointerType()) t=clean(a->getPointeeType()->getPointeeType()); } ops.push_back("fn:"+k+(t.empty()?"":"<"+t+">")); }
    return true; } };
static bool isStoringCond(const Expr*E,bool&neg){ E=E->IgnoreParenImpCasts(); neg=false; if(auto*UO=dyn_cast<UnaryOperator>(E)) if(UO->getOpcode()==UO_LNot){ bool n2; bool r=isStoringCond(UO->getSubExpr(),n2); neg=!n2; return r; } if(auto*MC=dyn_cast<CXXMemberCallExpr>(E)) if(auto*M=MC->getMethodDecl()){ if(M->getNameAsString()=="isStoring") return true; if(M->getNameAsString()=="isLoading"){neg=true;return true;} } return false; }
struct V : RecursiveASTVisitor<V> { ASTContext &C; V(ASTContext&c):C(c){}
  bool VisitCXXMethodDecl(CXXMethodDecl*F){ if(!F->doesThisDeclarationHaveABody()||!inRepo(C,F->getLocation())) return true; if(F->getNameAsString()!="serialize"||F->getNumParams()!=1||!isEng(F->getParamDecl(0)->getType())) return true;
    auto*Body=dyn_cast<CompoundStmt>(F->getBody()); std::vector<std::string> st,ld;
    for(auto*S:Body->body()){ if(auto*I=dyn_cast<IfStmt>(S)){ bool neg; if(isStoringCond(I->getCond(),neg)){ Col a(C),b(C); a.TraverseStmt(I->getThen()); if(I->getElse()) b.TraverseStmt(I->getElse()); auto&s1=neg?ld:st; auto&s2=neg?st:ld; s1.insert(s1.end(),a.ops.begin(),a.ops.end()); s2.insert(s2.end(),b.ops.begin(),b.ops.end()); continue; } }
      Col c(C); c.TraverseStmt(S); st.insert(st.end(),c.ops.begin(),c.ops.end()); ld.insert(ld.end(),c.ops.begin(),c.ops.end()); }
    std::string a,b; for(auto&x:st)a+=x+" "; for(auto&x:ld)b+=x+" ";
    llvm::outs()<<(a==b?"EQ":"DIFF")<<"\t"<<F->getParent()->getNameAsString()<<"\t"<<st.size()<<"\n"; if(a!=b) llvm::outs()<<"   S: "<<a<<"\n   L: "<<b<<"\n"; return true; } };
struct Cons : ASTConsumer { void HandleTranslationUnit(ASTContext &C) override { V v(C); v.TraverseDecl(C.getTranslationUnitDecl()); } };
struct Act : ASTFrontendAction { std::unique_ptr<ASTConsumer> CreateASTConsumer(CompilerInstance&CI, StringRef) override { CI.getDiagnostics().setSuppressAllDiagnostics(true); return std::make_unique<Cons>(); } };
int main(int argc, const char **argv){ auto P = CommonOptionsParser::create(argc, argv, Cat); ClangTool T(P->getCompilations(), P->getSourcePathList()); return T.run(newFrontendActionFactory<Act>().get()); }
