#include <xercesc/util/PlatformUtils.hpp>
#include <xercesc/util/XMLString.hpp>
#include <xercesc/util/BinMemInputStream.hpp>
#include <xercesc/framework/XMLGrammarPoolImpl.hpp>
#include <xercesc/framework/MemBufInputSource.hpp>
#include <xercesc/internal/BinMemOutputStream.hpp>
#include <xercesc/parsers/SAXParser.hpp>
#include <xercesc/sax/HandlerBase.hpp>
#include <xercesc/validators/common/Grammar.hpp>
#include <xercesc/validators/DTD/DTDGrammar.hpp>
#include <xercesc/framework/XMLGrammarDescription.hpp>
#include <string>
#include <cstdio>
#include <cstring>
using namespace xercesc;
// A DTD grammar with one attribute whose default value has N characters: the value is written by one writeString.
static int trial(int N, bool verbose){ MemoryManager* mm=XMLPlatformUtils::fgMemoryManager;
  std::string dtd="<!ELEMENT a EMPTY><!ATTLIST a v CDATA '" + std::string(N,'x') + "yz'>";
  XMLGrammarPoolImpl poolA(mm); { SAXParser p(0, mm, &poolA); MemBufInputSource src((const XMLByte*)dtd.data(), dtd.size(), "d.dtd"); p.loadGrammar(src, Grammar::DTDGrammarType, true); }
  BinMemOutputStream out(64*1024, mm); poolA.serializeGrammars(&out);
  XMLGrammarPoolImpl poolB(mm); BinMemInputStream in(out.getRawBuffer(), (XMLSize_t)out.getSize(), BinMemInputStream::BufOpt_Reference, mm);
  try { poolB.deserializeGrammars(&in); } catch (const XMLException& e) { if (verbose) { char* m=XMLString::transcode(e.getMessage()); printf("N=%d: deserialize threw: %s\n", N, m); XMLString::release(&m);} return 1; } catch (...) { if (verbose) printf("N=%d: deserialize threw\n", N); return 1; }
  // validate a document against the restored pool: the defaulted attribute must come back with the same value
  struct H : HandlerBase { std::string v; void startElement(const XMLCh* const, AttributeList& a) override { if (a.getLength()) { char* t=XMLString::transcode(a.getValue((XMLSize_t)0)); v=t; XMLString::release(&t);} } } h;
  SAXParser p(0, mm, &poolB); p.setDocumentHandler(&h); p.setErrorHandler(&h); p.useCachedGrammarInParse(true);
  std::string doc="<!DOCTYPE a SYSTEM 'd.dtd'><a/>"; MemBufInputSource src((const XMLByte*)doc.data(), doc.size(), "doc.xml");
  try { p.parse(src);} catch(...) { if (verbose) printf("N=%d: parse threw\n", N); return 1; }
  std::string want=std::string(N,'x')+"yz"; if (h.v!=want) { if (verbose) printf("N=%d: default attribute value differs after round trip (length %zu, expected %zu)\n", N, h.v.size(), want.size()); return 1; }
  return 0; }
int main(int argc,char**argv){ XMLPlatformUtils::Initialize(); int bad=0, first=-1; int lo=argc>1?atoi(argv[1]):4000, hi=argc>2?atoi(argv[2]):8200;
  for (int N=lo; N<hi; N++) if (trial(N,false)) { if(first<0) first=N; bad++; }
  if (first>=0) trial(first,true);
  printf("%d of %d lengths fail (first %d)\n", bad, hi-lo, first);
  XMLPlatformUtils::Terminate(); printf(bad?"FAIL\n":"PASS\n"); return bad?1:0; }
