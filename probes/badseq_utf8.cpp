#include <xercesc/util/PlatformUtils.hpp>
#include <xercesc/parsers/SAXParser.hpp>
#include <xercesc/sax/HandlerBase.hpp>
#include <xercesc/framework/MemBufInputSource.hpp>
#include <xercesc/util/XMLString.hpp>
#include <string>
#include <cstdio>
using namespace xercesc;
struct H : HandlerBase { int fatal=0; std::string text; void fatalError(const SAXParseException& e) override { fatal++; char*m=XMLString::transcode(e.getMessage()); printf("    fatal: %s\n",m); XMLString::release(&m);}
  void characters(const XMLCh* const c, const XMLSize_t n) override { for (XMLSize_t i=0;i<n;i++) { char b[8]; snprintf(b,8, c[i]<128?"%c":"[%04X]", c[i]); text+=b; } } };
int run(const std::string& d){ SAXParser p; H h; p.setDocumentHandler(&h); p.setErrorHandler(&h); MemBufInputSource src((const XMLByte*)d.data(), d.size(), "m"); try { p.parse(src);} catch(...) { printf("    exception\n"); return -1;} printf("    text=%s\n", h.text.c_str()); return h.fatal; }
int main(){ XMLPlatformUtils::Initialize(); {
  // invalid 4-byte sequence F5 80 80 80 (code point > 10FFFF) early in the buffer and after more than 32 characters
  printf("early : fatal=%d\n", run(std::string("<a>x\xF5\x80\x80\x80y</a>")));
  printf("late  : fatal=%d\n", run(std::string("<a>") + std::string(40,'x') + "\xF5\x80\x80\x80" + "y</a>"));
  printf("late F7 : fatal=%d\n", run(std::string("<?xml version='1.0' encoding='UTF-8'?><a>") + std::string(40,'x') + "\xF7\xBF\xBF\xBF" + "y</a>"));
 } XMLPlatformUtils::Terminate(); }
