#include "clang/AST/RecursiveASTVisitor.h"
#include "clang/Frontend/FrontendActions.h"
#include "clang/Frontend/CompilerInstance.h"
#include "clang/Tooling/CommonOptionsParser.h"
#include "clang/Tooling/Tooling.h"
#include "llvm/Support/CommandLine.h"
#include <set>
using namespace clang; using namespace clang::tooling;
static llvm::cl::OptionCategory Cat("sw");
static bool inRepo(ASTContext&C, SourceLocation L){ auto &SM=C.getSourceManager(); auto F=SM.getFilename(SM.getSpellingLoc(L)); return F.contains("/repo/src/"); }
struct V : RecursiveASTVisitor<V> { ASTContext &C; FunctionDecl*Cur=nullptr; V(ASTContext&c):C(c){}
  bool TraverseDecl(Decl *D){ if(auto*F=dyn_cast_or_null<FunctionDecl>(D)){ if(F->doesThisDeclarationHaveABody()){ auto*S=Cur; Cur=F; bool r=RecursiveASTVisitor::TraverseDecl(D); Cur=S; return r; } } return RecursiveASTVisitor::TraverseDecl(D); }
  bool VisitSwitchStmt(SwitchStmt*S){ if(!Cur||!inRepo(C,S->getBeginLoc())) return true; const EnumDecl*ED=nullptr; std::set<std::string> cases; bool def=false;
    for(const SwitchCase*SC=S->getSwitchCaseList();SC;SC=SC->getNextSwitchCase()){ if(isa<DefaultStmt>(SC)){def=true;continue;} auto*CS=cast<CaseStmt>(SC); const Expr*L=CS->getLHS()->IgnoreParenCasts(); if(auto*CE=dyn_cast<ConstantExpr>(L)) L=CE->getSubExpr()->IgnoreParenCasts(); if(auto*DR=dyn_cast<DeclRefExpr>(L)) if(auto*EC=dyn_cast<EnumConstantDecl>(DR->getDecl())){ ED=dyn_cast<EnumDecl>(EC->getDeclContext()); cases.insert(EC->getNameAsString()); } }
    if(!ED) return true; std::string miss; unsigned n=0; for(auto*E:ED->enumerators()){ n++; if(!cases.count(E->getNameAsString())) miss+=E->getNameAsString()+","; }
    llvm::outs()<<"SWITCH\t"<<Cur->getQualifiedNameAsString()<<"\t"<<ED->getQualifiedNameAsString()<<"\tcases="<<cases.size()<<"/"<<n<<"\tdefault="<<def<<"\tmissing="<<miss<<"\n"; return true; }
};
struct Cons : ASTConsumer { void HandleTranslationUnit(ASTContext &C) override { V v(C); v.TraverseDecl(C.getTranslationUnitDecl()); } };
struct Act : ASTFrontendAction { std::unique_ptr<ASTConsumer> CreateASTConsumer(CompilerInstance&CI, StringRef) override { CI.getDiagnostics().setSuppressAllDiagnostics(true); return std::make_unique<Cons>(); } };
int main(int argc, const char **argv){ auto P = CommonOptionsParser::create(argc, argv, Cat); ClangTool T(P->getCompilations(), P->getSourcePathList()); return T.run(newFrontendActionFactory<Act>().get()); }
