#include <xercesc/util/PlatformUtils.hpp>
#include <xercesc/dom/DOM.hpp>
#include <xercesc/framework/MemBufFormatTarget.hpp>
#include <xercesc/util/XMLString.hpp>
#include <string>
#include <cstdio>
using namespace xercesc;
struct X { XMLCh* p; X(const char* s):p(XMLString::transcode(s)){} ~X(){XMLString::release(&p);} operator const XMLCh*() const {return p;} };
static std::string ser(DOMLSSerializer* w, DOMImplementationLS* impl, DOMNode* n, bool* ok){ DOMLSOutput* o=impl->createLSOutput(); MemBufFormatTarget t; o->setByteStream(&t); try { *ok=w->write(n,o); } catch (const DOMLSException&) { *ok=false; } catch (const DOMException&) { *ok=false; } std::string r((const char*)t.getRawBuffer(), t.getLen()); o->release(); return r; }
int main(){ XMLPlatformUtils::Initialize(); int rc=0; {
  DOMImplementation* impl=DOMImplementationRegistry::getDOMImplementation(X("LS")); DOMImplementationLS* ls=(DOMImplementationLS*)impl;
  // document 1: p bound to urn:p on <a>, and below it a CDATA section that cannot be written (contains ]]>, splitting off) -> write aborts inside <a>
  DOMDocument* d1=impl->createDocument(X("urn:p"), X("p:a"), 0); DOMElement* a=d1->getDocumentElement();
  DOMElement* b=d1->createElementNS(X("urn:p"), X("p:b")); a->appendChild(b); b->appendChild(d1->createCDATASection(X("x]]>y")));
  // document 2 (programmatically built, no xmlns attribute): needs xmlns:p="urn:p" supplied by namespace fix-up
  DOMDocument* d2=impl->createDocument(X("urn:p"), X("p:r"), 0);
  DOMLSSerializer* fresh=ls->createLSSerializer(); fresh->getDomConfig()->setParameter(XMLUni::fgDOMWRTSplitCdataSections, false);
  bool ok; std::string want=ser(fresh, ls, d2, &ok); printf("fresh serializer : ok=%d %s\n", ok, want.c_str());
  DOMLSSerializer* used=ls->createLSSerializer(); used->getDomConfig()->setParameter(XMLUni::fgDOMWRTSplitCdataSections, false);
  std::string first=ser(used, ls, d1, &ok); printf("aborted write    : ok=%d\n", ok);
  std::string got=ser(used, ls, d2, &ok); printf("reused serializer: ok=%d %s\n", ok, got.c_str());
  if (got!=want) { printf("  DIFFERENT after an aborted write\n"); rc=1; }
  fresh->release(); used->release(); d1->release(); d2->release();
 } XMLPlatformUtils::Terminate(); printf(rc?"FAIL\n":"PASS\n"); return rc; }
