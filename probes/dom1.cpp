#include <xercesc/util/PlatformUtils.hpp>
#include <xercesc/dom/DOM.hpp>
#include <xercesc/util/XMLString.hpp>
#include <iostream>
#include <string>
using namespace xercesc;
int main(){
  XMLPlatformUtils::Initialize();
  {
    XMLCh ls[3]; XMLString::transcode("LS", ls, 2);
    DOMImplementation* impl = DOMImplementationRegistry::getDOMImplementation(ls);
    XMLCh root[5]; XMLString::transcode("root", root, 4);
    DOMDocument* doc = impl->createDocument(0, root, 0);
    XMLCh en[2]; XMLString::transcode("e", en, 1);
    DOMElement* e = doc->createElement(en);
    doc->getDocumentElement()->appendChild(e);
    try { e->appendChild(e); std::cout << "self-append succeeded; parent==self: " << (e->getParentNode()==e) << " firstChild==self: " << (e->getFirstChild()==e) << "\n"; }
    catch (const DOMException& ex) { std::cout << "DOMException code " << ex.code << "\n"; }
    // setPrefix overflow
    std::u16string uri = u"urn:x"; std::u16string q = u"p:" + std::u16string(300, u'a');
    DOMElement* ns = doc->createElementNS((const XMLCh*)uri.c_str(), (const XMLCh*)q.c_str());
    std::u16string np = u"qq";
    ns->setPrefix((const XMLCh*)np.c_str());
    DOMAttr* at = doc->createAttributeNS((const XMLCh*)uri.c_str(), (const XMLCh*)q.c_str());
    at->setPrefix((const XMLCh*)np.c_str());
    std::cout << "setPrefix done, name len " << XMLString::stringLen(ns->getNodeName()) << "\n";
  }
  // do not release doc with cycle
  return 0;
}
