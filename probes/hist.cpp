#include <xercesc/util/PlatformUtils.hpp>
#include <xercesc/parsers/SAXParser.hpp>
#include <xercesc/sax/HandlerBase.hpp>
#include <xercesc/framework/MemBufInputSource.hpp>
#include <xercesc/util/XMLString.hpp>
#include <iostream>
#include <cstring>
using namespace xercesc;
struct H : HandlerBase { int fatal=0; void fatalError(const SAXParseException& e) override { fatal++; char* m=XMLString::transcode(e.getMessage()); std::cout<<"    fatal: "<<m<<"\n"; XMLString::release(&m);} void resetErrors() override {} };
static int run(SAXParser& p, const char* doc){ H h; p.setErrorHandler(&h); p.setDoNamespaces(true); MemBufInputSource src((const XMLByte*)doc, strlen(doc), "mem"); try{ p.parse(src);}catch(...){std::cout<<"    exception\n";} return h.fatal; }
int main(){ XMLPlatformUtils::Initialize(); {
  const char* A="<?xml version=\"1.1\"?><a/>";
  const char* B="<a xmlns:p=\"\"/>";             // illegal in XML 1.0 namespaces, legal in 1.1
  const char* C="<a>x\xC2\x85y</a>";               // NEL: plain char in 1.0
  { SAXParser fresh; std::cout<<"fresh parser, B: fatal="<<run(fresh,B)<<"\n"; }
  { SAXParser p; std::cout<<"reused parser, A: fatal="<<run(p,A)<<"\n"; std::cout<<"reused parser, B after A: fatal="<<run(p,B)<<"\n"; }
} XMLPlatformUtils::Terminate(); }
