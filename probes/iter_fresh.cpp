#include <xercesc/util/PlatformUtils.hpp>
#include <xercesc/dom/DOM.hpp>
#include <xercesc/util/XMLString.hpp>
#include <cstdio>
using namespace xercesc;
int main(){ XMLPlatformUtils::Initialize(); {
  XMLCh core[5]; XMLString::transcode("Core", core, 4);
  DOMImplementation* impl = DOMImplementationRegistry::getDOMImplementation(core);
  XMLCh* r=XMLString::transcode("r"); XMLCh* a=XMLString::transcode("a"); DOMDocument* doc = impl->createDocument(0, r, 0);
  DOMElement* e=doc->getDocumentElement(); DOMElement* c=doc->createElement(a); e->appendChild(c);
  DOMNodeIterator* it = doc->createNodeIterator(e, DOMNodeFilter::SHOW_ALL, 0, true);
  printf("removing a child with a fresh (never stepped) iterator alive...\n"); fflush(stdout);
  e->removeChild(c);
  printf("survived; nextNode=%p\n", (void*)it->nextNode());
  doc->release(); }
  XMLPlatformUtils::Terminate(); return 0; }
