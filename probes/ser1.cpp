#include <xercesc/util/PlatformUtils.hpp>
#include <xercesc/dom/DOM.hpp>
#include <xercesc/parsers/XercesDOMParser.hpp>
#include <xercesc/framework/MemBufInputSource.hpp>
#include <xercesc/sax/HandlerBase.hpp>
#include <xercesc/util/XMLString.hpp>
#include <iostream>
#include <string>
using namespace xercesc;
struct EH : DOMErrorHandler { int n=0; bool handleError(const DOMError& e) override { n++; char*m=XMLString::transcode(e.getMessage()); std::cout<<"  DOMError sev="<<e.getSeverity()<<" "<<m<<"\n"; return true; } };
int main(){ XMLPlatformUtils::Initialize(); {
  XMLCh ls[3]; XMLString::transcode("LS", ls, 2);
  DOMImplementation* impl = DOMImplementationRegistry::getDOMImplementation(ls);
  XMLCh root[5]; XMLString::transcode("root", root, 4);
  DOMDocument* doc = impl->createDocument(0, root, 0);
  std::u16string c=u"a--b-", pt=u"t", pd=u"x?>y";
  doc->getDocumentElement()->appendChild(doc->createComment((const XMLCh*)c.c_str()));
  doc->getDocumentElement()->appendChild(doc->createProcessingInstruction((const XMLCh*)pt.c_str(),(const XMLCh*)pd.c_str()));
  DOMLSSerializer* s=((DOMImplementationLS*)impl)->createLSSerializer(); EH eh; s->getDomConfig()->setParameter(XMLUni::fgDOMErrorHandler,&eh);
  XMLCh* out=s->writeToString(doc); char* o=XMLString::transcode(out); std::cout<<"serialized: "<<o<<"\nerrors reported: "<<eh.n<<"\n";
  // reparse
  std::string bytes(o); XercesDOMParser p; HandlerBase h; p.setErrorHandler(&h); MemBufInputSource src((const XMLByte*)bytes.data(), bytes.size(), "m");
  try{ p.parse(src); std::cout<<"reparse OK\n"; } catch(const SAXParseException& e){ char*m=XMLString::transcode(e.getMessage()); std::cout<<"reparse FAILS: "<<m<<"\n"; }
} XMLPlatformUtils::Terminate(); }
