// Replay for C17.d (lazy faulting in objects shared through a locked grammar pool):
// RangeToken::match() builds fMap lazily (createMap/doCreateMap), publishing the pointer before the map is
// filled. A compiled xs:pattern lives in the cached schema grammar that several parsers share.
#include <xercesc/util/PlatformUtils.hpp>
#include <xercesc/parsers/SAXParser.hpp>
#include <xercesc/sax/HandlerBase.hpp>
#include <xercesc/framework/MemBufInputSource.hpp>
#include <xercesc/framework/XMLGrammarPoolImpl.hpp>
#include <xercesc/util/XMLString.hpp>
#include <thread>
#include <vector>
#include <atomic>
#include <cstring>
#include <cstdio>
using namespace xercesc;
static const char* XSD="<xs:schema xmlns:xs='http://www.w3.org/2001/XMLSchema'><xs:simpleType name='t'><xs:restriction base='xs:string'><xs:pattern value='[a-z]+[0-9]*[A-Z]?'/></xs:restriction></xs:simpleType><xs:element name='r'><xs:complexType><xs:sequence><xs:element name='v' type='t' maxOccurs='unbounded'/></xs:sequence></xs:complexType></xs:element></xs:schema>";
static const char* DOC="<r><v>abcxyz</v><v>q9</v><v>zzzK</v><v>m12345Q</v></r>";
static XMLGrammarPool* pool; static std::atomic<int> go, errs;
struct H : HandlerBase { void error(const SAXParseException&) override { errs++; } void fatalError(const SAXParseException&) override { errs++; } };
static void work(){ SAXParser p(0, XMLPlatformUtils::fgMemoryManager, pool); H h; p.setErrorHandler(&h); p.setValidationScheme(SAXParser::Val_Always); p.setDoNamespaces(true); p.setDoSchema(true); p.useCachedGrammarInParse(true);
  MemBufInputSource src((const XMLByte*)DOC, strlen(DOC), "doc.xml"); while(!go.load()){} p.parse(src); }
int main(int argc,char**argv){ int iters = argc>1?atoi(argv[1]):200, nth = argc>2?atoi(argv[2]):8; XMLPlatformUtils::Initialize(); int bad=0; {
 for(int it=0; it<iters; it++){ pool=new XMLGrammarPoolImpl(XMLPlatformUtils::fgMemoryManager);
  { SAXParser p(0, XMLPlatformUtils::fgMemoryManager, pool); H h; p.setErrorHandler(&h); p.setDoNamespaces(true); p.setDoSchema(true); MemBufInputSource d((const XMLByte*)XSD, strlen(XSD), "s.xsd"); p.loadGrammar(d, Grammar::SchemaGrammarType, true); }
  pool->lockPool(); go=0; errs=0;
  std::vector<std::thread> t; for(int i=0;i<nth;i++) t.emplace_back(work); go=1; for(auto&x:t) x.join(); if(errs.load()) { bad++; } delete pool; } }
 XMLPlatformUtils::Terminate(); printf("%d of %d rounds reported a validation error on a valid document\n", bad, iters); return bad!=0; }
