#include <xercesc/util/PlatformUtils.hpp>
#include <xercesc/util/regx/RegularExpression.hpp>
#include <xercesc/util/regx/Match.hpp>
#include <xercesc/util/XMLString.hpp>
#include <cstdio>
using namespace xercesc;
static int bad=0;
void t(const XMLCh* pat, const XMLCh* s, bool want, int wantStart, const char* label){ bool got=false; int st=-1;
  try { RegularExpression re(pat); Match m; got=re.matches(s, &m); if (got) st=m.getStartPos(0);} catch(...) { printf("%s: exception\n",label); bad++; return; }
  bool ok = got==want && (!want || st==wantStart);
  printf("%-40s : %d start=%d (want %d start=%d)%s\n", label, got, st, want, wantStart, ok?"":"  WRONG"); if(!ok) bad++; }
int main(){ XMLPlatformUtils::Initialize();
  // U+10000 = D800 DC00
  const XMLCh p1[]={'[',0xD800,0xDC00,'-',0xDBFF,0xDFFF,']','b',0};          // [\x{10000}-\x{10FFFF}]b  (has a first-character set)
  const XMLCh s1[]={0xD800,0xDC00,'b',0};
  const XMLCh s2[]={'x',0xD800,0xDC00,'b',0};
  const XMLCh p2[]={'[','a','-','c',']','d',0};
  const XMLCh s3[]={0xD800,0xDC00,'a','d',0};
  t(p1,s1,true,0,"[U+10000-U+10FFFF]b on U+10000 b");
  t(p1,s2,true,1,"[U+10000-U+10FFFF]b on x U+10000 b");
  t(p2,s3,true,2,"[a-c]d on U+10000 a d");
  XMLPlatformUtils::Terminate(); printf(bad?"FAIL\n":"PASS\n"); return bad?1:0; }
