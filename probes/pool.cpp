#include <xercesc/util/PlatformUtils.hpp>
#include <xercesc/parsers/SAXParser.hpp>
#include <xercesc/sax/HandlerBase.hpp>
#include <xercesc/framework/MemBufInputSource.hpp>
#include <xercesc/framework/XMLGrammarPoolImpl.hpp>
#include <xercesc/util/XMLString.hpp>
#include <thread>
#include <vector>
#include <cstring>
#include <iostream>
using namespace xercesc;
static const char* DTD="<!ELEMENT r (a,b*)><!ELEMENT a (#PCDATA)><!ELEMENT b EMPTY><!ATTLIST b x CDATA #IMPLIED>";
static const char* DOC="<?xml version='1.0'?><!DOCTYPE r SYSTEM 'g.dtd'><r><a>t</a><b x='1'/><b/></r>";
static XMLGrammarPool* pool;
struct ER : HandlerBase { InputSource* resolveEntity(const XMLCh* const, const XMLCh* const) override { return new MemBufInputSource((const XMLByte*)DTD, strlen(DTD), "g.dtd"); } };
static void work(int i){ SAXParser p(0, XMLPlatformUtils::fgMemoryManager, pool); ER h; p.setErrorHandler(&h); p.setEntityResolver(&h); p.setValidationScheme(SAXParser::Val_Always); p.useCachedGrammarInParse(true);
  MemBufInputSource src((const XMLByte*)DOC, strlen(DOC), "doc.xml"); p.parse(src); }
int main(){ XMLPlatformUtils::Initialize(); { pool=new XMLGrammarPoolImpl(XMLPlatformUtils::fgMemoryManager);
  { SAXParser p(0, XMLPlatformUtils::fgMemoryManager, pool); ER h; p.setErrorHandler(&h); p.setEntityResolver(&h); MemBufInputSource d((const XMLByte*)DTD, strlen(DTD), "g.dtd"); p.loadGrammar(d, Grammar::DTDGrammarType, true); }
  pool->lockPool();
  std::vector<std::thread> t; for(int i=0;i<4;i++) t.emplace_back(work,i); for(auto&x:t) x.join(); delete pool; } XMLPlatformUtils::Terminate(); }
