#include "clang/AST/RecursiveASTVisitor.h"
#include "clang/AST/ParentMapContext.h"
#include "clang/Frontend/FrontendActions.h"
#include "clang/Frontend/CompilerInstance.h"
#include "clang/Tooling/CommonOptionsParser.h"
#include "clang/Tooling/Tooling.h"
#include "llvm/Support/CommandLine.h"
using namespace clang; using namespace clang::tooling;
static llvm::cl::OptionCategory Cat("d");
static bool inRepo(ASTContext&C, SourceLocation L){ auto &SM=C.getSourceManager(); auto F=SM.getFilename(SM.getSpellingLoc(L)); return F.contains("/repo/src/"); }
struct V : RecursiveASTVisitor<V> {
  ASTContext &C; FunctionDecl *Cur=nullptr; V(ASTContext&c):C(c){}
  bool TraverseDecl(Decl *D){ if(auto*F=dyn_cast_or_null<FunctionDecl>(D)){ if(F->doesThisDeclarationHaveABody()){ auto*S=Cur; Cur=F; bool r=RecursiveASTVisitor::TraverseDecl(D); Cur=S; return r; } } return RecursiveASTVisitor::TraverseDecl(D); }
  bool VisitDeclRefExpr(DeclRefExpr *E){ auto*EC=dyn_cast<EnumConstantDecl>(E->getDecl()); if(!EC||!Cur||!inRepo(C,E->getBeginLoc())) return true;
    auto*ED=dyn_cast<EnumDecl>(EC->getDeclContext()); if(!ED) return true; std::string en=ED->getQualifiedNameAsString();
    if(en.find("XMLErrs::Codes")==std::string::npos && en.find("XMLValid::Codes")==std::string::npos && en.find("XMLExcepts::Codes")==std::string::npos && en.find("XMLDOMMsg::Codes")==std::string::npos && en.find("DOMException::ExceptionCode")==std::string::npos) return true;
    // is it an argument of call/construct?
    const Stmt*S=E; bool arg=false; for(int i=0;i<4;i++){ auto Ps=C.getParents(*S); if(Ps.empty())break; const Stmt*P=Ps[0].get<Stmt>(); if(!P)break; if(isa<CallExpr>(P)||isa<CXXConstructExpr>(P)||isa<CXXTemporaryObjectExpr>(P)){arg=true;break;} if(isa<ImplicitCastExpr>(P)||isa<ParenExpr>(P)||isa<CXXFunctionalCastExpr>(P)||isa<CStyleCastExpr>(P)){S=P;continue;} break; }
    llvm::outs()<<"EMIT\t"<<Cur->getQualifiedNameAsString()<<"\t"<<en<<"\t"<<EC->getNameAsString()<<"\t"<<EC->getInitVal().getExtValue()<<"\t"<<(arg?"arg":"other")<<"\n"; return true; }
  bool VisitCallExpr(CallExpr *E){ if(!Cur||!inRepo(C,E->getBeginLoc())) return true; auto*FD=E->getDirectCallee(); if(!FD) return true; auto*M=dyn_cast<CXXMethodDecl>(FD); auto*CM=dyn_cast<CXXMethodDecl>(Cur); if(!M||!CM) return true;
    if(auto*MC=dyn_cast<CXXMemberCallExpr>(E)){ if(!isa<CXXThisExpr>(MC->getImplicitObjectArgument()->IgnoreParenImpCasts())) return true; }
    llvm::outs()<<"CALL\t"<<Cur->getQualifiedNameAsString()<<"\t"<<FD->getQualifiedNameAsString()<<"\t"<<(M->isVirtual()?"v":"nv")<<"\n"; return true; }
};
struct Cons : ASTConsumer { void HandleTranslationUnit(ASTContext &C) override { V v(C); v.TraverseDecl(C.getTranslationUnitDecl()); } };
struct Act : ASTFrontendAction { std::unique_ptr<ASTConsumer> CreateASTConsumer(CompilerInstance&CI, StringRef) override { CI.getDiagnostics().setSuppressAllDiagnostics(true); return std::make_unique<Cons>(); } };
int main(int argc, const char **argv){ auto P = CommonOptionsParser::create(argc, argv, Cat); if(!P){llvm::errs()<<P.takeError();return 1;} ClangTool T(P->getCompilations(), P->getSourcePathList()); return T.run(newFrontendActionFactory<Act>().get()); }
