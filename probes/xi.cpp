#include <xercesc/util/PlatformUtils.hpp>
#include <xercesc/parsers/XercesDOMParser.hpp>
#include <xercesc/dom/DOM.hpp>
#include <xercesc/sax/HandlerBase.hpp>
#include <xercesc/util/XMLString.hpp>
#include <iostream>
using namespace xercesc;
int main(int argc,char**argv){ XMLPlatformUtils::Initialize(); { for(int i=1;i<argc;i++){ XercesDOMParser p; HandlerBase h; p.setErrorHandler(&h); p.setDoNamespaces(true); p.setDoXInclude(true);
  try{ p.parse(argv[i]); DOMDocument*d=p.getDocument(); const XMLCh* t=d->getDocumentElement()->getTextContent(); XMLSize_t n=XMLString::stringLen(t); std::cout<<argv[i]<<": text length "<<n<<" tail: "; for(XMLSize_t k=(n>8?n-8:0);k<n;k++) std::cout<<(char)(t[k]<128?t[k]:'?'); std::cout<<"  char@16383=U+"<<std::hex<<(n>16383?(int)t[16383]:0)<<" char@16382=U+"<<(n>16382?(int)t[16382]:0)<<std::dec<<"\n"; }
  catch(const XMLException&e){ char*m=XMLString::transcode(e.getMessage()); std::cout<<"XMLException "<<m<<"\n"; } catch(const SAXParseException&e){ char*m=XMLString::transcode(e.getMessage()); std::cout<<"SAXParseException "<<m<<"\n"; } catch(...){ std::cout<<"exception\n"; } } } XMLPlatformUtils::Terminate(); }
