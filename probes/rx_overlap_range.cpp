#include <xercesc/util/PlatformUtils.hpp>
#include <xercesc/util/regx/RegularExpression.hpp>
#include <xercesc/util/XMLString.hpp>
#include <cstdio>
using namespace xercesc;
static int bad=0;
void t(const char* pat, const char* s, bool want, const char* opt=0){ XMLCh* p=XMLString::transcode(pat); XMLCh* x=XMLString::transcode(s); XMLCh* o=opt?XMLString::transcode(opt):0; bool got;
  try { RegularExpression re(p, o?o:XMLUni::fgZeroLenString); got=re.matches(x);} catch(...) { printf("%s: exception\n",pat); bad++; return; }
  printf("%-14s opt=%-2s on %-4s : %d (want %d)%s\n", pat, opt?opt:"", s, got, want, got==want?"":"  WRONG"); if(got!=want) bad++; }
int main(){ XMLPlatformUtils::Initialize();
  t("[a-ec-z]","f",true); t("[a-ec-z]","z",true); t("[a-ec-z]","d",true); t("[a-ec-z]","A",false);
  t("[a-ec-z]","f",true,"X"); t("[a-ec-z]+","abcxyz",true,"X"); t("[0-53-9]","8",true,"X"); t("[^a-ec-z]","f",false,"X");
  t("[a-zc-e]","f",true,"X"); t("[c-ea-z]","f",true,"X");
  XMLPlatformUtils::Terminate(); printf(bad?"FAIL\n":"PASS\n"); return bad?1:0; }
