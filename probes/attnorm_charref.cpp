#include <xercesc/util/PlatformUtils.hpp>
#include <xercesc/parsers/SAXParser.hpp>
#include <xercesc/sax/HandlerBase.hpp>
#include <xercesc/sax/AttributeList.hpp>
#include <xercesc/framework/MemBufInputSource.hpp>
#include <xercesc/util/XMLString.hpp>
#include <string>
#include <cstdio>
using namespace xercesc;
struct H : HandlerBase { std::string v; int errs=0;
  void startElement(const XMLCh* const, AttributeList& a) override { for (XMLSize_t i=0;i<a.getLength();i++){ const XMLCh* c=a.getValue(i); v+="["; for(;*c;c++){ char b[8]; snprintf(b,8,(*c<128&&*c>32)?"%c":"<%02X>",*c); v+=b;} v+="]"; } }
  void error(const SAXParseException&) override { errs++; } void fatalError(const SAXParseException&) override { errs+=100; } };
std::string run(const std::string& d, bool ns, const char* scanner){ SAXParser p; H h; p.setDocumentHandler(&h); p.setErrorHandler(&h); p.setDoNamespaces(ns); if (scanner) p.useScanner(XMLString::transcode(scanner)); MemBufInputSource src((const XMLByte*)d.data(), d.size(), "m"); p.parse(src); return h.v; }
int main(){ XMLPlatformUtils::Initialize(); int rc=0; {
  // provided value with character references to TAB and to SPACE in a tokenized attribute; default value likewise
  std::string d="<!DOCTYPE a [<!ATTLIST a t NMTOKENS #IMPLIED c CDATA #IMPLIED d NMTOKENS '&#9;p&#9;&#32;&#32;q '>]><a t='&#9;x&#9;&#9;y &#32; z' c='&#9;q'/>";
  std::string want="[<09>x<09><09>y<20>z][<09>q][<09>p<09><20>q]";
  const char* sc[]={0,"DGXMLScanner"};
  for (int s=0;s<2;s++) for (int ns=0;ns<2;ns++){ std::string g=run(d,ns,sc[s]); bool ok=(g==want); if(!ok) rc=1; printf("%s ns=%d : %s %s\n", s?"DG":"IG", ns, g.c_str(), ok?"ok":"WRONG"); }
 } XMLPlatformUtils::Terminate(); return rc; }
