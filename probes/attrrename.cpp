// Replay for C13 (validate-before-mutate): DOMAttrImpl::rename detaches the attribute from its element
// before DOMDocument::createAttributeNS validates the new name; a rejected rename leaves the tree changed.
#include <xercesc/util/PlatformUtils.hpp>
#include <xercesc/dom/DOM.hpp>
#include <xercesc/util/XMLString.hpp>
#include <cstdio>
using namespace xercesc;
int main(){ XMLPlatformUtils::Initialize(); int rc=0; {
  XMLCh core[5]; XMLString::transcode("Core", core, 4);
  DOMImplementation* impl = DOMImplementationRegistry::getDOMImplementation(core);
  XMLCh* r=XMLString::transcode("r"); DOMDocument* doc = impl->createDocument(0, r, 0);
  XMLCh* a=XMLString::transcode("a"); XMLCh* v=XMLString::transcode("v"); XMLCh* ns=XMLString::transcode("urn:x"); XMLCh* bad=XMLString::transcode("1bad");
  DOMElement* e=doc->getDocumentElement(); e->setAttribute(a, v); DOMAttr* at=e->getAttributeNode(a);
  bool threw=false; try { doc->renameNode(at, ns, bad); } catch(const DOMException& ex){ threw=true; printf("DOMException code %d\n", (int)ex.code); }
  bool still = e->hasAttribute(a) && at->getOwnerElement()==e;
  printf("threw=%d attribute still on its element=%d\n", threw, still); rc = !(threw && still);
  doc->release(); }
  XMLPlatformUtils::Terminate(); printf(rc?"TREE CHANGED BY A REJECTED OPERATION\n":"ok\n"); return rc; }
