#include <xercesc/util/PlatformUtils.hpp>
#include <xercesc/parsers/XercesDOMParser.hpp>
#include <xercesc/sax/HandlerBase.hpp>
#include <xercesc/framework/MemBufInputSource.hpp>
#include <xercesc/dom/DOM.hpp>
#include <xercesc/util/XMLString.hpp>
#include <string>
#include <cstdio>
using namespace xercesc;
int main(){ XMLPlatformUtils::Initialize(); int rc=0; {
  const char* docs[]={
   "<root xmlns:xi='http://www.w3.org/2001/XInclude'><xi:include href='missing-file.xml'><xi:fallback/></xi:include>tail</root>",
   "<root xmlns:xi='http://www.w3.org/2001/XInclude'><a/><xi:include href='missing-file.xml'><xi:fallback/></xi:include>tail</root>",
   0};
  for (int i=0;docs[i];i++){ XercesDOMParser p; HandlerBase h; p.setErrorHandler(&h); p.setDoNamespaces(true); p.setDoXInclude(true);
    std::string d(docs[i]); MemBufInputSource src((const XMLByte*)d.data(), d.size(), "/tmp/pr/m.xml");
    try { p.parse(src); DOMDocument* doc=p.getDocument(); char* t=XMLString::transcode(doc->getDocumentElement()->getTextContent()); printf("doc %d: root text='%s'\n", i, t); if (std::string(t)!="tail") rc=1; XMLString::release(&t);} catch(const XMLException& e){ printf("doc %d: XMLException\n",i); rc=1;} catch(...) { printf("doc %d: exception\n", i); rc=1; } }
 } XMLPlatformUtils::Terminate(); printf(rc?"FAIL\n":"PASS\n"); return rc; }
