// Replay for C14: DOMElementNSImpl::setPrefix changes the qualified name in place without changed().
#include <xercesc/util/PlatformUtils.hpp>
#include <xercesc/dom/DOM.hpp>
#include <xercesc/util/XMLString.hpp>
#include <cstdio>
using namespace xercesc;
int main(){ XMLPlatformUtils::Initialize(); int rc=0; {
  XMLCh core[5]; XMLString::transcode("Core", core, 4);
  DOMImplementation* impl = DOMImplementationRegistry::getDOMImplementation(core);
  XMLCh* r=XMLString::transcode("r"); XMLCh* u=XMLString::transcode("urn:u"); XMLCh* px=XMLString::transcode("p:x"); XMLCh* qx=XMLString::transcode("q:x"); XMLCh* q=XMLString::transcode("q");
  DOMDocument* doc = impl->createDocument(0, r, 0); DOMElement* c=doc->createElementNS(u, px); doc->getDocumentElement()->appendChild(c);
  DOMNodeList* lp=doc->getElementsByTagName(px); DOMNodeList* lq=doc->getElementsByTagName(qx);
  printf("before: p:x=%d q:x=%d\n",(int)lp->getLength(),(int)lq->getLength());
  c->setPrefix(q);
  int np=(int)lp->getLength(), nq=(int)lq->getLength();
  printf("after setPrefix(q): p:x=%d q:x=%d (expected 0 and 1)\n",np,nq); rc = !(np==0 && nq==1);
  doc->release(); }
  XMLPlatformUtils::Terminate(); printf(rc?"STALE LIVE LIST\n":"ok\n"); return rc; }
