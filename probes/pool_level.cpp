#include <xercesc/util/PlatformUtils.hpp>
#include <xercesc/util/BinMemInputStream.hpp>
#include <xercesc/internal/BinMemOutputStream.hpp>
#include <xercesc/framework/XMLGrammarPoolImpl.hpp>
#include <xercesc/internal/XSerializationException.hpp>
#include <xercesc/util/XMLString.hpp>
#include <cstdio>
#include <cstring>
#include <vector>
#include <xercesc/parsers/SAXParser.hpp>
#include <xercesc/framework/MemBufInputSource.hpp>
#include <xercesc/validators/common/Grammar.hpp>
using namespace xercesc;
int main(){ XMLPlatformUtils::Initialize(); int bad=0; {
  MemoryManager* mm=XMLPlatformUtils::fgMemoryManager;
  std::vector<unsigned char> stream;
  { XMLGrammarPoolImpl pool(mm); { SAXParser p(0, mm, &pool); const char* dtd="<!ELEMENT a EMPTY>"; MemBufInputSource src((const XMLByte*)dtd, strlen(dtd), "d.dtd"); p.loadGrammar(src, Grammar::DTDGrammarType, true); } BinMemOutputStream out(64*1024, mm); pool.serializeGrammars(&out); stream.assign(out.getRawBuffer(), out.getRawBuffer()+out.getSize()); }
  unsigned int own; memcpy(&own, stream.data(), 4); printf("own level %u, stream %zu bytes\n", own, stream.size());
  unsigned int levels[]={0,1,own+1,9999,10000,123456,0xFFFFFFFFu};
  for (unsigned int lv: levels){ std::vector<unsigned char> s(stream); memcpy(s.data(),&lv,4);
    XMLGrammarPoolImpl pool(mm);
    BinMemInputStream in(s.data(), s.size(), BinMemInputStream::BufOpt_Reference);
    const char* what="no exception";
    try { pool.deserializeGrammars(&in); }
    catch (const XSerializationException&) { what="XSerializationException"; }
    catch (const XMLException& e) { static char t[200]; char* m=XMLString::transcode(e.getType()); snprintf(t,200,"%s",m); XMLString::release(&m); what=t; }
    catch (...) { what="other"; }
    bool ok=!strcmp(what,"XSerializationException"); if(!ok) bad++;
    printf("level %u : %s%s\n", lv, what, ok?"":"  WRONG"); }
  { XMLGrammarPoolImpl pool(mm); BinMemInputStream in(stream.data(), stream.size(), BinMemInputStream::BufOpt_Reference); try { pool.deserializeGrammars(&in); printf("own level: accepted\n"); } catch(...) { printf("own level: REJECTED\n"); bad++; } }
 } XMLPlatformUtils::Terminate(); printf(bad?"FAIL\n":"PASS\n"); return bad?1:0; }
