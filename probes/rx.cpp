#include <xercesc/util/PlatformUtils.hpp>
#include <xercesc/util/regx/RegularExpression.hpp>
#include <xercesc/util/XMLString.hpp>
#include <thread>
#include <vector>
using namespace xercesc;
static void work(int i){ XMLCh* p=XMLString::transcode("\\p{IsGreek}+\\p{Lu}\\P{IsCyrillic}"); { RegularExpression r(p, XMLString::transcode("X")); XMLCh* s=XMLString::transcode("abc"); r.matches(s); } }
int main(){ XMLPlatformUtils::Initialize(); { std::vector<std::thread> t; for(int i=0;i<4;i++) t.emplace_back(work,i); for(auto&x:t) x.join(); } XMLPlatformUtils::Terminate(); }
