#include "clang/AST/RecursiveASTVisitor.h"
#include "clang/Frontend/FrontendActions.h"
#include "clang/Frontend/CompilerInstance.h"
#include "clang/Tooling/CommonOptionsParser.h"
#include "clang/Tooling/Tooling.h"
#include "llvm/Support/CommandLine.h"
using namespace clang; using namespace clang::tooling;
static llvm::cl::OptionCategory Cat("b");
static bool inRepo(ASTContext&C, SourceLocation L){ auto &SM=C.getSourceManager(); auto F=SM.getFilename(SM.getSpellingLoc(L)); return F.contains("/repo/src/"); }
struct V : RecursiveASTVisitor<V> {
  ASTContext &C; V(ASTContext&c):C(c){}
  bool VisitCallExpr(CallExpr *E){
    if(!inRepo(C,E->getBeginLoc())) return true;
    auto *FD=E->getDirectCallee(); if(!FD) return true;
    for(unsigned i=0;i<E->getNumArgs();i++){
      const Expr *A=E->getArg(i)->IgnoreParenCasts();
      // &arr[k] or arr or arr+k
      const Expr *Base=A; std::string form="arr";
      if(auto*UO=dyn_cast<UnaryOperator>(A)) if(UO->getOpcode()==UO_AddrOf) if(auto*AS=dyn_cast<ArraySubscriptExpr>(UO->getSubExpr()->IgnoreParenCasts())){ Base=AS->getBase()->IgnoreParenCasts(); form="&arr[i]"; }
      const ValueDecl *D=nullptr;
      if(auto*DR=dyn_cast<DeclRefExpr>(Base)) D=DR->getDecl(); else if(auto*ME=dyn_cast<MemberExpr>(Base)) D=ME->getMemberDecl();
      if(!D) continue; auto *AT=C.getAsConstantArrayType(D->getType()); if(!AT) continue;
      if(AT->getElementType().isConstQualified()) continue;
      // param must be pointer to non-const
      if(i<FD->getNumParams()){ QualType PT=FD->getParamDecl(i)->getType(); if(PT->isPointerType() && PT->getPointeeType().isConstQualified()) continue; if(!PT->isPointerType()) continue; }
      std::string s; llvm::raw_string_ostream os(s);
      os<<"CALL\t"<<FD->getQualifiedNameAsString()<<"\targ"<<i<<"\t"<<form<<"\t"<<D->getNameAsString()<<"["<<AT->getSize().getZExtValue()<<"]\t";
      for(unsigned j=0;j<E->getNumArgs();j++){ if(j==i){os<<"@,";continue;} Expr::EvalResult R; if(!E->getArg(j)->isValueDependent() && E->getArg(j)->EvaluateAsInt(R,C)) os<<R.Val.getInt().getExtValue()<<","; else os<<"?,"; }
      os<<"\t"<<E->getBeginLoc().printToString(C.getSourceManager());
      llvm::outs()<<os.str()<<"\n";
    }
    return true; }
};
struct Cons : ASTConsumer { void HandleTranslationUnit(ASTContext &C) override { V v(C); v.TraverseDecl(C.getTranslationUnitDecl()); } };
struct Act : ASTFrontendAction { std::unique_ptr<ASTConsumer> CreateASTConsumer(CompilerInstance&CI, StringRef) override { CI.getDiagnostics().setSuppressAllDiagnostics(true); return std::make_unique<Cons>(); } };
int main(int argc, const char **argv){ auto P = CommonOptionsParser::create(argc, argv, Cat); if(!P){llvm::errs()<<P.takeError();return 1;} ClangTool T(P->getCompilations(), P->getSourcePathList()); return T.run(newFrontendActionFactory<Act>().get()); }
