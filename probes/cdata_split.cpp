#include <xercesc/util/PlatformUtils.hpp>
#include <xercesc/dom/DOM.hpp>
#include <xercesc/framework/MemBufFormatTarget.hpp>
#include <xercesc/framework/MemBufInputSource.hpp>
#include <xercesc/parsers/XercesDOMParser.hpp>
#include <xercesc/sax/HandlerBase.hpp>
#include <xercesc/util/XMLString.hpp>
#include <string>
#include <cstdio>
using namespace xercesc;
static std::string ser(DOMDocument* doc, const char* enc, bool split){ DOMImplementationLS* impl=(DOMImplementationLS*)DOMImplementationRegistry::getDOMImplementation(XMLUni::fgZeroLenString);
  DOMLSSerializer* w=impl->createLSSerializer(); DOMLSOutput* o=impl->createLSOutput(); XMLCh* e=XMLString::transcode(enc); o->setEncoding(e); MemBufFormatTarget t; o->setByteStream(&t);
  w->getDomConfig()->setParameter(XMLUni::fgDOMWRTSplitCdataSections, split); bool ok=w->write(doc,o); std::string r((const char*)t.getRawBuffer(), t.getLen()); XMLString::release(&e); o->release(); w->release(); return ok? r : std::string("<<write failed>>"); }
static std::string reparse_text(const std::string& xml){ XercesDOMParser p; HandlerBase h; p.setErrorHandler(&h); MemBufInputSource src((const XMLByte*)xml.data(), xml.size(), "m"); try { p.parse(src);} catch(...) { return "<<not well-formed>>"; }
  const XMLCh* t=p.getDocument()->getDocumentElement()->getTextContent(); std::string r; for(;*t;t++){ char b[8]; snprintf(b,8,(*t<128&&*t>=32)?"%c":"<%04X>",*t); r+=b;} return r; }
int main(){ XMLPlatformUtils::Initialize(); int rc=0; {
  DOMImplementation* impl=DOMImplementationRegistry::getDOMImplementation(XMLUni::fgZeroLenString); const XMLCh root[]={'r',0};
  struct { const XMLCh v[12]; const char* want; } cases[]={
    {{'a',0xD83D,0xDE00,'b',0}, "a<D83D><DE00>b"},          // supplementary character, not representable in ISO-8859-1
    {{'a',']',']','>','b',0}, "a]]>b"},                     // terminator inside the data
    {{']',']','>',0}, "]]>"}, {{'x',']',']',']','>','y',0}, "x]]]>y"}, {{0x20AC,']',']','>',0}, "<20AC>]]>"} };
  for (auto& c : cases){ DOMDocument* doc=impl->createDocument(0, root, 0); doc->getDocumentElement()->appendChild(doc->createCDATASection(c.v));
    std::string out=ser(doc,"ISO-8859-1",true); std::string got=reparse_text(out); bool ok=(got==c.want); if(!ok) rc=1;
    printf("%-20s -> %s\n    reparsed text: %s%s\n", c.want, out.substr(out.find("<r")).c_str(), got.c_str(), ok?"":"   WRONG"); doc->release(); }
 } XMLPlatformUtils::Terminate(); printf(rc?"FAIL\n":"PASS\n"); return rc; }
