#include <xercesc/util/PlatformUtils.hpp>
#include <xercesc/dom/DOM.hpp>
#include <xercesc/util/XMLString.hpp>
#include <cstdio>
using namespace xercesc;
struct X { XMLCh* p; X(const char* s):p(XMLString::transcode(s)){} ~X(){XMLString::release(&p);} operator const XMLCh*() const {return p;} };
int main(){ XMLPlatformUtils::Initialize(); int rc=0; try {
  DOMImplementation* impl=DOMImplementationRegistry::getDOMImplementation(X("Core"));
  DOMDocument* d=impl->createDocument(0, X("r"), 0); DOMElement* e=d->getDocumentElement(); DOMElement* f=d->createElement(X("f")); e->appendChild(f);
  for (int ns=0; ns<1; ns++) {
    DOMAttr* a = ns ? d->createAttributeNS(X("urn:x"), X("p:a")) : d->createAttribute(X("a")); a->setValue(X("1"));
    if (ns) e->setAttributeNodeNS(a); else e->setAttributeNode(a);
    if (ns) e->setAttributeNodeNS(a); else e->setAttributeNode(a);          // setting the same node again must change nothing
    bool inMap = ns ? (e->getAttributeNodeNS(X("urn:x"), X("a"))==a) : (e->getAttributeNode(X("a"))==a);
    bool owner = (a->getOwnerElement()==e);
    bool stolen=false; try { if (ns) f->setAttributeNodeNS(a); else f->setAttributeNode(a); stolen=true; } catch (const DOMException& ex) { stolen = (ex.code != DOMException::INUSE_ATTRIBUTE_ERR); }
    printf("%s: in e's map=%d ownerElement==e: %d, other element could take it: %d%s\n", ns?"NS":"L1", inMap, owner, stolen, (inMap&&owner&&!stolen)?"":"  WRONG");
    if (!(inMap&&owner&&!stolen)) rc=1; }
  d->release();
 } catch (const DOMException& ex) { printf("DOMException %d\n", (int)ex.code); rc=1; } XMLPlatformUtils::Terminate(); printf(rc?"FAIL\n":"PASS\n"); return rc; }
