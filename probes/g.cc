#include "clang/AST/RecursiveASTVisitor.h"
#include "clang/Analysis/CFG.h"
#include "clang/Frontend/FrontendActions.h"
#include "clang/Frontend/CompilerInstance.h"
#include "clang/Tooling/CommonOptionsParser.h"
#include "clang/Tooling/Tooling.h"
#include "llvm/Support/CommandLine.h"
#include <map>
#include <set>
#include <queue>
using namespace clang; using namespace clang::tooling;
static llvm::cl::OptionCategory Cat("g");
static std::map<std::string,bool> Assume;
static bool inRepo(ASTContext&C, SourceLocation L){ auto &SM=C.getSourceManager(); auto F=SM.getFilename(SM.getSpellingLoc(L)); return F.contains("/repo/src/"); }
// three-valued eval: 1 true, 0 false, -1 unknown
static int ev(const Expr *E){ if(!E) return -1; E=E->IgnoreParenImpCasts();
  if(auto*UO=dyn_cast<UnaryOperator>(E)) if(UO->getOpcode()==UO_LNot){ int v=ev(UO->getSubExpr()); return v<0?-1:!v; }
  std::string n;
  if(auto*ME=dyn_cast<MemberExpr>(E)) n=ME->getMemberDecl()->getNameAsString();
  else if(auto*DR=dyn_cast<DeclRefExpr>(E)) n=DR->getDecl()->getNameAsString();
  else if(auto*CE=dyn_cast<CallExpr>(E)) { if(auto*FD=CE->getDirectCallee()) n=FD->getNameAsString(); }
  auto it=Assume.find(n); if(it!=Assume.end()) return it->second; return -1; }
struct FindNew : RecursiveASTVisitor<FindNew>{ std::vector<const CXXNewExpr*> v; bool VisitCXXNewExpr(CXXNewExpr*E){ auto T=E->getAllocatedType().getAsString(); if(T.find("LocalFileInputSource")!=std::string::npos||T.find("URLInputSource")!=std::string::npos) v.push_back(E); return true; } };
struct Contains : RecursiveASTVisitor<Contains>{ const Stmt*T; bool f=false; Contains(const Stmt*t):T(t){} bool VisitStmt(Stmt*S){ if(S==T) f=true; return !f; } };
struct V : RecursiveASTVisitor<V> {
  ASTContext &C; V(ASTContext&c):C(c){}
  bool VisitFunctionDecl(FunctionDecl *F){
    if(!F->doesThisDeclarationHaveABody()||!inRepo(C,F->getLocation())) return true;
    FindNew fn; fn.TraverseStmt(F->getBody()); if(fn.v.empty()) return true;
    CFG::BuildOptions bo; bo.setAllAlwaysAdd(); auto cfg=CFG::buildCFG(F,F->getBody(),&C,bo); if(!cfg) return true;
    // reachability with pruning
    std::set<const CFGBlock*> seen; std::queue<const CFGBlock*> q; q.push(&cfg->getEntry()); seen.insert(&cfg->getEntry());
    while(!q.empty()){ auto*B=q.front(); q.pop(); int v=-1; if(B->succ_size()==2) if(auto*T=B->getTerminatorCondition()) v=ev(dyn_cast<Expr>(T));
      unsigned i=0; for(auto S=B->succ_begin();S!=B->succ_end();++S,++i){ const CFGBlock*N=S->getReachableBlock(); if(!N) N=S->getPossiblyUnreachableBlock(); if(!N) continue; if(v==1&&i==1) continue; if(v==0&&i==0) continue; if(seen.insert(N).second) q.push(N);} }
    for(auto*NE:fn.v){ bool reach=false; for(auto*B:*cfg){ if(!seen.count(B)) continue; for(auto&El:*B) if(auto S=El.getAs<CFGStmt>()) if(S->getStmt()==NE) reach=true; }
      llvm::outs()<<F->getQualifiedNameAsString()<<"\t"<<NE->getAllocatedType().getAsString()<<"\t"<<C.getSourceManager().getSpellingLineNumber(NE->getBeginLoc())<<"\t"<<(reach?"REACHABLE":"unreachable")<<"\n"; }
    return true; }
};
struct Cons : ASTConsumer { void HandleTranslationUnit(ASTContext &C) override { V v(C); v.TraverseDecl(C.getTranslationUnitDecl()); } };
struct Act : ASTFrontendAction { std::unique_ptr<ASTConsumer> CreateASTConsumer(CompilerInstance&CI, StringRef) override { CI.getDiagnostics().setSuppressAllDiagnostics(true); return std::make_unique<Cons>(); } };
int main(int argc, const char **argv){ if(const char*a=getenv("ASSUME")){ std::string s=a; size_t p=0; while(p<s.size()){ size_t c=s.find(',',p); if(c==std::string::npos)c=s.size(); std::string kv=s.substr(p,c-p); size_t e=kv.find('='); Assume[kv.substr(0,e)]=kv.substr(e+1)=="1"; p=c+1; } }
  auto P = CommonOptionsParser::create(argc, argv, Cat); if(!P){llvm::errs()<<P.takeError();return 1;} ClangTool T(P->getCompilations(), P->getSourcePathList()); return T.run(newFrontendActionFactory<Act>().get()); }
