#include "clang/AST/RecursiveASTVisitor.h"
#include "clang/Analysis/CFG.h"
#include "clang/Frontend/FrontendActions.h"
#include "clang/Frontend/CompilerInstance.h"
#include "clang/Tooling/CommonOptionsParser.h"
#include "clang/Tooling/Tooling.h"
#include "llvm/Support/CommandLine.h"
#include <map>
#include <set>
#include <deque>
using namespace clang; using namespace clang::tooling;
static llvm::cl::OptionCategory Cat("av");
static bool isField(const Expr*E,const char*n){ E=E->IgnoreParenImpCasts(); if(auto*ME=dyn_cast<MemberExpr>(E)) return isa<CXXThisExpr>(ME->getBase()->IgnoreParenImpCasts()) && ME->getMemberDecl()->getNameAsString()==n; return false; }
// returns offset j if E is fCharIndex + j (j const), else -1
static int idxOff(const Expr*E, ASTContext&C){ E=E->IgnoreParenImpCasts(); if(isField(E,"fCharIndex")) return 0; if(auto*BO=dyn_cast<BinaryOperator>(E)) if(BO->getOpcode()==BO_Add && isField(BO->getLHS(),"fCharIndex")){ Expr::EvalResult R; if(BO->getRHS()->EvaluateAsInt(R,C)) return (int)R.Val.getInt().getExtValue(); } 
  if(auto*UO=dyn_cast<UnaryOperator>(E)) if(UO->isPostfix()&&UO->isIncrementOp()&&isField(UO->getSubExpr(),"fCharIndex")) return 0; return -1; }
static bool isRefreshCall(const Expr*E){ E=E->IgnoreParenImpCasts(); if(auto*CE=dyn_cast<CXXMemberCallExpr>(E)) if(auto*M=CE->getMethodDecl()) return M->getNameAsString()=="refreshCharBuffer"; return false; }
static void refine(const Expr*E,bool val,int&k,ASTContext&C){ if(!E)return; E=E->IgnoreParenImpCasts();
  if(auto*UO=dyn_cast<UnaryOperator>(E)){ if(UO->getOpcode()==UO_LNot){ refine(UO->getSubExpr(),!val,k,C); return;} }
  if(auto*BO=dyn_cast<BinaryOperator>(E)){
    if(BO->getOpcode()==BO_LAnd){ if(val){refine(BO->getLHS(),true,k,C);refine(BO->getRHS(),true,k,C);} return; }
    if(BO->getOpcode()==BO_LOr){ if(!val){refine(BO->getLHS(),false,k,C);refine(BO->getRHS(),false,k,C);} return; }
    int off=idxOff(BO->getLHS(),C); bool rhsAvail=isField(BO->getRHS(),"fCharsAvail");
    if(off>=0&&rhsAvail){ auto op=BO->getOpcode();
      if((op==BO_LT&&val)||(op==BO_GE&&!val)) k=std::max(k,off+1);
      else if((op==BO_EQ&&!val)||(op==BO_NE&&val)){ if(k>=off) k=std::max(k,off+1); } // needs fCharIndex+off<=fCharsAvail i.e. k>=off
    }
    return; }
  if(isRefreshCall(E)){ if(val) k=std::max(k,1); return; } }
static std::set<const Stmt*> SkipInc, AddrSub;
struct Pre : RecursiveASTVisitor<Pre>{ bool VisitArraySubscriptExpr(ArraySubscriptExpr*AS){ if(auto*UO=dyn_cast<UnaryOperator>(AS->getIdx()->IgnoreParenImpCasts())) if(UO->isPostfix()&&UO->isIncrementOp()) SkipInc.insert(UO); return true;} bool VisitUnaryOperator(UnaryOperator*UO){ if(UO->getOpcode()==UO_AddrOf) if(auto*AS=dyn_cast<ArraySubscriptExpr>(UO->getSubExpr()->IgnoreParenImpCasts())) AddrSub.insert(AS); return true;} };

struct V : RecursiveASTVisitor<V> {
  ASTContext &C; V(ASTContext&c):C(c){}
  void applyStmt(const Stmt*S,int&k,const FunctionDecl*F,bool report){
    if(auto*AS=dyn_cast<ArraySubscriptExpr>(S)){ if(isField(AS->getBase(),"fCharBuf")){ int off=idxOff(AS->getIdx(),C); if(off>=0&&AddrSub.count(AS)){ if(report) llvm::outs()<<"ADDR\t"<<F->getQualifiedNameAsString()<<"\tk="<<k<<"\tline "<<C.getSourceManager().getSpellingLineNumber(AS->getBeginLoc())<<"\n"; return;} if(off>=0){ if(k<off+1&&report) llvm::outs()<<"REPORT\t"<<F->getQualifiedNameAsString()<<"\tfCharBuf[fCharIndex+"<<off<<"] needs k>="<<off+1<<" have k="<<k<<"\tline "<<C.getSourceManager().getSpellingLineNumber(AS->getBeginLoc())<<"\n"; if(auto*U2=dyn_cast<UnaryOperator>(AS->getIdx()->IgnoreParenImpCasts())) if(U2->isPostfix()&&U2->isIncrementOp()) {/*dec below*/} if(k>=off+1&&report) llvm::outs()<<"ok\t"<<F->getQualifiedNameAsString()<<"\toff "<<off<<"\tline "<<C.getSourceManager().getSpellingLineNumber(AS->getBeginLoc())<<"\n"; } if(auto*U3=dyn_cast<UnaryOperator>(AS->getIdx()->IgnoreParenImpCasts())) if(U3->isPostfix()&&U3->isIncrementOp()&&off>=0) k=std::max(k-1,0); } return; }
    if(auto*UO=dyn_cast<UnaryOperator>(S)){ if(UO->isIncrementOp()&&isField(UO->getSubExpr(),"fCharIndex")){ if(UO->isPostfix()&&SkipInc.count(UO)) return; k=std::max(k-1,0);} else if(UO->isDecrementOp()&&isField(UO->getSubExpr(),"fCharIndex")) k=0; return; }
    if(auto*BO=dyn_cast<BinaryOperator>(S)){ if(BO->isAssignmentOp()){ if(isField(BO->getLHS(),"fCharIndex")){ Expr::EvalResult R; if(BO->getOpcode()==BO_AddAssign&&BO->getRHS()->EvaluateAsInt(R,C)) k=std::max(k-(int)R.Val.getInt().getExtValue(),0); else k=0; } else if(isField(BO->getLHS(),"fCharsAvail")) k=0; } return; }
    if(auto*CE=dyn_cast<CXXMemberCallExpr>(S)){ if(isa<CXXThisExpr>(CE->getImplicitObjectArgument()->IgnoreParenImpCasts())){ auto*M=CE->getMethodDecl(); if(M&&!M->isConst()) k=0; } return; }
  }
  bool VisitCXXMethodDecl(CXXMethodDecl *F){
    if(!F->doesThisDeclarationHaveABody()) return true; if(F->getParent()->getNameAsString()!="XMLReader") return true;
    std::string n=F->getNameAsString(); if(n=="refreshCharBuffer"||n=="xcodeMoreChars"||n=="doInitDecode"||n=="refreshRawBuffer"||isa<CXXConstructorDecl>(F)||n=="setEncoding"||n=="doInitCharSizeChecks") return true;
    Pre pre; pre.TraverseStmt(F->getBody()); CFG::BuildOptions bo; bo.setAllAlwaysAdd(); auto cfg=CFG::buildCFG(F,F->getBody(),&C,bo); if(!cfg) return true;
    std::map<const CFGBlock*,int> in; for(auto*B:*cfg) in[B]=3; in[&cfg->getEntry()]=0; std::deque<const CFGBlock*> wl; wl.push_back(&cfg->getEntry());
    auto flow=[&](const CFGBlock*B,bool report,std::vector<std::pair<const CFGBlock*,int>>&outs){ int k=in[B]; if(k==3) return; for(auto&El:*B) if(auto S=El.getAs<CFGStmt>()) applyStmt(S->getStmt(),k,F,report);
      const Expr*cond=nullptr; if(B->succ_size()==2) cond=dyn_cast_or_null<Expr>(B->getTerminatorCondition());
      // if terminator is a logical op (&&,||), condition is LHS leaf; if terminator is if/while, cond is full expr
      unsigned i=0; for(auto S=B->succ_begin();S!=B->succ_end();++S,++i){ const CFGBlock*N=S->getReachableBlock(); if(!N) continue; int kk=k; if(cond){ const Stmt*T=B->getTerminatorStmt(); const Expr*c=cond; bool logicalT=false; if(auto*LO=dyn_cast_or_null<BinaryOperator>(T)) if(LO->isLogicalOp()){ c=LO->getLHS(); logicalT=true;} if(!logicalT){ while(true){ auto*cc=dyn_cast<BinaryOperator>(c->IgnoreParenImpCasts()); if(cc&&cc->isLogicalOp()) c=cc->getRHS(); else break; } } refine(c,i==0,kk,C);} outs.push_back({N,kk}); } };
    int iter=0; while(!wl.empty()&&iter++<10000){ auto*B=wl.front(); wl.pop_front(); std::vector<std::pair<const CFGBlock*,int>> outs; flow(B,false,outs); for(auto&o:outs){ if(o.second<in[o.first]){ in[o.first]=o.second; wl.push_back(o.first);} } }
    for(auto*B:*cfg){ std::vector<std::pair<const CFGBlock*,int>> outs; flow(B,true,outs); }
    return true; }
};
struct Cons : ASTConsumer { void HandleTranslationUnit(ASTContext &C) override { V v(C); v.TraverseDecl(C.getTranslationUnitDecl()); } };
struct Act : ASTFrontendAction { std::unique_ptr<ASTConsumer> CreateASTConsumer(CompilerInstance&CI, StringRef) override { CI.getDiagnostics().setSuppressAllDiagnostics(true); return std::make_unique<Cons>(); } };
int main(int argc, const char **argv){ auto P = CommonOptionsParser::create(argc, argv, Cat); ClangTool T(P->getCompilations(), P->getSourcePathList()); return T.run(newFrontendActionFactory<Act>().get()); }
