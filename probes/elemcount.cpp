// Replay for the C15 RESET finding: DGXMLScanner::fElemCount is never reset (IG/SG/XSAX reset it in
// scanReset). It is a 32-bit counter used as a per-element stamp for duplicate-attribute detection;
// once a long-lived DGXMLScanner has seen 2^32 elements the stamp wraps to 0 and the next element with a
// declared attribute gets a spurious fatal "attribute already used". The same parser object is reused for
// many documents, which is exactly what a fresh parser would never do.
#include <xercesc/util/PlatformUtils.hpp>
#include <xercesc/parsers/SAXParser.hpp>
#include <xercesc/sax/HandlerBase.hpp>
#include <xercesc/sax/InputSource.hpp>
#include <xercesc/util/BinInputStream.hpp>
#include <xercesc/util/XMLString.hpp>
#include <xercesc/util/XMLUni.hpp>
#include <cstring>
#include <cstdio>
#include <string>
using namespace xercesc;
static std::string head = "<!DOCTYPE r [<!ELEMENT r (a)*><!ELEMENT a EMPTY><!ATTLIST a b CDATA #IMPLIED>]><r>";
static std::string unit = "<a b='1'/>";
struct Gen : BinInputStream {
  unsigned long long n, done = 0; size_t pos = 0; int phase = 0; std::string tail = "</r>";
  Gen(unsigned long long k) : n(k) {}
  XMLFilePos curPos() const override { return 0; }
  const XMLCh* getContentType() const override { return 0; }
  XMLSize_t readBytes(XMLByte* const to, const XMLSize_t max) override {
    XMLSize_t w = 0;
    while (w < max) {
      const std::string* s = phase == 0 ? &head : phase == 1 ? &unit : &tail;
      if (phase == 3) break;
      size_t c = std::min(max - w, s->size() - pos); memcpy(to + w, s->data() + pos, c); w += c; pos += c;
      if (pos == s->size()) { pos = 0; if (phase == 0) phase = n ? 1 : 2; else if (phase == 1) { if (++done == n) phase = 2; } else phase = 3; }
    }
    return w;
  }
};
struct Src : InputSource { unsigned long long n; Src(unsigned long long k) : n(k) {} BinInputStream* makeStream() const override { return new Gen(n); } };
struct H : HandlerBase { unsigned long long fatal = 0; void fatalError(const SAXParseException& e) override { if (!fatal++) { char* m = XMLString::transcode(e.getMessage()); printf("  fatal: %s (line %llu col %llu)\n", m, (unsigned long long)e.getLineNumber(), (unsigned long long)e.getColumnNumber()); XMLString::release(&m); } } };
int main(int argc, char** argv) {
  XMLPlatformUtils::Initialize();
  int rc = 0;
  {
    SAXParser p; p.useScanner(XMLUni::fgDGXMLScanner); H h; p.setErrorHandler(&h); p.setValidationScheme(SAXParser::Val_Never);
    // history: documents totalling 2^32 - 2 elements (root + a's count), then a small document
    unsigned long long per = 1ULL << 28, total = 0;
    for (int i = 0; i < 16; i++) { unsigned long long k = per - 1 - (i == 15 ? 2 : 0); Src s(k); p.parse(s); total += k + 1; printf("doc %d: %llu elements so far, fatal=%llu\n", i, total, h.fatal); fflush(stdout); }
    Src s(5); p.parse(s); printf("reused parser, small document: fatal=%llu\n", h.fatal);
    SAXParser q; q.useScanner(XMLUni::fgDGXMLScanner); H h2; q.setErrorHandler(&h2); q.setValidationScheme(SAXParser::Val_Never); Src s2(5); q.parse(s2);
    printf("fresh parser, same small document: fatal=%llu\n", h2.fatal);
    rc = (h.fatal != h2.fatal);
  }
  XMLPlatformUtils::Terminate();
  printf(rc ? "HISTORY-DEPENDENT\n" : "same\n");
  return rc;
}
