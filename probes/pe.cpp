#include <xercesc/util/PlatformUtils.hpp>
#include <xercesc/parsers/SAXParser.hpp>
#include <xercesc/sax/HandlerBase.hpp>
#include <xercesc/util/SecurityManager.hpp>
#include <xercesc/util/XMLString.hpp>
#include <iostream>
#include <chrono>
using namespace xercesc;
struct H : HandlerBase { int fatal=0, err=0; void fatalError(const SAXParseException& e) override { fatal++; char* m=XMLString::transcode(e.getMessage()); std::cout<<"  fatal: "<<m<<"\n"; XMLString::release(&m);} void error(const SAXParseException&) override {err++;} };
int main(int argc,char**argv){ XMLPlatformUtils::Initialize(); { for(int i=1;i<argc;i++){ SAXParser p; SecurityManager sm; sm.setEntityExpansionLimit(10); p.setSecurityManager(&sm); H h; p.setDocumentHandler(&h); p.setErrorHandler(&h); p.setValidationScheme(SAXParser::Val_Never); auto t0=std::chrono::steady_clock::now(); try { p.parse(argv[i]); } catch(...) { std::cout<<"  exception\n"; } auto ms=std::chrono::duration_cast<std::chrono::milliseconds>(std::chrono::steady_clock::now()-t0).count(); std::cout<<argv[i]<<": fatal="<<h.fatal<<" err="<<h.err<<" ms="<<ms<<"\n"; } } XMLPlatformUtils::Terminate(); }
