#include "clang/AST/RecursiveASTVisitor.h"
#include "clang/Analysis/CFG.h"
#include "clang/Frontend/FrontendActions.h"
#include "clang/Frontend/CompilerInstance.h"
#include "clang/Tooling/CommonOptionsParser.h"
#include "clang/Tooling/Tooling.h"
#include "llvm/Support/CommandLine.h"
using namespace clang; using namespace clang::tooling;
static llvm::cl::OptionCategory Cat("c");
struct V : RecursiveASTVisitor<V> { ASTContext &C; V(ASTContext&c):C(c){}
  bool VisitFunctionDecl(FunctionDecl *F){ if(!F->doesThisDeclarationHaveABody()) return true; const char*w=getenv("FN"); if(!w||F->getQualifiedNameAsString()!=w) return true;
    CFG::BuildOptions bo; bo.setAllAlwaysAdd(); auto cfg=CFG::buildCFG(F,F->getBody(),&C,bo); cfg->dump(C.getLangOpts(), false); return true; } };
struct Cons : ASTConsumer { void HandleTranslationUnit(ASTContext &C) override { V v(C); v.TraverseDecl(C.getTranslationUnitDecl()); } };
struct Act : ASTFrontendAction { std::unique_ptr<ASTConsumer> CreateASTConsumer(CompilerInstance&CI, StringRef) override { CI.getDiagnostics().setSuppressAllDiagnostics(true); return std::make_unique<Cons>(); } };
int main(int argc, const char **argv){ auto P = CommonOptionsParser::create(argc, argv, Cat); ClangTool T(P->getCompilations(), P->getSourcePathList()); return T.run(newFrontendActionFactory<Act>().get()); }
