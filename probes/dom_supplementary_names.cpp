#include <xercesc/util/PlatformUtils.hpp>
#include <xercesc/parsers/XercesDOMParser.hpp>
#include <xercesc/parsers/SAXParser.hpp>
#include <xercesc/sax/HandlerBase.hpp>
#include <xercesc/framework/MemBufInputSource.hpp>
#include <xercesc/dom/DOM.hpp>
#include <xercesc/util/XMLString.hpp>
#include <string>
#include <cstdio>
using namespace xercesc;
struct H : HandlerBase { int pis=0, errs=0; void processingInstruction(const XMLCh* const, const XMLCh* const) override { pis++; } void fatalError(const SAXParseException&) override { errs++; } void error(const SAXParseException&) override { errs++; } };
int main(){ XMLPlatformUtils::Initialize(); int rc=0; {
  std::string d="<a><?\xF0\x90\x80\x80 x?><b\xF0\x90\x80\x80 c\xF0\x90\x80\x80='1'/></a>";   // U+10000 is a NameStartChar in XML 1.0 5th ed. and 1.1
  { SAXParser p; H h; p.setDocumentHandler(&h); p.setErrorHandler(&h); MemBufInputSource src((const XMLByte*)d.data(), d.size(), "m"); p.parse(src); printf("SAX : PIs=%d errors=%d\n", h.pis, h.errs); if (h.pis!=1||h.errs) rc=1; }
  { XercesDOMParser p; H h; p.setErrorHandler(&h); MemBufInputSource src((const XMLByte*)d.data(), d.size(), "m");
    try { p.parse(src); DOMNode* n=p.getDocument()->getDocumentElement()->getFirstChild(); printf("DOM : first child type=%d errors=%d\n", n?n->getNodeType():-1, h.errs); if(!n||n->getNodeType()!=DOMNode::PROCESSING_INSTRUCTION_NODE) rc=1; }
    catch (const DOMException& e) { printf("DOM : DOMException code %d\n", (int)e.code); rc=1; } catch(...) { printf("DOM: exception\n"); rc=1; } }
  { DOMImplementation* impl=DOMImplementationRegistry::getDOMImplementation(XMLUni::fgZeroLenString); const XMLCh root[]={'r',0}; DOMDocument* doc=impl->createDocument(0, root, 0);
    const XMLCh nm[]={0xD800,0xDC00,'x',0}; const XMLCh nm2[]={'x',0xD800,0xDC00,0}; const XMLCh bad[]={0xDB80,0xDC00,0};  // U+F0000 is not a name character
    for (const XMLCh* n : {nm, nm2}) { try { doc->createElement(n); printf("createElement(valid supplementary name): ok\n"); } catch (const DOMException& e) { printf("createElement(valid supplementary name): DOMException %d  WRONG\n",(int)e.code); rc=1; } }
    try { doc->createElement(bad); printf("createElement(U+F0000): accepted  WRONG\n"); rc=1; } catch (const DOMException&) { printf("createElement(U+F0000): rejected\n"); }
    doc->release(); }
 } XMLPlatformUtils::Terminate(); printf(rc?"FAIL\n":"PASS\n"); return rc; }
