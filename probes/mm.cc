#include "clang/AST/RecursiveASTVisitor.h"
#include "clang/Frontend/FrontendActions.h"
#include "clang/Frontend/CompilerInstance.h"
#include "clang/Tooling/CommonOptionsParser.h"
#include "clang/Tooling/Tooling.h"
#include "clang/Lex/Lexer.h"
#include "llvm/Support/CommandLine.h"
#include <map>
using namespace clang; using namespace clang::tooling;
static llvm::cl::OptionCategory Cat("mm");
static bool inRepo(ASTContext&C, SourceLocation L){ auto &SM=C.getSourceManager(); auto F=SM.getFilename(SM.getSpellingLoc(L)); return F.contains("/repo/src/"); }
static std::string txt(const Stmt*S,ASTContext&C){ if(!S) return "<null>"; if(isa<CXXDefaultArgExpr>(S)) S=cast<CXXDefaultArgExpr>(S)->getExpr(); auto R=CharSourceRange::getTokenRange(S->getSourceRange()); std::string s=Lexer::getSourceText(R,C.getSourceManager(),C.getLangOpts()).str(); std::string o; for(char c:s){ if(isspace(c)) continue; o.push_back(c);} if(o.rfind("this->",0)==0) o=o.substr(6); return o; }
static bool isMM(QualType T){ return T->isPointerType() && T->getPointeeType().getAsString().find("MemoryManager")!=std::string::npos; }
struct FV : RecursiveASTVisitor<FV> { ASTContext&C; FunctionDecl*F; std::map<const VarDecl*,std::vector<std::pair<std::string,unsigned>>> alloc, rel; FV(ASTContext&c,FunctionDecl*f):C(c),F(f){}
  unsigned ln(const Stmt*S){ return C.getSourceManager().getSpellingLineNumber(S->getBeginLoc()); }
  // manager of an allocation expression, "" if not an allocation
  std::string allocMgr(const Expr*E){ E=E->IgnoreParenCasts();
    if(auto*MC=dyn_cast<CXXMemberCallExpr>(E)){ if(auto*M=MC->getMethodDecl()) if(M->getNameAsString()=="allocate"&&M->getParent()->getNameAsString().find("MemoryManager")!=std::string::npos) return txt(MC->getImplicitObjectArgument()->IgnoreParenImpCasts(),C); }
    if(auto*NE=dyn_cast<CXXNewExpr>(E)){ if(NE->getNumPlacementArgs()==1&&isMM(NE->getPlacementArg(0)->getType())) return txt(NE->getPlacementArg(0)->IgnoreParenImpCasts(),C); if(NE->getNumPlacementArgs()==0) return "::new"; }
    if(auto*CE=dyn_cast<CallExpr>(E)){ if(auto*FD=CE->getDirectCallee()){ if(!FD->getReturnType()->isPointerType()) return ""; std::string n=FD->getNameAsString(); if(n!="replicate"&&n!="transcode"&&n!="makeUName"&&n!="getFullPath"&&n!="weavePaths"&&n!="getCurrentDirectory") return ""; for(unsigned i=0;i<CE->getNumArgs()&&i<FD->getNumParams();i++) if(isMM(FD->getParamDecl(i)->getType())) return txt(CE->getArg(i)->IgnoreParenImpCasts(),C); } }
    return ""; }
  const VarDecl* var(const Expr*E){ E=E->IgnoreParenCasts(); if(auto*UO=dyn_cast<UnaryOperator>(E)) if(UO->getOpcode()==UO_AddrOf) E=UO->getSubExpr()->IgnoreParenCasts(); if(auto*DR=dyn_cast<DeclRefExpr>(E)) if(auto*VD=dyn_cast<VarDecl>(DR->getDecl())) if(VD->isLocalVarDecl()&&VD->getType()->isPointerType()) return VD; return nullptr; }
  bool VisitVarDecl(VarDecl*D){ if(D->isLocalVarDecl()&&D->getInit()){ if(D->getType()->isPointerType()){ auto m=allocMgr(D->getInit()); if(!m.empty()) alloc[D].push_back({m,ln(D->getInit())}); }
      // ArrayJanitor<T> j(p, M) / Janitor
      std::string tn=D->getType().getAsString(); if(tn.find("ArrayJanitor")!=std::string::npos){ if(auto*CE=dyn_cast<CXXConstructExpr>(D->getInit()->IgnoreImplicit())){ if(CE->getNumArgs()>=1){ if(auto*P=var(CE->getArg(0))){ std::string m = CE->getNumArgs()>=2? txt(CE->getArg(1)->IgnoreParenImpCasts(),C):"<nomgr>"; rel[P].push_back({m,ln(CE)}); } else { auto m1=allocMgr(CE->getArg(0)); if(!m1.empty()){ std::string m2=CE->getNumArgs()>=2? txt(CE->getArg(1)->IgnoreParenImpCasts(),C):"<nomgr>"; if(m1!=m2) llvm::outs()<<"MISMATCH-INLINE\t"<<F->getQualifiedNameAsString()<<"\tline "<<ln(CE)<<"\talloc["<<m1<<"] janitor["<<m2<<"]\n"; } } } } } }
    return true; }
  bool VisitBinaryOperator(BinaryOperator*BO){ if(BO->getOpcode()==BO_Assign) if(auto*P=var(BO->getLHS())){ auto m=allocMgr(BO->getRHS()); if(!m.empty()) alloc[P].push_back({m,ln(BO)}); } return true; }
  bool VisitCXXMemberCallExpr(CXXMemberCallExpr*MC){ auto*M=MC->getMethodDecl(); if(!M) return true; std::string n=M->getNameAsString();
    if(n=="deallocate"&&MC->getNumArgs()==1){ if(auto*P=var(MC->getArg(0))) rel[P].push_back({txt(MC->getImplicitObjectArgument()->IgnoreParenImpCasts(),C),ln(MC)}); }
    if(n=="reset"&&M->getParent()->getNameAsString().find("ArrayJanitor")!=std::string::npos&&MC->getNumArgs()>=1){ if(auto*P=var(MC->getArg(0))) rel[P].push_back({MC->getNumArgs()>=2?txt(MC->getArg(1)->IgnoreParenImpCasts(),C):"<nomgr>",ln(MC)}); else { auto m1=allocMgr(MC->getArg(0)); if(!m1.empty()){ std::string m2=MC->getNumArgs()>=2?txt(MC->getArg(1)->IgnoreParenImpCasts(),C):"<nomgr>"; if(m1!=m2) llvm::outs()<<"MISMATCH-INLINE\t"<<F->getQualifiedNameAsString()<<"\tline "<<ln(MC)<<"\talloc["<<m1<<"] janitor["<<m2<<"]\n"; } } }
    return true; }
  bool VisitCallExpr(CallExpr*CE){ if(auto*FD=CE->getDirectCallee()) if(FD->getNameAsString()=="release"&&CE->getNumArgs()==2&&isMM(FD->getParamDecl(1)->getType())) if(auto*P=var(CE->getArg(0))) rel[P].push_back({txt(CE->getArg(1)->IgnoreParenImpCasts(),C),ln(CE)}); return true; }
  bool VisitCXXDeleteExpr(CXXDeleteExpr*DE){ if(auto*P=var(DE->getArgument())) rel[P].push_back({DE->isArrayForm()?"::delete[]":"::delete",ln(DE)}); return true; }
};
struct V : RecursiveASTVisitor<V> { ASTContext &C; V(ASTContext&c):C(c){}
  bool VisitFunctionDecl(FunctionDecl*F){ if(!F->doesThisDeclarationHaveABody()||!inRepo(C,F->getLocation())) return true; FV fv(C,F); fv.TraverseStmt(F->getBody());
    for(auto&a:fv.alloc){ auto it=fv.rel.find(a.first); if(it==fv.rel.end()) continue; for(auto&x:a.second) for(auto&y:it->second){ bool ok = x.first==y.first || (x.first=="::new"&&(y.first=="::delete"||y.first=="::delete[]")); llvm::outs()<<(ok?"PAIR-OK":"MISMATCH")<<"\t"<<F->getQualifiedNameAsString()<<"\t"<<a.first->getNameAsString()<<"\talloc@"<<x.second<<"["<<x.first<<"]\trelease@"<<y.second<<"["<<y.first<<"]\n"; } }
    return true; } };
struct Cons : ASTConsumer { void HandleTranslationUnit(ASTContext &C) override { V v(C); v.TraverseDecl(C.getTranslationUnitDecl()); } };
struct Act : ASTFrontendAction { std::unique_ptr<ASTConsumer> CreateASTConsumer(CompilerInstance&CI, StringRef) override { CI.getDiagnostics().setSuppressAllDiagnostics(true); return std::make_unique<Cons>(); } };
int main(int argc, const char **argv){ auto P = CommonOptionsParser::create(argc, argv, Cat); ClangTool T(P->getCompilations(), P->getSourcePathList()); return T.run(newFrontendActionFactory<Act>().get()); }
