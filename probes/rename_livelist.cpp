// Replay for C14: DOMElementImpl::rename (no-namespace branch) changes the element's name in place without
// bumping the document's change counter, so live getElementsByTagName lists that already cached their
// result keep returning the renamed element.
#include <xercesc/util/PlatformUtils.hpp>
#include <xercesc/dom/DOM.hpp>
#include <xercesc/util/XMLString.hpp>
#include <cstdio>
using namespace xercesc;
int main(){ XMLPlatformUtils::Initialize(); int rc=0; {
  XMLCh core[5]; XMLString::transcode("Core", core, 4);
  DOMImplementation* impl = DOMImplementationRegistry::getDOMImplementation(core);
  XMLCh* r=XMLString::transcode("r"); XMLCh* a=XMLString::transcode("a"); XMLCh* b=XMLString::transcode("b");
  DOMDocument* doc = impl->createDocument(0, r, 0); DOMElement* e=doc->getDocumentElement(); DOMElement* c=doc->createElement(a); e->appendChild(c);
  DOMNodeList* la=doc->getElementsByTagName(a); DOMNodeList* lb=doc->getElementsByTagName(b);
  printf("before: a=%d b=%d\n",(int)la->getLength(),(int)lb->getLength());
  doc->renameNode(c, 0, b);
  int na=(int)la->getLength(), nb=(int)lb->getLength();
  printf("after rename a->b: a=%d b=%d (expected a=0 b=1)\n",na,nb); rc = !(na==0 && nb==1);
  doc->release(); }
  XMLPlatformUtils::Terminate(); printf(rc?"STALE LIVE LIST\n":"ok\n"); return rc; }
