// Replay for C06/C02: WFXMLScanner::scanStartTagNS checks expanded-name collisions of attributes with a hash table
// when a tag has more than 100 attributes, but its loop runs to attCount-1 and so never examines the last attribute.
#include <xercesc/util/PlatformUtils.hpp>
#include <xercesc/parsers/SAXParser.hpp>
#include <xercesc/sax/HandlerBase.hpp>
#include <xercesc/framework/MemBufInputSource.hpp>
#include <xercesc/util/XMLUni.hpp>
#include <string>
#include <cstdio>
using namespace xercesc;
struct H : HandlerBase { int fatal=0; void fatalError(const SAXParseException&) override { fatal++; } };
static int run(const XMLCh* scanner, int extra){ std::string d="<r xmlns:p='urn:u' xmlns:q='urn:u'><e";
  for(int i=0;i<extra;i++) d+=" a"+std::to_string(i)+"='v'";
  d+=" p:x='1' q:x='2'/></r>";
  SAXParser p; p.useScanner(scanner); p.setDoNamespaces(true); H h; p.setErrorHandler(&h);
  MemBufInputSource src((const XMLByte*)d.data(), d.size(), "m"); try { p.parse(src);} catch(...) {} return h.fatal; }
int main(){ XMLPlatformUtils::Initialize(); int rc=0; {
  for (int extra : {3, 97, 98, 99, 100, 150}) {
    int wf=run(XMLUni::fgWFXMLScanner, extra), ig=run(XMLUni::fgIGXMLScanner, extra);
    printf("%3d attributes: WFXMLScanner fatal=%d  IGXMLScanner fatal=%d%s\n", extra+2, wf, ig, (wf==0)!=(ig==0)?"   <-- scanners disagree":"");
    if ((wf==0)!=(ig==0) || wf==0) rc=1; } }
  XMLPlatformUtils::Terminate(); printf(rc?"COLLIDING EXPANDED NAMES ACCEPTED\n":"ok\n"); return rc; }
