#include "clang/AST/RecursiveASTVisitor.h"
#include "clang/Frontend/FrontendActions.h"
#include "clang/Frontend/CompilerInstance.h"
#include "clang/Tooling/CommonOptionsParser.h"
#include "clang/Tooling/Tooling.h"
#include "clang/Lex/Lexer.h"
#include "llvm/Support/CommandLine.h"
using namespace clang; using namespace clang::tooling;
static llvm::cl::OptionCategory Cat("soh");
static bool inRepo(ASTContext&C, SourceLocation L){ auto &SM=C.getSourceManager(); auto F=SM.getFilename(SM.getSpellingLoc(L)); return F.contains("/repo/src/"); }
static std::string txt(const Stmt*S,ASTContext&C){ auto R=CharSourceRange::getTokenRange(S->getSourceRange()); std::string s=Lexer::getSourceText(R,C.getSourceManager(),C.getLangOpts()).str(); std::string o; for(char c:s){ if(c=='\n'||c=='\t') c=' '; if(c==' '&&!o.empty()&&o.back()==' ') continue; o.push_back(c);} return o; }
static const Stmt* single(const Stmt*S){ if(auto*CS=dyn_cast_or_null<CompoundStmt>(S)){ if(CS->size()==1) return *CS->body_begin(); return nullptr;} return S; }
struct V : RecursiveASTVisitor<V> { ASTContext &C; FunctionDecl*Cur=nullptr; V(ASTContext&c):C(c){}
  bool TraverseDecl(Decl *D){ if(auto*F=dyn_cast_or_null<FunctionDecl>(D)){ if(F->doesThisDeclarationHaveABody()){ auto*S=Cur; Cur=F; bool r=RecursiveASTVisitor::TraverseDecl(D); Cur=S; return r; } } return RecursiveASTVisitor::TraverseDecl(D); }
  bool VisitIfStmt(IfStmt*I){ if(!inRepo(C,I->getBeginLoc())||!I->getElse()) return true;
    auto*T=dyn_cast_or_null<BinaryOperator>(single(I->getThen())); auto*E=dyn_cast_or_null<BinaryOperator>(single(I->getElse())); if(!T||!E||!T->isAssignmentOp()||!E->isAssignmentOp()) return true;
    auto arr=[&](const Expr*X)->const ConstantArrayType*{ X=X->IgnoreParenImpCasts(); if(auto*DR=dyn_cast<DeclRefExpr>(X)) return C.getAsConstantArrayType(DR->getDecl()->getType()); return nullptr; };
    const BinaryOperator*H=T,*S=E; bool swapped=false; if(arr(T->getRHS())&&!arr(E->getRHS())){H=E;S=T;swapped=true;} const ConstantArrayType*AT=arr(S->getRHS()); if(!AT||arr(H->getRHS())) return true;
    llvm::outs()<<"SOH\t"<<(Cur?Cur->getQualifiedNameAsString():"?")<<"\tline "<<C.getSourceManager().getSpellingLineNumber(I->getBeginLoc())<<"\tcond["<<(swapped?"else-heap ":"")<<txt(I->getCond(),C)<<"]\tK="<<AT->getSize().getZExtValue()<<"\theap["<<txt(H->getRHS(),C)<<"]\n"; return true; }
};
struct Cons : ASTConsumer { void HandleTranslationUnit(ASTContext &C) override { V v(C); v.TraverseDecl(C.getTranslationUnitDecl()); } };
struct Act : ASTFrontendAction { std::unique_ptr<ASTConsumer> CreateASTConsumer(CompilerInstance&CI, StringRef) override { CI.getDiagnostics().setSuppressAllDiagnostics(true); return std::make_unique<Cons>(); } };
int main(int argc, const char **argv){ auto P = CommonOptionsParser::create(argc, argv, Cat); ClangTool T(P->getCompilations(), P->getSourcePathList()); return T.run(newFrontendActionFactory<Act>().get()); }
