#include <xercesc/util/PlatformUtils.hpp>
#include <xercesc/parsers/SAXParser.hpp>
#include <xercesc/sax/HandlerBase.hpp>
#include <xercesc/framework/MemBufInputSource.hpp>
#include <xercesc/util/XMLString.hpp>
#include <string>
#include <cstdio>
using namespace xercesc;
struct H : HandlerBase { int fatal=0; void fatalError(const SAXParseException& e) override { fatal++; char*m=XMLString::transcode(e.getMessage()); printf("    fatal: %s\n",m); XMLString::release(&m);} };
int run(const std::string& d){ SAXParser p; H h; p.setErrorHandler(&h); MemBufInputSource src((const XMLByte*)d.data(), d.size(), "m"); try { p.parse(src);} catch(...) { printf("    exception\n"); return -1;} return h.fatal; }
int main(){ XMLPlatformUtils::Initialize(); {
  printf("<a/> + C3            : fatal=%d\n", run(std::string("<a/>\xC3")));
  printf("<a/> + E2 82         : fatal=%d\n", run(std::string("<a/>\xE2\x82")));
  printf("<a>x + C3 + </a> ok? : fatal=%d\n", run(std::string("<a>x\xC3</a>")));
  printf("<a/> + comment w/ truncated : fatal=%d\n", run(std::string("<a/><!-- \xC3")));
  printf("<a/>\\n + F0 9F 98   : fatal=%d\n", run(std::string("<a/>\n\xF0\x9F\x98")));
 } XMLPlatformUtils::Terminate(); }
