// Differential round-trip demo for the grammar-pool serialisation property.
//
//  1. build pool A by loading schema.xsd (cached)
//  2. serialise A to memory, deserialise into a fresh pool B
//  3. validate every instance document against A and against B (grammar taken
//     from the pool only, no schemaLocation in the documents) and compare:
//        - the list of validation errors (text + line/column)
//        - the SAX2 event stream including all (specified + defaulted) attributes
//  4. compare the attribute-use value constraints of the XSModel of A and B
//  5. serialise B again (must not throw)
//
// Prints PASS and exits 0 if A and B behave the same, FAIL / exit 1 otherwise.

#include <xercesc/util/PlatformUtils.hpp>
#include <xercesc/util/XMLString.hpp>
#include <xercesc/util/BinMemInputStream.hpp>
#include <xercesc/util/OutOfMemoryException.hpp>
#include <xercesc/framework/XMLGrammarPoolImpl.hpp>
#include <xercesc/framework/MemBufInputSource.hpp>
#include <xercesc/framework/psvi/XSModel.hpp>
#include <xercesc/framework/psvi/XSNamedMap.hpp>
#include <xercesc/framework/psvi/XSElementDeclaration.hpp>
#include <xercesc/framework/psvi/XSComplexTypeDefinition.hpp>
#include <xercesc/framework/psvi/XSAttributeUse.hpp>
#include <xercesc/framework/psvi/XSAttributeDeclaration.hpp>
#include <xercesc/framework/psvi/XSModelGroup.hpp>
#include <xercesc/framework/psvi/XSParticle.hpp>
#include <xercesc/internal/BinMemOutputStream.hpp>
#include <xercesc/sax2/SAX2XMLReader.hpp>
#include <xercesc/sax2/XMLReaderFactory.hpp>
#include <xercesc/sax2/DefaultHandler.hpp>
#include <xercesc/sax2/Attributes.hpp>
#include <xercesc/sax/SAXParseException.hpp>
#include <xercesc/validators/common/Grammar.hpp>

#include <algorithm>
#include <iostream>
#include <sstream>
#include <string>
#include <vector>

using namespace XERCES_CPP_NAMESPACE;

static std::string S(const XMLCh* s)
{
    if (!s) return "(null)";
    char* t = XMLString::transcode(s);
    std::string r(t);
    XMLString::release(&t);
    return r;
}

class Recorder : public DefaultHandler
{
public:
    std::vector<std::string> errors;
    std::vector<std::string> events;

    void startElement(const XMLCh* const uri, const XMLCh* const local,
                      const XMLCh* const, const Attributes& attrs)
    {
        // attributes sorted by name: the order of defaulted attributes is
        // not part of what we compare here
        std::vector<std::string> a;
        for (XMLSize_t i = 0; i < attrs.getLength(); i++)
            a.push_back("{" + S(attrs.getURI(i)) + "}" + S(attrs.getLocalName(i)) +
                        "=" + S(attrs.getValue(i)) + ":" + S(attrs.getType(i)));
        std::sort(a.begin(), a.end());
        std::string e = "<{" + S(uri) + "}" + S(local);
        for (size_t i = 0; i < a.size(); i++) e += " " + a[i];
        events.push_back(e + ">");
    }
    void characters(const XMLCh* const chars, const XMLSize_t)
    {
        events.push_back("T:" + S(chars));
    }
    void rec(const char* k, const SAXParseException& e)
    {
        std::ostringstream o;
        o << k << "@" << e.getLineNumber() << ":" << e.getColumnNumber() << " " << S(e.getMessage());
        errors.push_back(o.str());
    }
    void warning(const SAXParseException& e)    { rec("W", e); }
    void error(const SAXParseException& e)      { rec("E", e); }
    void fatalError(const SAXParseException& e) { rec("F", e); }
};

static void configure(SAX2XMLReader* p)
{
    p->setFeature(XMLUni::fgSAX2CoreNameSpaces, true);
    p->setFeature(XMLUni::fgSAX2CoreValidation, true);
    p->setFeature(XMLUni::fgXercesDynamic, false);
    p->setFeature(XMLUni::fgXercesSchema, true);
    p->setFeature(XMLUni::fgXercesSchemaFullChecking, true);
    p->setFeature(XMLUni::fgXercesUseCachedGrammarInParse, true);
    p->setFeature(XMLUni::fgXercesLoadSchema, false);      // grammar must come from the pool
}

static void run(XMLGrammarPool* pool, const std::string& doc, Recorder& r)
{
    SAX2XMLReader* p = XMLReaderFactory::createXMLReader(XMLPlatformUtils::fgMemoryManager, pool);
    configure(p);
    p->setContentHandler(&r);
    p->setErrorHandler(&r);
    MemBufInputSource src((const XMLByte*)doc.data(), doc.size(), "doc");
    try { p->parse(src); }
    catch (const OutOfMemoryException&) { r.errors.push_back("OOM"); }
    catch (const XMLException& e)       { r.errors.push_back("X " + S(e.getMessage())); }
    catch (const SAXException& e)       { r.errors.push_back("S " + S(e.getMessage())); }
    delete p;
}

// dump the attribute uses (required / value constraint) of all global elements
static void dumpParticle(XSParticle* part, std::vector<std::string>& out, int depth);
static void dumpElem(XSElementDeclaration* e, std::vector<std::string>& out, int depth)
{
    if (!e || depth > 6) return;
    XSTypeDefinition* t = e->getTypeDefinition();
    if (!t || t->getTypeCategory() != XSTypeDefinition::COMPLEX_TYPE) return;
    XSComplexTypeDefinition* ct = (XSComplexTypeDefinition*)t;
    XSAttributeUseList* uses = ct->getAttributeUses();
    std::vector<std::string> lines;
    for (XMLSize_t i = 0; uses && i < uses->size(); i++)
    {
        XSAttributeUse* u = uses->elementAt(i);
        std::ostringstream o;
        o << S(e->getName()) << "/@" << S(u->getAttrDeclaration()->getName())
          << " required=" << u->getRequired()
          << " constraint=" << (int)u->getConstraintType()
          << " value=" << S(u->getConstraintValue());
        lines.push_back(o.str());
    }
    std::sort(lines.begin(), lines.end());
    out.insert(out.end(), lines.begin(), lines.end());
    if (ct->getParticle()) dumpParticle(ct->getParticle(), out, depth + 1);
}
static void dumpParticle(XSParticle* part, std::vector<std::string>& out, int depth)
{
    if (!part || depth > 6) return;
    if (part->getTermType() == XSParticle::TERM_ELEMENT)
        dumpElem(part->getElementTerm(), out, depth);
    else if (part->getTermType() == XSParticle::TERM_MODELGROUP)
    {
        XSParticleList* l = part->getModelGroupTerm()->getParticles();
        for (XMLSize_t i = 0; l && i < l->size(); i++) dumpParticle(l->elementAt(i), out, depth);
    }
}
static std::vector<std::string> dumpModel(XMLGrammarPool* pool)
{
    std::vector<std::string> out;
    bool changed;
    XSModel* m = pool->getXSModel(changed);
    if (!m) { out.push_back("no model"); return out; }
    XSNamedMap<XSObject>* els = m->getComponents(XSConstants::ELEMENT_DECLARATION);
    for (XMLSize_t i = 0; els && i < els->getLength(); i++)
        dumpElem((XSElementDeclaration*)els->item(i), out, 0);
    std::sort(out.begin(), out.end());
    return out;
}

static bool same(const char* what, const std::vector<std::string>& a, const std::vector<std::string>& b)
{
    if (a == b) return true;
    std::cout << "  DIFFERENCE in " << what << "\n    original pool:\n";
    for (size_t i = 0; i < a.size(); i++) std::cout << "      " << a[i] << "\n";
    std::cout << "    restored pool:\n";
    for (size_t i = 0; i < b.size(); i++) std::cout << "      " << b[i] << "\n";
    return false;
}

int main(int argc, char** argv)
{
    const char* xsd = argc > 1 ? argv[1] : "schema.xsd";
    XMLPlatformUtils::Initialize();
    bool ok = true;
    {
        MemoryManager* mm = XMLPlatformUtils::fgMemoryManager;

        // 1. original pool
        XMLGrammarPool* poolA = new XMLGrammarPoolImpl(mm);
        {
            Recorder r;
            SAX2XMLReader* p = XMLReaderFactory::createXMLReader(mm, poolA);
            configure(p);
            p->setFeature(XMLUni::fgXercesLoadSchema, true);
            p->setErrorHandler(&r);
            Grammar* g = p->loadGrammar(xsd, Grammar::SchemaGrammarType, true);
            delete p;
            if (!g || !r.errors.empty())
            {
                std::cout << "cannot load " << xsd << "\n";
                for (size_t i = 0; i < r.errors.size(); i++) std::cout << r.errors[i] << "\n";
                return 2;
            }
        }

        // 2. round trip
        BinMemOutputStream out1(64 * 1024, mm);
        poolA->serializeGrammars(&out1);
        XMLGrammarPool* poolB = new XMLGrammarPoolImpl(mm);
        try
        {
            BinMemInputStream in(out1.getRawBuffer(), (XMLSize_t)out1.getSize(), BinMemInputStream::BufOpt_Reference, mm);
            poolB->deserializeGrammars(&in);
        }
        catch (const XMLException& e)
        {
            std::cout << "deserializeGrammars threw: " << S(e.getMessage()) << "\nFAIL\n";
            return 1;
        }

        // 3. instance documents
        const char* docs[] = {
            "<r xmlns='urn:c16'><t>2001-01-01T00:00:00.3</t></r>",
            "<r xmlns='urn:c16'><t>2001-01-01T00:00:00.7</t></r>",
            "<r xmlns='urn:c16'><e>2001-06-01T10:00:00.25</e></r>",
            "<r xmlns='urn:c16'><e>2001-06-01T10:00:00</e></r>",
            0
        };
        for (int i = 0; docs[i]; i++)
        {
            Recorder ra, rb;
            run(poolA, docs[i], ra);
            run(poolB, docs[i], rb);
            std::cout << "doc " << i << ": original " << (ra.errors.empty() ? "valid" : "INVALID")
                      << ", restored " << (rb.errors.empty() ? "valid" : "INVALID") << "\n";
            ok &= same("errors", ra.errors, rb.errors);
            ok &= same("events", ra.events, rb.events);
        }

        // 4. schema component model
        ok &= same("XSModel attribute uses", dumpModel(poolA), dumpModel(poolB));

        // 5. the restored pool can be serialised again (byte equality is not
        //    expected even on a pristine build: hash tables are re-enumerated)
        BinMemOutputStream out2(64 * 1024, mm);
        poolB->serializeGrammars(&out2);

        delete poolB;
        delete poolA;
    }
    XMLPlatformUtils::Terminate();
    std::cout << (ok ? "PASS" : "FAIL") << std::endl;
    return ok ? 0 : 1;
}
