#include "clang/AST/RecursiveASTVisitor.h"
#include "clang/Analysis/CFG.h"
#include "clang/Frontend/FrontendActions.h"
#include "clang/Frontend/CompilerInstance.h"
#include "clang/Tooling/CommonOptionsParser.h"
#include "clang/Tooling/Tooling.h"
#include "llvm/Support/CommandLine.h"
using namespace clang; using namespace clang::tooling;
static llvm::cl::OptionCategory Cat("t");
struct V : RecursiveASTVisitor<V> {
  ASTContext &C; unsigned n=0, nnew=0; V(ASTContext&c):C(c){}
  bool VisitFunctionDecl(FunctionDecl *F){
    if(!F->doesThisDeclarationHaveABody()) return true;
    if(!C.getSourceManager().isInMainFile(F->getLocation())) return true;
    n++;
    if (F->getQualifiedNameAsString().find("resolveSystemId")!=std::string::npos) {
      CFG::BuildOptions bo; bo.setAllAlwaysAdd();
      auto cfg = CFG::buildCFG(F, F->getBody(), &C, bo);
      llvm::outs() << F->getQualifiedNameAsString() << " blocks=" << cfg->size() << "\n";
      for (auto *B : *cfg) { if (auto *T = B->getTerminatorCondition()) { llvm::outs() << " B" << B->getBlockID() << " cond: "; T->printPretty(llvm::outs(), nullptr, C.getPrintingPolicy()); llvm::outs() << "\n"; } }
    }
    return true; }
  bool VisitCXXNewExpr(CXXNewExpr *E){ if(C.getSourceManager().isInMainFile(E->getBeginLoc())){ nnew++; auto T=E->getAllocatedType().getAsString(); if(T.find("InputSource")!=std::string::npos) llvm::outs()<<"new "<<T<<" @"<<E->getBeginLoc().printToString(C.getSourceManager())<<"\n";} return true; }
};
struct Cons : ASTConsumer { void HandleTranslationUnit(ASTContext &C) override { V v(C); v.TraverseDecl(C.getTranslationUnitDecl()); llvm::outs()<<"functions="<<v.n<<" news="<<v.nnew<<"\n"; } };
struct Act : ASTFrontendAction { std::unique_ptr<ASTConsumer> CreateASTConsumer(CompilerInstance&, StringRef) override { return std::make_unique<Cons>(); } };
int main(int argc, const char **argv){ auto P = CommonOptionsParser::create(argc, argv, Cat); if(!P){llvm::errs()<<P.takeError();return 1;} ClangTool T(P->getCompilations(), P->getSourcePathList()); return T.run(newFrontendActionFactory<Act>().get()); }
