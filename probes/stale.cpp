#include <xercesc/util/PlatformUtils.hpp>
#include <xercesc/parsers/SAXParser.hpp>
#include <xercesc/sax/HandlerBase.hpp>
#include <xercesc/framework/MemBufInputSource.hpp>
#include <xercesc/util/XMLString.hpp>
#include <iostream>
#include <vector>
#include <string>
#include <cstdlib>
using namespace xercesc;
struct H : HandlerBase { long fatal=0; std::string first; void fatalError(const SAXParseException& e) override { if(!fatal){ char* m=XMLString::transcode(e.getMessage()); first=m; XMLString::release(&m);} fatal++; } void resetErrors() override {} };
int main(int argc,char**argv){ int lo=atoi(argv[1]), hi=atoi(argv[2]); XMLPlatformUtils::Initialize(); {
  for(int N=lo;N<hi;N++){
    std::u16string d; d.push_back(0xFEFF); d+=u"<r>"; d.append(N,u'x'); d.push_back(0xD800); d.push_back(0xDC00); d+=u"<a"; d.push_back(0xD800);
    SAXParser p; H h; p.setErrorHandler(&h); p.setExitOnFirstFatalError(false);
    MemBufInputSource src((const XMLByte*)d.data(), d.size()*2, "mem");
    std::cerr<<"N="<<N<<"\n"; // last line before a crash
    try{ p.parse(src);}catch(const XMLException& e){ char*m=XMLString::transcode(e.getMessage()); std::cout<<"N="<<N<<" XMLException "<<m<<"\n"; XMLString::release(&m);}catch(...){std::cout<<"N="<<N<<" exception\n";}
    if(h.fatal!=2 || h.first!="attribute name expected" || N==lo) std::cout<<"N="<<N<<" fatal="<<h.fatal<<" first="<<h.first<<"\n";
  } } XMLPlatformUtils::Terminate(); }
