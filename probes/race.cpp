#include <xercesc/util/PlatformUtils.hpp>
#include <xercesc/dom/DOM.hpp>
#include <xercesc/parsers/XercesDOMParser.hpp>
#include <xercesc/framework/MemBufInputSource.hpp>
#include <xercesc/sax/HandlerBase.hpp>
#include <xercesc/util/XMLString.hpp>
#include <thread>
#include <vector>
#include <cstring>
using namespace xercesc;
static const char* XSD="<xs:schema xmlns:xs='http://www.w3.org/2001/XMLSchema'><xs:element name='a' type='xs:string' default=' x '/></xs:schema>";
static void work(int i){
  // distinct objects per thread: a private DOM document (first use of isKidOK) and a private parser loading a schema (first use of getElementAttValue)
  XMLCh ls[3]; XMLString::transcode("LS", ls, 2);
  DOMImplementation* impl = DOMImplementationRegistry::getDOMImplementation(ls);
  XMLCh root[5]; XMLString::transcode("root", root, 4);
  DOMDocument* doc = impl->createDocument(0, root, 0);
  XMLCh en[2]; XMLString::transcode("e", en, 1);
  doc->getDocumentElement()->appendChild(doc->createElement(en));
  doc->release();
  XercesDOMParser p; HandlerBase h; p.setErrorHandler(&h); p.setDoNamespaces(true); p.setDoSchema(true);
  MemBufInputSource src((const XMLByte*)XSD, strlen(XSD), "mem.xsd");
  p.loadGrammar(src, Grammar::SchemaGrammarType, false);
}
int main(){ XMLPlatformUtils::Initialize(); { std::vector<std::thread> t; for(int i=0;i<4;i++) t.emplace_back(work,i); for(auto&x:t) x.join(); } XMLPlatformUtils::Terminate(); }
