#include "clang/AST/RecursiveASTVisitor.h"
#include "clang/AST/ParentMapContext.h"
#include "clang/Frontend/FrontendActions.h"
#include "clang/Frontend/CompilerInstance.h"
#include "clang/Tooling/CommonOptionsParser.h"
#include "clang/Tooling/Tooling.h"
#include "llvm/Support/CommandLine.h"
using namespace clang; using namespace clang::tooling;
static llvm::cl::OptionCategory Cat("f");
static bool inRepo(ASTContext&C, SourceLocation L){ auto &SM=C.getSourceManager(); auto F=SM.getFilename(SM.getSpellingLoc(L)); return F.contains("/repo/src/"); }
struct V : RecursiveASTVisitor<V> {
  ASTContext &C; FunctionDecl *Cur=nullptr; V(ASTContext&c):C(c){}
  bool TraverseDecl(Decl *D){ if(auto*F=dyn_cast_or_null<FunctionDecl>(D)){ if(F->doesThisDeclarationHaveABody()){ auto*S=Cur; Cur=F; bool r=RecursiveASTVisitor::TraverseDecl(D); Cur=S; return r; } } return RecursiveASTVisitor::TraverseDecl(D); }
  bool VisitMemberExpr(MemberExpr *E){ if(!Cur||!inRepo(C,E->getBeginLoc())) return true; auto*FD=dyn_cast<FieldDecl>(E->getMemberDecl()); if(!FD) return true; if(!isa<CXXThisExpr>(E->getBase()->IgnoreParenImpCasts())) return true;
    std::string kind="read"; const Stmt*S=E; for(int i=0;i<5;i++){ auto Ps=C.getParents(*S); if(Ps.empty())break; const Stmt*P=Ps[0].get<Stmt>(); if(!P)break;
      if(auto*BO=dyn_cast<BinaryOperator>(P)){ if(BO->isAssignmentOp()&&BO->getLHS()->IgnoreParenImpCasts()==cast<Expr>(S)->IgnoreParenImpCasts()) kind="write"; break; }
      if(auto*UO=dyn_cast<UnaryOperator>(P)){ if(UO->isIncrementDecrementOp()){kind="write";break;} if(UO->getOpcode()==UO_AddrOf){kind="addr";break;} }
      if(auto*ME=dyn_cast<MemberExpr>(P)){ if(auto*MD=dyn_cast<CXXMethodDecl>(ME->getMemberDecl())){ kind=std::string(MD->isConst()?"ccall:":"call:")+MD->getNameAsString(); break; } }
      if(auto*OC=dyn_cast<CXXOperatorCallExpr>(P)){ if(OC->isAssignmentOp()) kind="write"; break; }
      if(isa<ImplicitCastExpr>(P)){ if(cast<ImplicitCastExpr>(P)->getCastKind()==CK_LValueToRValue){ // pointer field read, then ->method?
            S=P; continue; } S=P; continue; }
      if(isa<ParenExpr>(P)||isa<ArraySubscriptExpr>(P)){S=P;continue;}
      if(isa<CXXDeleteExpr>(P)){kind="delete";} break; }
    llvm::outs()<<"F\t"<<Cur->getQualifiedNameAsString()<<"\t"<<FD->getQualifiedNameAsString()<<"\t"<<kind<<"\n"; return true; }
  bool VisitCallExpr(CallExpr *E){ if(!Cur||!inRepo(C,E->getBeginLoc())) return true; auto*FD=E->getDirectCallee(); if(!FD) return true; auto*M=dyn_cast<CXXMethodDecl>(FD); if(!M) return true;
    if(auto*MC=dyn_cast<CXXMemberCallExpr>(E)){ if(!isa<CXXThisExpr>(MC->getImplicitObjectArgument()->IgnoreParenImpCasts())) return true; } else return true;
    llvm::outs()<<"C\t"<<Cur->getQualifiedNameAsString()<<"\t"<<FD->getQualifiedNameAsString()<<"\n"; return true; }
};
struct Cons : ASTConsumer { void HandleTranslationUnit(ASTContext &C) override { V v(C); v.TraverseDecl(C.getTranslationUnitDecl()); } };
struct Act : ASTFrontendAction { std::unique_ptr<ASTConsumer> CreateASTConsumer(CompilerInstance&CI, StringRef) override { CI.getDiagnostics().setSuppressAllDiagnostics(true); return std::make_unique<Cons>(); } };
int main(int argc, const char **argv){ auto P = CommonOptionsParser::create(argc, argv, Cat); if(!P){llvm::errs()<<P.takeError();return 1;} ClangTool T(P->getCompilations(), P->getSourcePathList()); return T.run(newFrontendActionFactory<Act>().get()); }
