// Replay for C14: DOMRangeImpl::updateRangeForInsertedText moves the start boundary to the insertion point
// instead of shifting it by the inserted length (the end boundary is shifted correctly).
#include <xercesc/util/PlatformUtils.hpp>
#include <xercesc/dom/DOM.hpp>
#include <xercesc/util/XMLString.hpp>
#include <cstdio>
using namespace xercesc;
int main(){ XMLPlatformUtils::Initialize(); int rc=0; {
  XMLCh core[5]; XMLString::transcode("Core", core, 4);
  DOMImplementation* impl = DOMImplementationRegistry::getDOMImplementation(core);
  XMLCh* r=XMLString::transcode("r"); XMLCh* t=XMLString::transcode("abcdef"); XMLCh* ins=XMLString::transcode("XY");
  DOMDocument* doc = impl->createDocument(0, r, 0); DOMText* tx=doc->createTextNode(t); doc->getDocumentElement()->appendChild(tx);
  DOMRange* rg=doc->createRange(); rg->setStart(tx,4); rg->setEnd(tx,5);
  tx->insertData(1, ins);
  char* s=XMLString::transcode(rg->toString());
  printf("after inserting 2 chars at 1: start=%d end=%d text='%s' (DOM Range: start=6 end=7 text='e')\n",(int)rg->getStartOffset(),(int)rg->getEndOffset(),s);
  rc = !(rg->getStartOffset()==6 && rg->getEndOffset()==7);
  doc->release(); }
  XMLPlatformUtils::Terminate(); printf(rc?"RANGE BOUNDARY WRONG\n":"ok\n"); return rc; }
