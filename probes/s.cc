#include "clang/AST/RecursiveASTVisitor.h"
#include "clang/AST/ParentMapContext.h"
#include "clang/Frontend/FrontendActions.h"
#include "clang/Frontend/CompilerInstance.h"
#include "clang/Tooling/CommonOptionsParser.h"
#include "clang/Tooling/Tooling.h"
#include "llvm/Support/CommandLine.h"
using namespace clang; using namespace clang::tooling;
static llvm::cl::OptionCategory Cat("s");
static bool inRepo(ASTContext&C, SourceLocation L){ auto &SM=C.getSourceManager(); auto F=SM.getFilename(SM.getSpellingLoc(L)); return F.contains("/repo/src/"); }
struct V : RecursiveASTVisitor<V> {
  ASTContext &C; FunctionDecl *Cur=nullptr; V(ASTContext&c):C(c){}
  bool shouldVisitTemplateInstantiations() const { return true; }
  bool TraverseFunctionDecl(FunctionDecl *F){ auto*S=Cur; Cur=F; bool r=RecursiveASTVisitor::TraverseFunctionDecl(F); Cur=S; return r; }
  bool TraverseCXXMethodDecl(CXXMethodDecl *F){ auto*S=Cur; Cur=F; bool r=RecursiveASTVisitor::TraverseCXXMethodDecl(F); Cur=S; return r; }
  bool TraverseCXXConstructorDecl(CXXConstructorDecl *F){ auto*S=Cur; Cur=F; bool r=RecursiveASTVisitor::TraverseCXXConstructorDecl(F); Cur=S; return r; }
  bool TraverseCXXDestructorDecl(CXXDestructorDecl *F){ auto*S=Cur; Cur=F; bool r=RecursiveASTVisitor::TraverseCXXDestructorDecl(F); Cur=S; return r; }
  bool VisitVarDecl(VarDecl *D){
    if(!D->hasGlobalStorage() || !D->isThisDeclarationADefinition()) return true;
    if(!inRepo(C,D->getLocation())) return true;
    QualType T=D->getType(); if(T.isConstQualified()) return true;
    if (auto *AT = C.getAsArrayType(T)) if (AT->getElementType().isConstQualified()) return true;
    llvm::outs()<<"VAR\t"<<D->getQualifiedNameAsString()<<"\t"<<T.getAsString()<<"\t"<<(D->isStaticLocal()?"local":"global")<<"\t"<<D->getLocation().printToString(C.getSourceManager())<<"\n"; return true; }
  bool VisitDeclRefExpr(DeclRefExpr *E){
    auto *D=dyn_cast<VarDecl>(E->getDecl()); if(!D||!D->hasGlobalStorage()||!Cur) return true;
    if(!inRepo(C,D->getLocation())) return true;
    QualType T=D->getType(); if(T.isConstQualified()) return true;
    if (auto *AT = C.getAsArrayType(T)) if (AT->getElementType().isConstQualified()) return true;
    // classify: walk parents
    std::string kind="read"; const Stmt *S=E; 
    for(int i=0;i<6;i++){ auto Ps=C.getParents(*S); if(Ps.empty()) break; const Stmt *P=Ps[0].get<Stmt>(); if(!P) break;
      if(auto*BO=dyn_cast<BinaryOperator>(P)){ if(BO->isAssignmentOp() && BO->getLHS()->IgnoreParenImpCasts()==cast<Expr>(S)->IgnoreParenImpCasts()) kind="write"; break; }
      if(auto*UO=dyn_cast<UnaryOperator>(P)){ if(UO->isIncrementDecrementOp()) {kind="write"; break;} if(UO->getOpcode()==UO_AddrOf){kind="addr"; break;} }
      if(isa<ArraySubscriptExpr>(P)||isa<ParenExpr>(P)||isa<ImplicitCastExpr>(P)||isa<MemberExpr>(P)||isa<UnaryOperator>(P)){ if(auto*ICE=dyn_cast<ImplicitCastExpr>(P)) if(ICE->getCastKind()==CK_LValueToRValue) break; S=P; continue; }
      if(isa<CXXDeleteExpr>(P)){kind="delete";} break; }
    // lock in scope?
    bool locked=false; const Stmt *W=E; DynTypedNodeList Ps=C.getParents(*W);
    while(!Ps.empty()){ if(auto*CS=Ps[0].get<CompoundStmt>()){ for(auto*Ch:CS->body()){ if(Ch->getBeginLoc()>=E->getBeginLoc()) break; if(auto*DS=dyn_cast<DeclStmt>(Ch)) for(auto*DD:DS->decls()) if(auto*VD=dyn_cast<VarDecl>(DD)) if(VD->getType().getAsString().find("XMLMutexLock")!=std::string::npos) locked=true; } } 
      if(Ps[0].get<FunctionDecl>()) break; Ps=C.getParents(Ps[0]); }
    llvm::outs()<<"USE\t"<<D->getQualifiedNameAsString()<<"\t"<<kind<<"\t"<<(locked?"L":"-")<<"\t"<<Cur->getQualifiedNameAsString()<<"\n"; return true; }
};
struct Cons : ASTConsumer { void HandleTranslationUnit(ASTContext &C) override { V v(C); v.TraverseDecl(C.getTranslationUnitDecl()); } };
struct Act : ASTFrontendAction { std::unique_ptr<ASTConsumer> CreateASTConsumer(CompilerInstance&CI, StringRef) override { CI.getDiagnostics().setSuppressAllDiagnostics(true); return std::make_unique<Cons>(); } };
int main(int argc, const char **argv){ auto P = CommonOptionsParser::create(argc, argv, Cat); if(!P){llvm::errs()<<P.takeError();return 1;} ClangTool T(P->getCompilations(), P->getSourcePathList()); return T.run(newFrontendActionFactory<Act>().get()); }
