#!/usr/bin/env python3
"""Developer tool: apply one mutation to /repo, run checks, restore /repo.
   tools/mut.py [--patch P | --file F --old S --new S [--nth N]] -- ID [ID...]
The mutation is never committed; /repo is restored with `git checkout -- .` even on failure."""
import argparse, subprocess, sys, os
ap = argparse.ArgumentParser()
ap.add_argument("--patch"); ap.add_argument("--file"); ap.add_argument("--old"); ap.add_argument("--new"); ap.add_argument("--nth", type=int, default=0)
ap.add_argument("--tier", default="quick")
ap.add_argument("ids", nargs="+")
a = ap.parse_args()
R = "/repo"
st = subprocess.run(["git", "-C", R, "status", "--porcelain", "--untracked-files=no"], capture_output=True, text=True).stdout.strip()
if st:
    sys.exit("refusing: /repo has uncommitted changes:\n" + st)
try:
    if a.patch:
        r = subprocess.run(["git", "-C", R, "apply", os.path.abspath(a.patch)], capture_output=True, text=True)
        if r.returncode: sys.exit("patch does not apply: " + r.stderr)
    else:
        p = os.path.join(R, a.file); s = open(p).read()
        n = s.count(a.old)
        if n == 0: sys.exit("old text not found")
        if n > 1 and a.nth == 0: sys.exit("old text occurs %d times; use --nth" % n)
        if a.nth:
            idx = -1
            for _ in range(a.nth): idx = s.index(a.old, idx + 1)
            s = s[:idx] + a.new + s[idx + len(a.old):]
        else:
            s = s.replace(a.old, a.new)
        open(p, "w").write(s)
    print(subprocess.run(["git", "-C", R, "diff", "--stat"], capture_output=True, text=True).stdout)
    for i in a.ids:
        r = subprocess.run(["./check", i, "--tier", a.tier], cwd="/verif", capture_output=True, text=True)
        out = [l for l in r.stdout.splitlines() if "WARNING conda" not in l]
        print("== %s exit=%d" % (i, r.returncode)); print("\n".join(out[-12:]))
finally:
    subprocess.run(["git", "-C", R, "checkout", "--", "."])
