#!/usr/bin/env python3
"""Developer tool: splice tools/design_status.md (section 0, 'as built') into DESIGN.md, filling the seeded-change
table from seeded/*/*/meta.json."""
import glob, json, os, re
V = os.path.dirname(os.path.dirname(os.path.abspath(__file__)))
rows = []
caught = total = 0
for m in sorted(glob.glob(os.path.join(V, "seeded", "C*", "*", "meta.json"))):
    d = json.load(open(m))
    total += 1
    by = []
    for cid, vs in sorted(d["caught_by"].items()):
        rules = sorted({re.match(r"rule=(\S+)", v).group(1) for v in vs if re.match(r"rule=(\S+)", v)})
        by.append("%s (%s)" % (cid, ", ".join(rules)))
    if by:
        caught += 1
    title = d["title"].replace("|", "/")
    title = re.sub(r"^(C\d\d\s*/?\s*)?[Cc]hange\s*\d\s*[—–-]+\s*", "", title)
    rows.append("| %s/%s | %s | %s |" % (d["property"], d["change"], title[:110], "; ".join(by) if by else "— (not caught)"))
table = ("Fresh sub-agents, each given only one property's text and a scratch worktree (in the second round also one line per "
         "change of the first round, to steer them elsewhere), produced %d changes that break the property, still compile and pass "
         "the 80 tests; each was confirmed here in a scratch worktree (demo passes on the pristine build, fails on the patched "
         "one, ctest 80/80 with the patch) and is kept under `seeded/<id>/<change>/` (patch.diff, demo.cpp, README.md, meta.json; "
         "`r2-` marks the second round). Every claimed check was then run against each patched tree (`tools/matrix.py`, scratch "
         "worktree, `--root`): **%d of %d are reported**. About half of those only after the rule they motivated was added "
         "(C02.c, C02.a/names, C03.d, C04.e, C05.f, C05.g, C06.e, C06.f, C06.g, C07.c, C09.c, C09.d, C10.c, C10.d, C11.f, C12.g, "
         "C14.f, C15.e, C15.f, C16.e, C18.c, C18.d, C19.d/decl, C20.g were written because a seeded change slipped through), each "
         "formulated as a necessary condition of the property over the whole library or all sibling sites, not as a match of the "
         "patch; a check listed for a change of another property reports it because the change breaks that property's rule "
         "too.\n\n| change | what it does | reported by |\n|---|---|---|\n" % (total, caught, total)
         + "\n".join(rows))
status = open(os.path.join(V, "tools", "design_status.md")).read().replace("@@SEEDED@@", table)
p = os.path.join(V, "DESIGN.md")
s = open(p).read()
marker = "## 1. Why static analysis reaches what the 80 tests cannot"
head, tail = s.split(marker, 1)
head = re.sub(r"## 0\. Status as built.*\Z", "", head, flags=re.S)
head = head.rstrip()
if head.endswith("-" * 75):
    head = head[:-75].rstrip()
open(p, "w").write(head + "\n\n" + "-" * 75 + "\n\n" + status.rstrip() + "\n\n" + "-" * 75 + "\n\n" + marker + tail)
print("DESIGN.md: section 0 written, %d/%d seeded changes caught" % (caught, total))
