#!/usr/bin/env python3
"""Developer tool: splice tools/design_status.md (section 0, 'as built') into DESIGN.md, filling the seeded-change
table from seeded/*/*/meta.json."""
import glob, json, os, re
V = os.path.dirname(os.path.dirname(os.path.abspath(__file__)))
rows = []
caught = total = 0
for m in sorted(glob.glob(os.path.join(V, "seeded", "C*", "*", "meta.json"))):
    d = json.load(open(m))
    total += 1
    by = []
    for cid, vs in sorted(d["caught_by"].items()):
        rules = sorted({re.match(r"rule=(\S+)", v).group(1) for v in vs if re.match(r"rule=(\S+)", v)})
        by.append("%s (%s)" % (cid, ", ".join(rules)))
    if by:
        caught += 1
    title = d["title"].replace("|", "/")
    title = re.sub(r"^(C\d\d\s*/?\s*)?[Cc]hange\s*\d\s*[—–-]+\s*", "", title)
    rows.append("| %s/%s | %s | %s |" % (d["property"], d["change"], title[:110], "; ".join(by) if by else "— (not caught)"))
table = ("Fresh sub-agents, each given only one property's text and a scratch worktree (from the second round on also one line per "
         "earlier change for that property, to steer them elsewhere), produced %d changes in three rounds (all 20 properties twice, the "
         "ten most value-level ones a third time) that break the property, still compile and pass the 80 tests; each was confirmed "
         "here in a scratch worktree (demo passes on the pristine build, fails on the patched one, ctest 80/80 with the patch) and is "
         "kept under `seeded/<id>/<change>/` (patch.diff, demo.cpp, README.md, meta.json; `r2-` / `r3-` mark the later rounds). Every "
         "claimed check was then run against each patched tree (`tools/matrix.py`, scratch worktree, `--root`): **%d of %d are "
         "reported**. More than half of those only after the rule they motivated was added (C01.g, C01.h, C02.c, C02.d, C02.a/names, "
         "C03.d, C03.f, C03.g, C04.e, C04.f, C04.g, C05.f, C05.g, C06.e, C06.f, C06.g, C06.h, C07.c, C07.d, C09.c, C09.d, C09.e, C09.f, "
         "C10.c, C10.d, C11.f, C12.g, C12.k, C12.l, C13.g, C14.f, C15.e-i, C16.e, C16.e/template, C16.g, C17.e, C18.c, C18.d, C18.e, "
         "C19.d/decl, C20.b/unpaired-pop, C20.g and, in the last cycle, C05.i, C07.f, C08.d, C09.g, C10.g, C10.h, C12.m, C13.j, C14.h, C14.i, C14.j were written because a seeded change slipped through), each formulated as a necessary "
         "condition of the property over the whole library or all sibling sites, not as a match of the patch; a check listed for a "
         "change of another property reports it because the change breaks that property's rule too. Writing these rules also turned "
         "up six of the genuine defects of section 0.4.\n\n| change | what it does | reported by |\n|---|---|---|\n" % (total, caught, total)
         + "\n".join(rows))
status = open(os.path.join(V, "tools", "design_status.md")).read().replace("@@SEEDED@@", table)
p = os.path.join(V, "DESIGN.md")
s = open(p).read()
marker = "## 1. Why static analysis reaches what the 80 tests cannot"
head, tail = s.split(marker, 1)
head = re.sub(r"## 0\. Status as built.*\Z", "", head, flags=re.S)
head = head.rstrip()
if head.endswith("-" * 75):
    head = head[:-75].rstrip()
open(p, "w").write(head + "\n\n" + "-" * 75 + "\n\n" + status.rstrip() + "\n\n" + "-" * 75 + "\n\n" + marker + tail)
print("DESIGN.md: section 0 written, %d/%d seeded changes caught" % (caught, total))
