#!/usr/bin/env python3
"""Writes MANIFEST.json from tools/manifest_src.json (claims) + properties.jsonl."""
import json, os
V = os.path.dirname(os.path.dirname(os.path.abspath(__file__)))
src = json.load(open(os.path.join(V, "tools", "manifest_src.json")))
props = [json.loads(l)["id"] for l in open(os.path.join(V, "properties.jsonl"))]
checks = []
for pid in props:
    c = src["claims"].get(pid)
    if not c:
        continue
    checks.append({
        "property_id": pid,
        "quick_cmd": "./check %s --tier quick" % pid,
        "thorough_cmd": "./check %s --tier thorough" % pid,
        "evidence_file": "/verif/evidence/%s.json" % pid,
        "replay_cmd_template": "./check %s --replay {path}" % pid,
        "engine": c["engine"],
        "level_claimed": {"category": "other", "text": c["text"], "design_ref": c["design_ref"]},
        "level_note": c["note"],
        "technique": c["technique"],
    })
na = [{"property_id": p, "reason": src["not_applicable"].get(p, "check not built yet (see DESIGN.md section 7)")} for p in props if p not in src["claims"]]
m = {
    "version": 1,
    "setup_cmd": "./setup.sh",
    "hooks": src["hooks"],
    "engines": src["engines"],
    "checks": checks,
    "notes": src["notes"],
    "not_applicable": na,
}
json.dump(m, open(os.path.join(V, "MANIFEST.json"), "w"), indent=1)
print("claimed", len(checks), "not applicable", len(na))
