// xa — fact extractor for the static verification of apache/xerces-c.
//
// One libTooling tool. For each translation unit it writes JSON-lines "facts"
// about the *resolved* program (callee declarations, field declarations,
// enumerators, constant initialisers, CFGs) for code that lives under
// $XA_ROOT/src/xercesc (default root /repo). It never decides anything: all
// rules live in the python driver, so that every verdict is diagnosable from
// the facts.
//
//   xa -p <compdb dir> <tu.cpp>
// environment:
//   XA_ROOT    repository root (default /repo)
//   XA_OUT     output directory; main-file facts go to <out>/tu_<hash>.jsonl,
//              facts of a header go to <out>/h_<hash>.jsonl written by the first
//              process that claims the header (O_EXCL), so that each header is
//              emitted once per run
//   XA_CFG     regex (ECMAScript) on qualified function names: emit CFG
//   XA_ST      regex: emit structured statement tree
//   XA_TABLES  regex on qualified variable names: emit constant initialiser
//   XA_FLAT    "0" disables the flat per-function facts (call/fld/...)
//
#include "clang/AST/ASTConsumer.h"
#include "clang/AST/ParentMapContext.h"
#include "clang/AST/RecursiveASTVisitor.h"
#include "clang/Analysis/CFG.h"
#include "clang/Frontend/CompilerInstance.h"
#include "clang/Frontend/FrontendActions.h"
#include "clang/Lex/Lexer.h"
#include "clang/Tooling/CommonOptionsParser.h"
#include "clang/Tooling/Tooling.h"
#include "llvm/Support/CommandLine.h"
#include "llvm/Support/raw_ostream.h"
#include <fcntl.h>
#include <map>
#include <regex>
#include <set>
#include <string>
#include <unistd.h>
#include <vector>

using namespace clang;
using namespace clang::tooling;

static llvm::cl::OptionCategory Cat("xa");
static std::string Root = "/repo";
static std::string OutDir = ".";
static bool Flat = true;
static bool HaveCfg = false, HaveSt = false, HaveTab = false;
static std::regex ReCfg, ReSt, ReTab;

// ------------------------------------------------------------------ utilities
static std::string jesc(llvm::StringRef s) {
  std::string o;
  o.reserve(s.size() + 2);
  for (unsigned char c : s) {
    switch (c) {
    case '"': o += "\\\""; break;
    case '\\': o += "\\\\"; break;
    case '\n': o += "\\n"; break;
    case '\r': o += "\\r"; break;
    case '\t': o += "\\t"; break;
    default:
      if (c < 0x20 || c >= 0x7f) {
        char b[8];
        snprintf(b, sizeof b, "\\u%04x", c);
        o += b;
      } else
        o.push_back((char)c);
    }
  }
  return o;
}
static std::string js(llvm::StringRef s) { return "\"" + jesc(s) + "\""; }

static std::string strip(std::string s) {
  static const char *pf[] = {"xercesc_4_0::", "class ", "struct ", "enum "};
  for (const char *p : pf) {
    size_t n = strlen(p), pos;
    while ((pos = s.find(p)) != std::string::npos) {
      // only strip keyword when at a word boundary
      if (pos > 0 && (isalnum((unsigned char)s[pos - 1]) || s[pos - 1] == '_')) {
        // not a boundary: protect by breaking out (rare)
        break;
      }
      s.erase(pos, n);
    }
  }
  return s;
}

static uint64_t fnv(llvm::StringRef s) {
  uint64_t h = 1469598103934665603ULL;
  for (unsigned char c : s) { h ^= c; h *= 1099511628211ULL; }
  return h;
}

struct Ctx {
  ASTContext &C;
  SourceManager &SM;
  PrintingPolicy PP;
  Ctx(ASTContext &c) : C(c), SM(c.getSourceManager()), PP(c.getLangOpts()) {
    PP.SuppressTagKeyword = true;
    PP.Bool = true;
    PP.SuppressUnwrittenScope = true;
  }
  std::string file(SourceLocation L) const {
    if (L.isInvalid()) return "";
    L = SM.getExpansionLoc(L);
    auto F = SM.getFilename(L);
    return F.str();
  }
  unsigned line(SourceLocation L) const {
    if (L.isInvalid()) return 0;
    return SM.getExpansionLineNumber(L);
  }
  bool inRepo(SourceLocation L) const {
    std::string f = file(L);
    return f.compare(0, Root.size(), Root) == 0 &&
           f.find("/src/xercesc/", Root.size()) == Root.size();
  }
  std::string rel(const std::string &f) const {
    if (f.compare(0, Root.size(), Root) == 0) return f.substr(Root.size() + 1);
    return f;
  }
  std::string ty(QualType T) const { return strip(T.getAsString(PP)); }
};

static std::string qname(const NamedDecl *D) {
  if (!D) return "?";
  std::string s;
  llvm::raw_string_ostream os(s);
  D->printQualifiedName(os);
  os.flush();
  return strip(s);
}

static std::string fsig(const FunctionDecl *F, const Ctx &X) {
  std::string s = "(";
  for (unsigned i = 0; i < F->getNumParams(); i++) {
    if (i) s += ",";
    s += X.ty(F->getParamDecl(i)->getType());
  }
  s += ")";
  if (auto *M = dyn_cast<CXXMethodDecl>(F))
    if (M->isConst()) s += "const";
  return s;
}

// ------------------------------------------------------ structural expressions
struct Sx {
  const Ctx &X;
  const FunctionDecl *Cur;
  Sx(const Ctx &x, const FunctionDecl *cur) : X(x), Cur(cur) {}

  static const char *uop(UnaryOperatorKind k) { return UnaryOperator::getOpcodeStr(k).data(); }

  std::string list(llvm::ArrayRef<const Expr *> es, int d) {
    std::string s = "[";
    bool first = true;
    for (auto *e : es) {
      if (!first) s += ",";
      first = false;
      s += ex(e, d);
    }
    return s + "]";
  }

  std::string declref(const ValueDecl *D) {
    if (auto *EC = dyn_cast<EnumConstantDecl>(D)) {
      return "[\"e\"," + js(qname(EC)) + "," + std::to_string(EC->getInitVal().getExtValue()) + "]";
    }
    if (auto *PV = dyn_cast<ParmVarDecl>(D)) {
      return "[\"p\"," + std::to_string(PV->getFunctionScopeIndex()) + "," + js(PV->getNameAsString()) + "]";
    }
    if (auto *VD = dyn_cast<VarDecl>(D)) {
      if (VD->isLocalVarDecl() && !VD->isStaticLocal()) return "[\"l\"," + js(VD->getNameAsString()) + "]";
      return "[\"g\"," + js(qname(VD)) + "]";
    }
    if (auto *FD = dyn_cast<FunctionDecl>(D)) return "[\"fn\"," + js(qname(FD)) + "]";
    return "[\"g\"," + js(qname(D)) + "]";
  }

  std::string ex(const Expr *E, int d = 14) {
    if (!E) return "null";
    if (d <= 0) return "[\"...\"]";
    // strip wrappers
    while (true) {
      if (auto *P = dyn_cast<ParenExpr>(E)) { E = P->getSubExpr(); continue; }
      if (auto *I = dyn_cast<ImplicitCastExpr>(E)) { E = I->getSubExpr(); continue; }
      if (auto *W = dyn_cast<ExprWithCleanups>(E)) { E = W->getSubExpr(); continue; }
      if (auto *M = dyn_cast<MaterializeTemporaryExpr>(E)) { E = M->getSubExpr(); continue; }
      if (auto *B = dyn_cast<CXXBindTemporaryExpr>(E)) { E = B->getSubExpr(); continue; }
      if (auto *K = dyn_cast<ConstantExpr>(E)) { E = K->getSubExpr(); continue; }
      if (auto *F = dyn_cast<FullExpr>(E)) { E = F->getSubExpr(); continue; }
      break;
    }
    if (isa<CXXThisExpr>(E)) return "[\"this\"]";
    if (auto *DA = dyn_cast<CXXDefaultArgExpr>(E)) return "[\"def\"," + ex(DA->getExpr(), d - 1) + "]";
    if (auto *DR = dyn_cast<DeclRefExpr>(E)) return declref(DR->getDecl());
    if (auto *IL = dyn_cast<IntegerLiteral>(E)) return "[\"i\"," + std::to_string((long long)IL->getValue().getLimitedValue()) + "]";
    if (auto *BL = dyn_cast<CXXBoolLiteralExpr>(E)) return std::string("[\"i\",") + (BL->getValue() ? "1" : "0") + "]";
    if (isa<CXXNullPtrLiteralExpr>(E) || isa<GNUNullExpr>(E)) return "[\"i\",0]";
    if (auto *CL = dyn_cast<CharacterLiteral>(E)) return "[\"i\"," + std::to_string(CL->getValue()) + "]";
    if (auto *SL = dyn_cast<StringLiteral>(E)) {
      if (SL->getCharByteWidth() == 1) return "[\"s\"," + js(SL->getString()) + "]";
      return "[\"s\",\"<wide>\"]";
    }
    if (isa<FloatingLiteral>(E)) return "[\"fl\"]";
    if (auto *UE = dyn_cast<UnaryExprOrTypeTraitExpr>(E)) {
      Expr::EvalResult R;
      if (!E->isValueDependent() && E->EvaluateAsInt(R, X.C))
        return "[\"i\"," + std::to_string((long long)R.Val.getInt().getExtValue()) + ",\"sizeof\"]";
      return "[\"sizeof\"]";
      (void)UE;
    }
    if (auto *ME = dyn_cast<MemberExpr>(E)) {
      const ValueDecl *MD = ME->getMemberDecl();
      if (isa<FieldDecl>(MD)) {
        const Expr *B = ME->getBase();
        const Expr *Bs = B->IgnoreParenImpCasts();
        if (isa<CXXThisExpr>(Bs)) return "[\"f\"," + js(qname(MD)) + "]";
        return "[\"f\"," + js(qname(MD)) + "," + ex(B, d - 1) + "]";
      }
      if (isa<VarDecl>(MD)) return declref(MD);
      if (isa<EnumConstantDecl>(MD)) return declref(MD);
      return "[\"m\"," + js(qname(MD)) + "," + ex(ME->getBase(), d - 1) + "]";
    }
    if (auto *UO = dyn_cast<UnaryOperator>(E)) {
      return "[\"u\"," + js(std::string(UnaryOperator::getOpcodeStr(UO->getOpcode())) + (UO->isPostfix() ? "post" : "")) + "," + ex(UO->getSubExpr(), d - 1) + "]";
    }
    if (auto *BO = dyn_cast<BinaryOperator>(E)) {
      return "[\"b\"," + js(BO->getOpcodeStr()) + "," + ex(BO->getLHS(), d - 1) + "," + ex(BO->getRHS(), d - 1) + "]";
    }
    if (auto *CO = dyn_cast<ConditionalOperator>(E)) {
      return "[\"?\"," + ex(CO->getCond(), d - 1) + "," + ex(CO->getTrueExpr(), d - 1) + "," + ex(CO->getFalseExpr(), d - 1) + "]";
    }
    if (auto *AS = dyn_cast<ArraySubscriptExpr>(E)) {
      return "[\"x\"," + ex(AS->getBase(), d - 1) + "," + ex(AS->getIdx(), d - 1) + "]";
    }
    if (auto *NE = dyn_cast<CXXNewExpr>(E)) {
      std::string s = "[\"n\"," + js(X.ty(NE->getAllocatedType())) + ",[";
      for (unsigned i = 0; i < NE->getNumPlacementArgs(); i++) {
        if (i) s += ",";
        s += ex(NE->getPlacementArg(i), d - 1);
      }
      s += "],";
      if (NE->isArray()) {
        auto AS = NE->getArraySize();
        s += "[\"arr\"," + (AS && *AS ? ex(*AS, d - 1) : std::string("null")) + "]";
      } else if (auto *CE = NE->getConstructExpr()) {
        std::vector<const Expr *> a(CE->arg_begin(), CE->arg_end());
        s += list(a, d - 1);
      } else
        s += "[]";
      return s + "]";
    }
    if (auto *DE = dyn_cast<CXXDeleteExpr>(E)) {
      return std::string("[\"d\",") + (DE->isArrayForm() ? "1" : "0") + "," + ex(DE->getArgument(), d - 1) + "]";
    }
    if (auto *TE = dyn_cast<CXXThrowExpr>(E)) {
      if (!TE->getSubExpr()) return "[\"t\",null,\"<rethrow>\"]";
      return "[\"t\"," + ex(TE->getSubExpr(), d - 1) + "," + js(X.ty(TE->getSubExpr()->getType().getNonReferenceType().getUnqualifiedType())) + "]";
    }
    if (auto *CE = dyn_cast<CXXConstructExpr>(E)) {
      // copy/move construction of the same type from a single arg: see through
      if (CE->getNumArgs() == 1 && CE->getConstructor()->isCopyOrMoveConstructor()) return ex(CE->getArg(0), d);
      std::vector<const Expr *> a(CE->arg_begin(), CE->arg_end());
      return "[\"k\"," + js(X.ty(CE->getType().getUnqualifiedType())) + "," + list(a, d - 1) + "]";
    }
    if (auto *CE = dyn_cast<CallExpr>(E)) {
      const FunctionDecl *FD = CE->getDirectCallee();
      std::string recv = "null";
      std::vector<const Expr *> a;
      if (auto *MC = dyn_cast<CXXMemberCallExpr>(CE)) {
        recv = ex(MC->getImplicitObjectArgument(), d - 1);
        a.assign(CE->arg_begin(), CE->arg_end());
      } else if (auto *OC = dyn_cast<CXXOperatorCallExpr>(CE)) {
        if (FD && isa<CXXMethodDecl>(FD) && OC->getNumArgs() >= 1) {
          recv = ex(OC->getArg(0), d - 1);
          for (unsigned i = 1; i < OC->getNumArgs(); i++) a.push_back(OC->getArg(i));
        } else
          a.assign(CE->arg_begin(), CE->arg_end());
      } else
        a.assign(CE->arg_begin(), CE->arg_end());
      std::string cn, sg = "\"\"";
      if (FD) { cn = qname(FD); sg = js(fsig(FD, X)); }
      else {
        const Expr *cal = CE->getCallee()->IgnoreParenImpCasts();
        if (auto *UL = dyn_cast<UnresolvedLookupExpr>(cal)) cn = "?" + UL->getName().getAsString();
        else if (auto *UM = dyn_cast<UnresolvedMemberExpr>(cal)) cn = "?" + UM->getMemberName().getAsString();
        else if (auto *DM = dyn_cast<CXXDependentScopeMemberExpr>(cal)) {
          cn = "?" + DM->getMember().getAsString();
          if (!DM->isImplicitAccess()) recv = ex(DM->getBase(), d - 1);
        } else if (auto *ME = dyn_cast<MemberExpr>(cal)) { cn = "?ptr:" + qname(ME->getMemberDecl()); }
        else cn = "?indirect";
      }
      return "[\"c\"," + js(cn) + "," + recv + "," + list(a, d - 1) + "," + sg + "]";
    }
    if (auto *CE = dyn_cast<ExplicitCastExpr>(E)) {
      return "[\"cast\"," + js(X.ty(CE->getTypeAsWritten())) + "," + ex(CE->getSubExpr(), d - 1) + "]";
    }
    if (auto *IL = dyn_cast<InitListExpr>(E)) {
      std::vector<const Expr *> a; for (auto *ie : IL->inits()) a.push_back(ie);
      return "[\"il\"," + list(a, d - 1) + "]";
    }
    if (auto *DM = dyn_cast<CXXDependentScopeMemberExpr>(E)) {
      return "[\"m\"," + js("?" + DM->getMember().getAsString()) + "," + (DM->isImplicitAccess() ? std::string("[\"this\"]") : ex(DM->getBase(), d - 1)) + "]";
    }
    if (auto *TO = dyn_cast<CXXTemporaryObjectExpr>(E)) { (void)TO; }
    if (auto *SV = dyn_cast<CXXScalarValueInitExpr>(E)) { (void)SV; return "[\"i\",0]"; }
    return "[\"?\"," + js(E->getStmtClassName()) + "]";
  }
};

// ---------------------------------------------------------------- output sink
struct Sink {
  std::map<std::string, int> fds;       // file -> fd (or -1 = not owner)
  std::map<int, std::string> bufs;
  std::string mainFile;
  int fdFor(const std::string &file) {
    auto it = fds.find(file);
    if (it != fds.end()) return it->second;
    int fd = -1;
    char name[64];
    // output names depend on the path below the repository root only, so that the facts of an unchanged unit can be
    // re-used for another checkout of the same sources
    std::string relf = file;
    if (relf.compare(0, Root.size(), Root) == 0 && relf.size() > Root.size()) relf = relf.substr(Root.size() + 1);
    if (file == mainFile) {
      snprintf(name, sizeof name, "tu_%016llx.jsonl", (unsigned long long)fnv(relf));
      std::string p = OutDir + "/" + name;
      fd = open(p.c_str(), O_CREAT | O_TRUNC | O_WRONLY, 0644);
    } else {
      snprintf(name, sizeof name, "h_%016llx.jsonl", (unsigned long long)fnv(relf));
      std::string p = OutDir + "/" + name;
      fd = open(p.c_str(), O_CREAT | O_EXCL | O_WRONLY, 0644);
    }
    fds[file] = fd;
    return fd;
  }
  bool owns(const std::string &file) { return fdFor(file) >= 0; }
  void put(const std::string &file, const std::string &line) {
    int fd = fdFor(file);
    if (fd < 0) return;
    std::string &b = bufs[fd];
    b += line;
    b += "\n";
    if (b.size() > (1 << 20)) flush(fd);
  }
  void flush(int fd) {
    std::string &b = bufs[fd];
    size_t off = 0;
    while (off < b.size()) {
      ssize_t n = write(fd, b.data() + off, b.size() - off);
      if (n <= 0) break;
      off += n;
    }
    b.clear();
  }
  void close_all() {
    for (auto &kv : fds)
      if (kv.second >= 0) { flush(kv.second); close(kv.second); }
  }
};
static Sink Out;

// ------------------------------------------------------------- APValue → JSON
static std::string apv(const APValue &V, QualType T, const Ctx &X, int depth = 0) {
  switch (V.getKind()) {
  case APValue::Int: return std::to_string((long long)V.getInt().getExtValue());
  case APValue::Float: return "\"float\"";
  case APValue::Array: {
    std::string s = "[";
    unsigned n = V.getArraySize(), ni = V.getArrayInitializedElts();
    QualType ET;
    if (auto *AT = X.C.getAsArrayType(T)) ET = AT->getElementType();
    for (unsigned i = 0; i < n; i++) {
      if (i) s += ",";
      const APValue &e = i < ni ? V.getArrayInitializedElt(i) : V.getArrayFiller();
      s += apv(e, ET, X, depth + 1);
    }
    return s + "]";
  }
  case APValue::Struct: {
    std::string s = "[";
    const RecordDecl *RD = T.isNull() ? nullptr : T->getAsRecordDecl();
    unsigned i = 0;
    if (RD)
      for (auto *F : RD->fields()) {
        if (i) s += ",";
        s += apv(V.getStructField(i), F->getType(), X, depth + 1);
        i++;
      }
    return s + "]";
  }
  case APValue::LValue: {
    if (V.isNullPointer()) return "0";
    auto B = V.getLValueBase();
    if (auto *VD = B.dyn_cast<const ValueDecl *>()) return "{\"ref\":" + js(qname(VD)) + "}";
    if (auto *E = B.dyn_cast<const Expr *>()) {
      if (auto *SL = dyn_cast<StringLiteral>(E)) {
        if (SL->getCharByteWidth() == 1) return "{\"str\":" + js(SL->getString()) + "}";
      }
    }
    return "{\"ref\":\"?\"}";
  }
  case APValue::None:
  case APValue::Indeterminate: return "0";
  default: return "\"?\"";
  }
}

// ---------------------------------------------------------------- main visitor
struct LockInfo { SourceRange scope; SourceLocation at; std::string mutex; };

struct FactVisitor : RecursiveASTVisitor<FactVisitor> {
  Ctx X;
  FunctionDecl *Cur = nullptr;
  std::string CurFile;
  int CurId = -1;
  int NextId = 0;
  bool CurEmit = false;
  std::vector<LockInfo> Locks;
  std::set<const Stmt *> SeenTry;

  FactVisitor(ASTContext &c) : X(c) {}
  bool shouldVisitTemplateInstantiations() const { return false; }
  bool shouldVisitImplicitCode() const { return false; }

  void emit(const std::string &s) { Out.put(CurFile, s); }

  // ---- locks in scope at location L
  std::string locksAt(SourceLocation L) {
    std::string s;
    L = X.SM.getExpansionLoc(L);
    for (auto &lk : Locks) {
      if (X.SM.isBeforeInTranslationUnit(lk.at, L) &&
          !X.SM.isBeforeInTranslationUnit(X.SM.getExpansionLoc(lk.scope.getEnd()), L)) {
        if (!s.empty()) s += ",";
        s += lk.mutex;
      }
    }
    return s;
  }
  std::string lockField(SourceLocation L) {
    std::string s = locksAt(L);
    if (s.empty()) return "";
    return ",\"lk\":[" + s + "]";
  }

  struct LockCollector : RecursiveASTVisitor<LockCollector> {
    FactVisitor &FV;
    std::vector<const CompoundStmt *> stack;
    LockCollector(FactVisitor &f) : FV(f) {}
    bool TraverseCompoundStmt(CompoundStmt *S) {
      stack.push_back(S);
      bool r = RecursiveASTVisitor::TraverseCompoundStmt(S);
      stack.pop_back();
      return r;
    }
    bool VisitVarDecl(VarDecl *D) {
      if (!D->isLocalVarDecl() || stack.empty()) return true;
      std::string t = FV.X.ty(D->getType());
      if (t.find("XMLMutexLock") == std::string::npos) return true;
      LockInfo li;
      li.scope = stack.back()->getSourceRange();
      li.at = FV.X.SM.getExpansionLoc(D->getEndLoc());
      li.mutex = "null";
      if (auto *I = D->getInit()) {
        const Expr *E = I->IgnoreImplicit();
        if (auto *CE = dyn_cast<CXXConstructExpr>(E)) {
          if (CE->getNumArgs() >= 1) { Sx sx(FV.X, FV.Cur); li.mutex = sx.ex(CE->getArg(0), 6); }
        }
      }
      FV.Locks.push_back(li);
      return true;
    }
  };

  // ---- function entry
  bool enterFunction(FunctionDecl *F) {
    Cur = F;
    CurEmit = false;
    Locks.clear();
    if (!F->doesThisDeclarationHaveABody()) return false;
    if (!X.inRepo(F->getLocation())) return false;
    CurFile = X.file(F->getLocation());
    if (!Out.owns(CurFile)) return false;
    CurEmit = true;
    CurId = NextId++;
    std::string q = qname(F);
    std::string s = "{\"k\":\"fn\",\"id\":" + std::to_string(CurId) + ",\"q\":" + js(q) + ",\"sig\":" + js(fsig(F, X));
    s += ",\"name\":" + js(F->getNameAsString());
    if (auto *M = dyn_cast<CXXMethodDecl>(F)) {
      s += ",\"cls\":" + js(qname(M->getParent()));
      if (M->isVirtual()) s += ",\"virt\":1";
      if (M->isConst()) s += ",\"const\":1";
      if (M->isStatic()) s += ",\"static\":1";
      if (isa<CXXConstructorDecl>(M)) s += ",\"ctor\":1";
      if (isa<CXXDestructorDecl>(M)) s += ",\"dtor\":1";
      const char *acc = M->getAccess() == AS_public ? "public" : M->getAccess() == AS_protected ? "protected" : "private";
      s += std::string(",\"acc\":\"") + acc + "\"";
      if (M->size_overridden_methods()) {
        s += ",\"ovr\":[";
        bool first = true;
        for (auto *O : M->overridden_methods()) { if (!first) s += ","; first = false; s += js(qname(O)); }
        s += "]";
      }
    }
    s += ",\"ret\":" + js(X.ty(F->getReturnType()));
    s += ",\"params\":[";
    for (unsigned i = 0; i < F->getNumParams(); i++) { if (i) s += ","; s += js(F->getParamDecl(i)->getNameAsString()); }
    s += "]";
    if (F->getTemplatedKind() != FunctionDecl::TK_NonTemplate || (isa<CXXMethodDecl>(F) && cast<CXXMethodDecl>(F)->getParent()->getDescribedClassTemplate())) s += ",\"tmpl\":1";
    s += ",\"file\":" + js(X.rel(CurFile)) + ",\"line\":" + std::to_string(X.line(F->getLocation())) + ",\"end\":" + std::to_string(X.line(F->getEndLoc())) + "}";
    emit(s);
    // constructor initialisers
    if (auto *CD = dyn_cast<CXXConstructorDecl>(F)) {
      Sx sx(X, F);
      for (auto *I : CD->inits()) {
        if (!I->isWritten()) continue;
        if (auto *FD = I->getMember()) {
          emit("{\"k\":\"fld\",\"in\":" + std::to_string(CurId) + ",\"f\":" + js(qname(FD)) + ",\"how\":\"init\",\"b\":\"this\",\"v\":" + sx.ex(I->getInit(), 8) + ",\"l\":" + std::to_string(X.line(I->getSourceLocation())) + "}");
        }
      }
    }
    LockCollector lc(*this);
    lc.TraverseStmt(F->getBody());
    std::string qn = q;
    if (HaveCfg && std::regex_search(qn, ReCfg)) emitCfg(F);
    if (HaveSt && std::regex_search(qn, ReSt)) emitSt(F);
    return true;
  }

  bool TraverseDecl(Decl *D) {
    if (auto *F = dyn_cast_or_null<FunctionDecl>(D)) {
      if (F->doesThisDeclarationHaveABody()) {
        FunctionDecl *SCur = Cur; std::string SFile = CurFile; int SId = CurId; bool SEmit = CurEmit; auto SLocks = Locks;
        enterFunction(F);
        bool r = true;
        if (CurEmit && Flat) r = RecursiveASTVisitor::TraverseDecl(D);
        Cur = SCur; CurFile = SFile; CurId = SId; CurEmit = SEmit; Locks = SLocks;
        return r;
      }
      return true;
    }
    return RecursiveASTVisitor::TraverseDecl(D);
  }

  // ---- classes / enums / globals
  bool VisitCXXRecordDecl(CXXRecordDecl *D) {
    if (!D->isThisDeclarationADefinition() || !X.inRepo(D->getLocation())) return true;
    if (D->isLambda()) return true;
    std::string f = X.file(D->getLocation());
    if (!Out.owns(f)) return true;
    std::string s = "{\"k\":\"cls\",\"q\":" + js(qname(D)) + ",\"bases\":[";
    bool first = true;
    for (auto &B : D->bases()) { if (!first) s += ","; first = false; s += js(X.ty(B.getType())); }
    s += "],\"fields\":[";
    first = true;
    for (auto *F : D->fields()) { if (!first) s += ","; first = false; s += "[" + js(F->getNameAsString()) + "," + js(X.ty(F->getType())) + "]"; }
    s += "],\"methods\":[";
    first = true;
    for (auto *M : D->methods()) {
      if (M->isImplicit()) continue;
      if (!first) s += ","; first = false;
      s += "[" + js(M->getNameAsString()) + "," + js(fsig(M, X)) + "," + (M->isVirtual() ? "1" : "0") + "," + (M->isPure() ? "1" : "0") + "," + (M->isStatic() ? "1" : "0") + "," + std::to_string(X.line(M->getLocation())) + "]";
    }
    s += "]";
    if (D->getDescribedClassTemplate()) s += ",\"tmpl\":1";
    s += ",\"file\":" + js(X.rel(f)) + ",\"line\":" + std::to_string(X.line(D->getLocation())) + "}";
    Out.put(f, s);
    return true;
  }
  bool VisitEnumDecl(EnumDecl *D) {
    if (!D->isThisDeclarationADefinition() || !X.inRepo(D->getLocation())) return true;
    std::string f = X.file(D->getLocation());
    if (!Out.owns(f)) return true;
    std::string s = "{\"k\":\"enum\",\"q\":" + js(qname(D)) + ",\"items\":[";
    bool first = true;
    for (auto *E : D->enumerators()) { if (!first) s += ","; first = false; s += "[" + js(E->getNameAsString()) + "," + std::to_string(E->getInitVal().getExtValue()) + "]"; }
    s += "],\"file\":" + js(X.rel(f)) + ",\"line\":" + std::to_string(X.line(D->getLocation())) + "}";
    Out.put(f, s);
    return true;
  }
  static bool isMutableType(QualType T, ASTContext &C) {
    if (T.isConstQualified()) return false;
    if (auto *AT = C.getAsArrayType(T)) return isMutableType(AT->getElementType(), C);
    return true;
  }
  bool VisitVarDecl(VarDecl *D) {
    if (!D->hasGlobalStorage()) {
      // local declaration facts
      if (CurEmit && Cur && D->isLocalVarDecl()) {
        Sx sx(X, Cur);
        std::string s = "{\"k\":\"local\",\"in\":" + std::to_string(CurId) + ",\"name\":" + js(D->getNameAsString()) + ",\"type\":" + js(X.ty(D->getType()));
        if (auto *AT = X.C.getAsConstantArrayType(D->getType())) s += ",\"cap\":" + std::to_string(AT->getSize().getZExtValue());
        if (D->getInit()) s += ",\"init\":" + sx.ex(D->getInit(), 8);
        s += ",\"l\":" + std::to_string(X.line(D->getLocation())) + lockField(D->getLocation()) + "}";
        emit(s);
      }
      return true;
    }
    if (!X.inRepo(D->getLocation())) return true;
    std::string f = X.file(D->getLocation());
    bool isDef = D->isThisDeclarationADefinition() == VarDecl::Definition;
    if (!isDef) return true;
    if (!Out.owns(f)) return true;
    bool mut = isMutableType(D->getType(), X.C);
    std::string q = qname(D);
    std::string s = "{\"k\":\"gvar\",\"q\":" + js(q) + ",\"type\":" + js(X.ty(D->getType())) + ",\"scope\":\"" + (D->isStaticLocal() ? "local" : D->isStaticDataMember() ? "member" : "global") + "\",\"mut\":" + (mut ? "1" : "0");
    if (D->isStaticLocal() && Cur) s += ",\"fn\":" + js(qname(Cur));
    if (D->getInit()) {
      Sx sx(X, Cur);
      s += ",\"init\":" + sx.ex(D->getInit(), 4);
    }
    s += ",\"file\":" + js(X.rel(f)) + ",\"line\":" + std::to_string(X.line(D->getLocation())) + "}";
    Out.put(f, s);
    if (HaveTab && D->getInit() && !D->getInit()->isValueDependent() && std::regex_search(q, ReTab)) {
      const APValue *V = D->evaluateValue();
      if (V) {
        Out.put(f, "{\"k\":\"table\",\"q\":" + js(q) + ",\"type\":" + js(X.ty(D->getType())) + ",\"v\":" + apv(*V, D->getType(), X) + ",\"file\":" + js(X.rel(f)) + ",\"line\":" + std::to_string(X.line(D->getLocation())) + "}");
      } else {
        Out.put(f, "{\"k\":\"table\",\"q\":" + js(q) + ",\"type\":" + js(X.ty(D->getType())) + ",\"v\":null,\"file\":" + js(X.rel(f)) + "}");
      }
    }
    return true;
  }

  // ---- access classification (shared by fields and globals)
  // returns how; fills callee for refarg/call
  std::string classify(const Expr *E) {
    const Stmt *S = E;
    bool deref = false;   // went through a pointer load (LValueToRValue of a pointer) -> effect on pointee
    bool elem = false;    // went through subscript / deref
    for (int i = 0; i < 12; i++) {
      auto Ps = X.C.getParents(*S);
      if (Ps.empty()) break;
      const Stmt *P = Ps[0].get<Stmt>();
      if (!P) {
        if (Ps[0].get<VarDecl>()) return deref ? "read" : "read";
        break;
      }
      if (auto *BO = dyn_cast<BinaryOperator>(P)) {
        if (BO->isAssignmentOp() && BO->getLHS()->IgnoreParenImpCasts() == cast<Expr>(S)->IgnoreParenImpCasts())
          return deref || elem ? "elemwrite" : (BO->getOpcode() == BO_Assign ? "write" : "inc");
        if (BO->getOpcode() == BO_Comma && BO->getRHS() == S) { S = P; continue; }
        if (deref == false && elem == false && (BO->getOpcode() == BO_Add || BO->getOpcode() == BO_Sub) && cast<Expr>(S)->getType()->isPointerType()) { S = P; continue; }
        return "read";
      }
      if (auto *UO = dyn_cast<UnaryOperator>(P)) {
        if (UO->isIncrementDecrementOp()) return deref || elem ? "elemwrite" : "inc";
        if (UO->getOpcode() == UO_AddrOf) return elem || deref ? "elemaddr" : "addr";
        if (UO->getOpcode() == UO_Deref) { elem = true; S = P; continue; }
        return "read";
      }
      if (auto *ICE = dyn_cast<ImplicitCastExpr>(P)) {
        if (ICE->getCastKind() == CK_LValueToRValue) {
          if (ICE->getType()->isPointerType() && !elem && !deref) { deref = true; S = P; continue; }
          return "read";
        }
        S = P; continue;
      }
      if (isa<ParenExpr>(P) || isa<ExplicitCastExpr>(P)) { S = P; continue; }
      if (auto *AS = dyn_cast<ArraySubscriptExpr>(P)) {
        if (AS->getBase()->IgnoreParenImpCasts() == cast<Expr>(S)->IgnoreParenImpCasts() || AS->getBase() == S) { elem = true; S = P; continue; }
        return "read";
      }
      if (auto *ME = dyn_cast<MemberExpr>(P)) {
        if (auto *MD = dyn_cast<CXXMethodDecl>(ME->getMemberDecl())) {
          std::string n = MD->getNameAsString();
          return std::string(MD->isConst() ? "ccall:" : "call:") + n;
        }
        // sub-field access: continue classification on the sub-object
        if (isa<FieldDecl>(ME->getMemberDecl())) {
          if (deref) return "read";  // field of pointee: not this object
          S = P; continue;
        }
        return "read";
      }
      if (isa<CXXDeleteExpr>(P)) return "delete";
      if (auto *OC = dyn_cast<CXXOperatorCallExpr>(P)) {
        if (OC->getNumArgs() >= 1 && OC->getArg(0)->IgnoreParenImpCasts() == cast<Expr>(S)->IgnoreParenImpCasts()) {
          if (OC->isAssignmentOp()) return "write";
          if (OC->getOperator() == OO_PlusPlus || OC->getOperator() == OO_MinusMinus) return "inc";
          if (OC->getOperator() == OO_Subscript) { elem = true; S = P; continue; }
        }
        // fallthrough to generic call handling
      }
      if (auto *CE = dyn_cast<CallExpr>(P)) {
        const FunctionDecl *FD = CE->getDirectCallee();
        if (!FD) return deref ? "ptrarg:?" : "read";
        unsigned off = (isa<CXXOperatorCallExpr>(CE) && isa<CXXMethodDecl>(FD)) ? 1 : 0;
        for (unsigned a = 0; a < CE->getNumArgs(); a++) {
          if (CE->getArg(a) != S && CE->getArg(a)->IgnoreParenImpCasts() != cast<Expr>(S)->IgnoreParenImpCasts()) continue;
          if (a < off) break;
          unsigned pi = a - off;
          if (pi >= FD->getNumParams()) break;
          QualType PT = FD->getParamDecl(pi)->getType();
          if (PT->isLValueReferenceType() && !PT->getPointeeType().isConstQualified() && !deref && !elem) return "refarg:" + FD->getNameAsString();
          if (deref && PT->isPointerType() && !PT->getPointeeType().isConstQualified()) return "ptrarg:" + FD->getNameAsString();
          if (!deref && !elem && PT->isPointerType() && !PT->getPointeeType().isConstQualified() && cast<Expr>(S)->getType()->isArrayType()) return "ptrarg:" + FD->getNameAsString();
          break;
        }
        return "read";
      }
      if (auto *CE = dyn_cast<CXXConstructExpr>(P)) { (void)CE; return "read"; }
      break;
    }
    return "read";
  }

  bool VisitMemberExpr(MemberExpr *E) {
    if (!CurEmit) return true;
    auto *FD = dyn_cast<FieldDecl>(E->getMemberDecl());
    if (!FD) return true;
    std::string how = classify(E);
    const Expr *B = E->getBase()->IgnoreParenImpCasts();
    std::string b;
    if (isa<CXXThisExpr>(B)) b = "\"this\"";
    else { Sx sx(X, Cur); b = sx.ex(B, 5); }
    emit("{\"k\":\"fld\",\"in\":" + std::to_string(CurId) + ",\"f\":" + js(qname(FD)) + ",\"how\":" + js(how) + ",\"b\":" + b + ",\"l\":" + std::to_string(X.line(E->getExprLoc())) + lockField(E->getExprLoc()) + "}");
    return true;
  }

  bool VisitDeclRefExpr(DeclRefExpr *E) {
    if (!CurEmit) return true;
    if (auto *VD = dyn_cast<VarDecl>(E->getDecl())) {
      if (VD->hasGlobalStorage() && X.inRepo(VD->getLocation())) {
        std::string how = classify(E);
        emit("{\"k\":\"guse\",\"in\":" + std::to_string(CurId) + ",\"var\":" + js(qname(VD)) + ",\"how\":" + js(how) + ",\"mut\":" + (isMutableType(VD->getType(), X.C) ? "1" : "0") + ",\"l\":" + std::to_string(X.line(E->getExprLoc())) + lockField(E->getExprLoc()) + "}");
      }
      return true;
    }
    if (auto *EC = dyn_cast<EnumConstantDecl>(E->getDecl())) {
      if (!X.inRepo(EC->getLocation())) return true;
      auto *ED = dyn_cast<EnumDecl>(EC->getDeclContext());
      if (!ED) return true;
      std::string ctx = "other", callee;
      const Stmt *S = E;
      for (int i = 0; i < 8; i++) {
        auto Ps = X.C.getParents(*S);
        if (Ps.empty()) break;
        const Stmt *P = Ps[0].get<Stmt>();
        if (!P) { if (Ps[0].get<VarDecl>()) ctx = "asg"; break; }
        if (auto *CE = dyn_cast<CallExpr>(P)) { ctx = "arg"; if (auto *FD = CE->getDirectCallee()) callee = qname(FD); break; }
        if (auto *CE = dyn_cast<CXXConstructExpr>(P)) { ctx = "arg"; callee = qname(CE->getConstructor()); break; }
        if (isa<CXXThrowExpr>(P)) { ctx = "throw"; break; }
        if (isa<CaseStmt>(P)) { ctx = "case"; break; }
        if (isa<ReturnStmt>(P)) { ctx = "ret"; break; }
        if (auto *BO = dyn_cast<BinaryOperator>(P)) {
          if (BO->isComparisonOp()) { ctx = "cmp"; break; }
          if (BO->isAssignmentOp()) { ctx = "asg"; break; }
          if (BO->getOpcode() == BO_Comma) { S = P; continue; }
          ctx = "other"; break;
        }
        if (isa<ImplicitCastExpr>(P) || isa<ParenExpr>(P) || isa<ExplicitCastExpr>(P) || isa<ConditionalOperator>(P) || isa<ConstantExpr>(P) || isa<MaterializeTemporaryExpr>(P) || isa<ExprWithCleanups>(P) || isa<CXXBindTemporaryExpr>(P)) { S = P; continue; }
        break;
      }
      std::string s = "{\"k\":\"enumuse\",\"in\":" + std::to_string(CurId) + ",\"enum\":" + js(qname(ED)) + ",\"name\":" + js(EC->getNameAsString()) + ",\"val\":" + std::to_string(EC->getInitVal().getExtValue()) + ",\"ctx\":" + js(ctx);
      if (!callee.empty()) s += ",\"callee\":" + js(callee);
      s += ",\"l\":" + std::to_string(X.line(E->getExprLoc())) + "}";
      emit(s);
    }
    return true;
  }

  bool VisitCallExpr(CallExpr *E) {
    if (!CurEmit) return true;
    Sx sx(X, Cur);
    const FunctionDecl *FD = E->getDirectCallee();
    std::string full = sx.ex(E, 7);   // ["c", name, recv, args, sig]
    std::string s = "{\"k\":\"call\",\"in\":" + std::to_string(CurId) + ",\"x\":" + full;
    if (FD) {
      if (auto *M = dyn_cast<CXXMethodDecl>(FD)) {
        if (M->isVirtual()) {
          bool qualified = false;
          if (auto *ME = dyn_cast<MemberExpr>(E->getCallee()->IgnoreParenImpCasts())) qualified = ME->hasQualifier();
          if (!qualified) s += ",\"virt\":1";
        }
        s += ",\"ccls\":" + js(qname(M->getParent()));
      }
      if (!X.inRepo(FD->getLocation())) s += ",\"ext\":1";
    }
    s += ",\"l\":" + std::to_string(X.line(E->getExprLoc())) + lockField(E->getExprLoc()) + "}";
    emit(s);
    if (FD) memop(E, FD);
    return true;
  }
  // ---- element-size agreement facts (memcpy family, casted allocations)
  void sizeofTypes(const Expr *E, std::vector<std::string> &out) {
    if (!E) return;
    E = E->IgnoreParenImpCasts();
    if (auto *U = dyn_cast<UnaryExprOrTypeTraitExpr>(E)) {
      if (U->getKind() == UETT_SizeOf) {
        QualType T = U->isArgumentType() ? U->getArgumentType() : U->getArgumentExpr()->getType();
        out.push_back(X.ty(T.getCanonicalType().getUnqualifiedType()));
      }
      return;
    }
    for (const Stmt *C : E->children())
      if (auto *CE = dyn_cast_or_null<Expr>(C)) sizeofTypes(CE, out);
  }
  std::string pointeeOf(const Expr *E) {
    // the pointer type the programmer wrote, before conversion to void*
    E = E->IgnoreParenImpCasts();
    while (auto *C = dyn_cast<ExplicitCastExpr>(E)) {
      if (C->getType()->isVoidPointerType()) E = C->getSubExpr()->IgnoreParenImpCasts(); else break;
    }
    QualType T = E->getType();
    if (T->isArrayType()) return X.ty(X.C.getAsArrayType(T)->getElementType().getCanonicalType().getUnqualifiedType());
    if (T->isPointerType()) return X.ty(T->getPointeeType().getCanonicalType().getUnqualifiedType());
    return "?";
  }
  bool VisitExplicitCastExpr(ExplicitCastExpr *E) {
    if (!CurEmit) return true;
    if (!E->getType()->isPointerType()) return true;
    const Expr *S = E->getSubExpr()->IgnoreParenImpCasts();
    auto *CE = dyn_cast<CallExpr>(S);
    if (!CE) return true;
    const FunctionDecl *FD = CE->getDirectCallee();
    if (!FD || FD->getNameAsString() != "allocate" || CE->getNumArgs() < 1) return true;
    std::vector<std::string> so;
    sizeofTypes(CE->getArg(0), so);
    std::string s = "{\"k\":\"alloccast\",\"in\":" + std::to_string(CurId) + ",\"to\":" + js(X.ty(E->getType()->getPointeeType().getCanonicalType().getUnqualifiedType())) + ",\"sizeofs\":[";
    for (size_t i = 0; i < so.size(); i++) { if (i) s += ","; s += js(so[i]); }
    Sx sx(X, Cur);
    s += "],\"arg\":" + sx.ex(CE->getArg(0), 8) + ",\"l\":" + std::to_string(X.line(E->getExprLoc())) + "}";
    emit(s);
    return true;
  }
  void memop(CallExpr *E, const FunctionDecl *FD) {
    std::string n = FD->getNameAsString();
    if (n != "memcpy" && n != "memmove" && n != "memset" && n != "memcmp") return;
    if (E->getNumArgs() < 3) return;
    std::vector<std::string> so;
    sizeofTypes(E->getArg(2), so);
    Sx sx(X, Cur);
    std::string s = "{\"k\":\"memop\",\"in\":" + std::to_string(CurId) + ",\"fn\":" + js(n) + ",\"dst\":" + js(pointeeOf(E->getArg(0)));
    if (n != "memset") s += ",\"src\":" + js(pointeeOf(E->getArg(1)));
    s += ",\"sizeofs\":[";
    for (size_t i = 0; i < so.size(); i++) { if (i) s += ","; s += js(so[i]); }
    s += "],\"size\":" + sx.ex(E->getArg(2), 8) + ",\"l\":" + std::to_string(X.line(E->getExprLoc())) + "}";
    emit(s);
  }
  bool VisitCXXConstructExpr(CXXConstructExpr *E) {
    if (!CurEmit) return true;
    if (E->getConstructor()->isCopyOrMoveConstructor() && E->getNumArgs() == 1 && !X.inRepo(E->getConstructor()->getLocation())) return true;
    Sx sx(X, Cur);
    std::vector<const Expr *> a(E->arg_begin(), E->arg_end());
    emit("{\"k\":\"ctor\",\"in\":" + std::to_string(CurId) + ",\"type\":" + js(X.ty(E->getType().getUnqualifiedType())) + ",\"a\":" + sx.list(a, 6) + ",\"sig\":" + js(fsig(E->getConstructor(), X)) + ",\"l\":" + std::to_string(X.line(E->getExprLoc())) + lockField(E->getExprLoc()) + "}");
    return true;
  }
  bool VisitCXXNewExpr(CXXNewExpr *E) {
    if (!CurEmit) return true;
    Sx sx(X, Cur);
    emit("{\"k\":\"new\",\"in\":" + std::to_string(CurId) + ",\"x\":" + sx.ex(E, 7) + ",\"l\":" + std::to_string(X.line(E->getExprLoc())) + lockField(E->getExprLoc()) + "}");
    return true;
  }
  bool VisitCXXDeleteExpr(CXXDeleteExpr *E) {
    if (!CurEmit) return true;
    Sx sx(X, Cur);
    emit("{\"k\":\"delete\",\"in\":" + std::to_string(CurId) + ",\"x\":" + sx.ex(E, 6) + ",\"l\":" + std::to_string(X.line(E->getExprLoc())) + lockField(E->getExprLoc()) + "}");
    return true;
  }
  bool VisitCXXThrowExpr(CXXThrowExpr *E) {
    if (!CurEmit) return true;
    Sx sx(X, Cur);
    emit("{\"k\":\"throw\",\"in\":" + std::to_string(CurId) + ",\"x\":" + sx.ex(E, 6) + ",\"l\":" + std::to_string(X.line(E->getExprLoc())) + "}");
    return true;
  }
  bool VisitCXXTryStmt(CXXTryStmt *S) {
    if (!CurEmit) return true;
    std::string s = "{\"k\":\"try\",\"in\":" + std::to_string(CurId) + ",\"h\":[";
    for (unsigned i = 0; i < S->getNumHandlers(); i++) {
      if (i) s += ",";
      auto *H = S->getHandler(i);
      s += H->getExceptionDecl() ? js(X.ty(H->getCaughtType().getNonReferenceType().getUnqualifiedType())) : std::string("\"...\"");
    }
    s += "],\"from\":" + std::to_string(X.line(S->getTryBlock()->getBeginLoc())) + ",\"to\":" + std::to_string(X.line(S->getTryBlock()->getEndLoc())) + ",\"l\":" + std::to_string(X.line(S->getBeginLoc())) + "}";
    emit(s);
    return true;
  }
  bool VisitBinaryOperator(BinaryOperator *E) {
    if (!CurEmit || !E->isAssignmentOp()) return true;
    Sx sx(X, Cur);
    emit("{\"k\":\"asg\",\"in\":" + std::to_string(CurId) + ",\"op\":" + js(E->getOpcodeStr()) + ",\"lhs\":" + sx.ex(E->getLHS(), 6) + ",\"rhs\":" + sx.ex(E->getRHS(), 8) + ",\"l\":" + std::to_string(X.line(E->getExprLoc())) + lockField(E->getExprLoc()) + "}");
    return true;
  }
  bool VisitReturnStmt(ReturnStmt *S) {
    if (!CurEmit || !S->getRetValue()) return true;
    Sx sx(X, Cur);
    emit("{\"k\":\"ret\",\"in\":" + std::to_string(CurId) + ",\"x\":" + sx.ex(S->getRetValue(), 6) + ",\"l\":" + std::to_string(X.line(S->getBeginLoc())) + "}");
    return true;
  }
  bool VisitSwitchStmt(SwitchStmt *S) {
    if (!CurEmit) return true;
    const EnumDecl *ED = nullptr;
    std::vector<std::string> cases;
    bool def = false;
    for (const SwitchCase *SC = S->getSwitchCaseList(); SC; SC = SC->getNextSwitchCase()) {
      if (isa<DefaultStmt>(SC)) { def = true; continue; }
      auto *CS = cast<CaseStmt>(SC);
      const Expr *L = CS->getLHS()->IgnoreParenCasts();
      if (auto *CE = dyn_cast<ConstantExpr>(L)) L = CE->getSubExpr()->IgnoreParenCasts();
      if (auto *DR = dyn_cast<DeclRefExpr>(L))
        if (auto *EC = dyn_cast<EnumConstantDecl>(DR->getDecl())) {
          if (!ED) ED = dyn_cast<EnumDecl>(EC->getDeclContext());
          cases.push_back(EC->getNameAsString());
        }
    }
    if (!ED) {
      // switch over an enum-typed expression with non-enumerator labels? use the condition type
      QualType T = S->getCond()->IgnoreParenImpCasts()->getType();
      if (auto *ET = T->getAs<EnumType>()) ED = ET->getDecl();
    }
    if (!ED) return true;
    Sx sx(X, Cur);
    std::string s = "{\"k\":\"switch\",\"in\":" + std::to_string(CurId) + ",\"enum\":" + js(qname(ED)) + ",\"cond\":" + sx.ex(S->getCond(), 5) + ",\"cases\":[";
    for (size_t i = 0; i < cases.size(); i++) { if (i) s += ","; s += js(cases[i]); }
    s += std::string("],\"default\":") + (def ? "1" : "0") + ",\"l\":" + std::to_string(X.line(S->getBeginLoc())) + "}";
    emit(s);
    return true;
  }

  // ---- CFG dump
  static bool interesting(const Stmt *S) {
    if (isa<CallExpr>(S) || isa<CXXConstructExpr>(S) || isa<CXXNewExpr>(S) || isa<CXXDeleteExpr>(S) || isa<CXXThrowExpr>(S) || isa<ReturnStmt>(S) || isa<DeclStmt>(S) || isa<ArraySubscriptExpr>(S)) return true;
    if (auto *BO = dyn_cast<BinaryOperator>(S)) return BO->isAssignmentOp();
    if (auto *UO = dyn_cast<UnaryOperator>(S)) return UO->isIncrementDecrementOp();
    return false;
  }
  void emitCfg(FunctionDecl *F) {
    CFG::BuildOptions bo;
    bo.setAllAlwaysAdd();
    bo.AddImplicitDtors = true;
    bo.AddTemporaryDtors = false;
    auto cfg = CFG::buildCFG(F, F->getBody(), &X.C, bo);
    if (!cfg) { emit("{\"k\":\"cfg\",\"q\":" + js(qname(F)) + ",\"sig\":" + js(fsig(F, X)) + ",\"error\":\"no cfg\"}"); return; }
    Sx sx(X, F);
    std::string s = "{\"k\":\"cfg\",\"q\":" + js(qname(F)) + ",\"sig\":" + js(fsig(F, X)) + ",\"file\":" + js(X.rel(CurFile)) + ",\"entry\":" + std::to_string(cfg->getEntry().getBlockID()) + ",\"exit\":" + std::to_string(cfg->getExit().getBlockID()) + ",\"blocks\":[";
    bool firstB = true;
    for (auto *B : *cfg) {
      if (!firstB) s += ",";
      firstB = false;
      s += "{\"id\":" + std::to_string(B->getBlockID()) + ",\"succ\":[";
      bool f2 = true;
      for (auto S = B->succ_begin(); S != B->succ_end(); ++S) {
        if (!f2) s += ",";
        f2 = false;
        const CFGBlock *N = S->getReachableBlock();
        if (!N) N = S->getPossiblyUnreachableBlock();
        s += N ? std::to_string(N->getBlockID()) : std::string("null");
      }
      s += "]";
      if (B->hasNoReturnElement()) s += ",\"noret\":1";
      if (const Stmt *L = B->getLabel()) {
        if (auto *CS = dyn_cast<CaseStmt>(L)) {
          s += ",\"label\":[\"case\"," + sx.ex(CS->getLHS(), 4) + "]";
        } else if (isa<DefaultStmt>(L)) s += ",\"label\":[\"default\"]";
      }
      s += ",\"els\":[";
      bool f3 = true;
      for (auto &El : *B) {
        if (auto CS = El.getAs<CFGStmt>()) {
          const Stmt *St = CS->getStmt();
          if (!interesting(St)) continue;
          if (!f3) s += ",";
          f3 = false;
          if (auto *DS = dyn_cast<DeclStmt>(St)) {
            s += "{\"decl\":[";
            bool f4 = true;
            for (auto *D : DS->decls())
              if (auto *VD = dyn_cast<VarDecl>(D)) {
                if (!f4) s += ",";
                f4 = false;
                s += "[" + js(VD->getNameAsString()) + "," + js(X.ty(VD->getType())) + "," + (VD->getInit() ? sx.ex(VD->getInit(), 10) : std::string("null")) + "]";
              }
            s += "],\"l\":" + std::to_string(X.line(St->getBeginLoc())) + "}";
          } else if (auto *RS = dyn_cast<ReturnStmt>(St)) {
            s += "{\"ret\":" + (RS->getRetValue() ? sx.ex(RS->getRetValue(), 10) : std::string("null")) + ",\"l\":" + std::to_string(X.line(St->getBeginLoc())) + "}";
          } else {
            s += "{\"x\":" + sx.ex(cast<Expr>(St), 10) + ",\"l\":" + std::to_string(X.line(cast<Expr>(St)->getExprLoc()));
            if (isa<ArraySubscriptExpr>(St)) {
              // context of the element access: address taken (&a[i]) or stored to (a[i] = v)
              const Stmt *Cur2 = St;
              for (int up = 0; up < 3; up++) {
                auto Ps = X.C.getParents(*Cur2);
                if (Ps.empty()) break;
                const Stmt *P = Ps[0].get<Stmt>();
                if (!P) break;
                if (auto *UO = dyn_cast<UnaryOperator>(P)) { if (UO->getOpcode() == UO_AddrOf) s += ",\"addr\":1"; break; }
                if (auto *BO = dyn_cast<BinaryOperator>(P)) { if (BO->isAssignmentOp() && BO->getLHS()->IgnoreParenImpCasts() == cast<Expr>(Cur2)->IgnoreParenImpCasts()) s += ",\"store\":1"; break; }
                if (isa<ParenExpr>(P)) { Cur2 = P; continue; }
                break;
              }
            }
            s += "}";
          }
        } else if (auto AD = El.getAs<CFGAutomaticObjDtor>()) {
          if (!f3) s += ",";
          f3 = false;
          s += "{\"dtor\":" + js(AD->getVarDecl()->getNameAsString()) + ",\"type\":" + js(X.ty(AD->getVarDecl()->getType())) + "}";
        }
      }
      s += "]";
      if (const Stmt *T = B->getTerminatorStmt()) {
        std::string kind = T->getStmtClassName();
        s += ",\"term\":{\"kind\":" + js(kind) + ",\"l\":" + std::to_string(X.line(T->getBeginLoc()));
        if (const Stmt *Cnd = B->getTerminatorCondition()) {
          if (auto *CE = dyn_cast<Expr>(Cnd)) {
            // deciding leaf: descend through parens and logical operators to the right-most operand
            const Expr *c = CE;
            while (true) {
              const Expr *cc = c->IgnoreParenImpCasts();
              if (auto *EWC = dyn_cast<ExprWithCleanups>(cc)) { c = EWC->getSubExpr(); continue; }
              auto *bo2 = dyn_cast<BinaryOperator>(cc);
              if (bo2 && bo2->isLogicalOp()) c = bo2->getRHS(); else { c = cc; break; }
            }
            s += ",\"cond\":" + sx.ex(c, 10);
          }
        }
        s += "}";
      }
      s += "}";
    }
    s += "]}";
    emit(s);
  }

  // ---- structured statement tree
  std::string st(const Stmt *S, Sx &sx, int d = 40) {
    if (!S) return "null";
    if (d <= 0) return "[\"...\"]";
    std::string l = std::to_string(X.line(S->getBeginLoc()));
    if (auto *CS = dyn_cast<CompoundStmt>(S)) {
      std::string s = "[\"block\",[";
      bool first = true;
      for (auto *c : CS->body()) { if (!first) s += ","; first = false; s += st(c, sx, d - 1); }
      return s + "]]";
    }
    if (auto *IS = dyn_cast<IfStmt>(S)) {
      std::string s = "[\"if\"," + sx.ex(IS->getCond(), 12) + "," + st(IS->getThen(), sx, d - 1) + "," + st(IS->getElse(), sx, d - 1) + "," + l + "]";
      return s;
    }
    if (auto *WS = dyn_cast<WhileStmt>(S)) return "[\"while\"," + sx.ex(WS->getCond(), 12) + "," + st(WS->getBody(), sx, d - 1) + "," + l + "]";
    if (auto *DS = dyn_cast<DoStmt>(S)) return "[\"do\"," + sx.ex(DS->getCond(), 12) + "," + st(DS->getBody(), sx, d - 1) + "," + l + "]";
    if (auto *FS = dyn_cast<ForStmt>(S)) return "[\"for\"," + st(FS->getInit(), sx, d - 1) + "," + sx.ex(FS->getCond(), 12) + "," + sx.ex(FS->getInc(), 12) + "," + st(FS->getBody(), sx, d - 1) + "," + l + "]";
    if (auto *SS = dyn_cast<SwitchStmt>(S)) return "[\"switch\"," + sx.ex(SS->getCond(), 12) + "," + st(SS->getBody(), sx, d - 1) + "," + l + "]";
    if (auto *CS = dyn_cast<CaseStmt>(S)) return "[\"case\"," + sx.ex(CS->getLHS(), 6) + "," + st(CS->getSubStmt(), sx, d - 1) + "," + l + "]";
    if (auto *DS = dyn_cast<DefaultStmt>(S)) return "[\"default\"," + st(DS->getSubStmt(), sx, d - 1) + "," + l + "]";
    if (isa<BreakStmt>(S)) return "[\"break\"," + l + "]";
    if (isa<ContinueStmt>(S)) return "[\"continue\"," + l + "]";
    if (auto *RS = dyn_cast<ReturnStmt>(S)) return "[\"return\"," + sx.ex(RS->getRetValue(), 12) + "," + l + "]";
    if (auto *DS = dyn_cast<DeclStmt>(S)) {
      std::string s = "[\"decl\",[";
      bool first = true;
      for (auto *D : DS->decls())
        if (auto *VD = dyn_cast<VarDecl>(D)) {
          if (!first) s += ",";
          first = false;
          std::string cap = "null";
          if (auto *AT = X.C.getAsConstantArrayType(VD->getType())) cap = std::to_string(AT->getSize().getZExtValue());
          s += "[" + js(VD->getNameAsString()) + "," + js(X.ty(VD->getType())) + "," + (VD->getInit() ? sx.ex(VD->getInit(), 12) : std::string("null")) + "," + cap + "]";
        }
      return s + "]," + l + "]";
    }
    if (auto *TS = dyn_cast<CXXTryStmt>(S)) {
      std::string s = "[\"try\"," + st(TS->getTryBlock(), sx, d - 1) + ",[";
      for (unsigned i = 0; i < TS->getNumHandlers(); i++) {
        if (i) s += ",";
        auto *H = TS->getHandler(i);
        s += "[" + (H->getExceptionDecl() ? js(X.ty(H->getCaughtType().getNonReferenceType().getUnqualifiedType())) : std::string("\"...\"")) + "," + st(H->getHandlerBlock(), sx, d - 1) + "]";
      }
      return s + "]," + l + "]";
    }
    if (isa<NullStmt>(S)) return "[\"null\"]";
    if (auto *LS = dyn_cast<LabelStmt>(S)) return st(LS->getSubStmt(), sx, d - 1);
    if (auto *E = dyn_cast<Expr>(S)) return "[\"expr\"," + sx.ex(E, 14) + "," + std::to_string(X.line(E->getExprLoc())) + "]";
    return "[\"?\"," + js(S->getStmtClassName()) + "]";
  }
  void emitSt(FunctionDecl *F) {
    Sx sx(X, F);
    emit("{\"k\":\"st\",\"q\":" + js(qname(F)) + ",\"sig\":" + js(fsig(F, X)) + ",\"file\":" + js(X.rel(CurFile)) + ",\"line\":" + std::to_string(X.line(F->getLocation())) + ",\"body\":" + st(F->getBody(), sx) + "}");
  }
};

struct Cons : ASTConsumer {
  void HandleTranslationUnit(ASTContext &C) override {
    if (C.getDiagnostics().hasUncompilableErrorOccurred()) {
      llvm::errs() << "xa: compile errors in TU\n";
    }
    auto &SM = C.getSourceManager();
    auto FE = SM.getFileEntryForID(SM.getMainFileID());
    Out.mainFile = FE ? FE->tryGetRealPathName().str() : "";
    if (Out.mainFile.empty() && FE) Out.mainFile = FE->getName().str();
    // restrict traversal (and the parent map) to declarations from the repository
    std::vector<Decl *> scope;
    Ctx X(C);
    std::function<void(DeclContext *)> collect = [&](DeclContext *DC) {
      for (auto *D : DC->decls()) {
        if (auto *NS = dyn_cast<NamespaceDecl>(D)) {
          collect(NS);
          continue;
        }
        if (auto *LS = dyn_cast<LinkageSpecDecl>(D)) { collect(LS); continue; }
        if (X.inRepo(D->getLocation())) scope.push_back(D);
      }
    };
    collect(C.getTranslationUnitDecl());
    C.setTraversalScope(scope);
    FactVisitor v(C);
    for (auto *D : scope) v.TraverseDecl(D);
    // a marker so the driver knows this unit was parsed to the end
    Out.put(Out.mainFile, "{\"k\":\"unit\",\"file\":" + js(X.rel(Out.mainFile)) + ",\"errors\":" + (C.getDiagnostics().hasUncompilableErrorOccurred() ? "1" : "0") + "}");
    Out.close_all();
  }
};
struct Act : ASTFrontendAction {
  std::unique_ptr<ASTConsumer> CreateASTConsumer(CompilerInstance &CI, StringRef) override {
    CI.getDiagnostics().setSuppressAllDiagnostics(false);
    CI.getDiagnostics().setIgnoreAllWarnings(true);
    return std::make_unique<Cons>();
  }
};

int main(int argc, const char **argv) {
  if (const char *r = getenv("XA_ROOT")) Root = r;
  while (Root.size() > 1 && Root.back() == '/') Root.pop_back();
  if (const char *o = getenv("XA_OUT")) OutDir = o;
  if (const char *f = getenv("XA_FLAT")) Flat = std::string(f) != "0";
  if (const char *c = getenv("XA_CFG")) if (*c) { ReCfg = std::regex(c); HaveCfg = true; }
  if (const char *c = getenv("XA_ST")) if (*c) { ReSt = std::regex(c); HaveSt = true; }
  if (const char *c = getenv("XA_TABLES")) if (*c) { ReTab = std::regex(c); HaveTab = true; }
  auto P = CommonOptionsParser::create(argc, argv, Cat);
  if (!P) { llvm::errs() << P.takeError(); return 2; }
  ClangTool T(P->getCompilations(), P->getSourcePathList());
  return T.run(newFrontendActionFactory<Act>().get());
}
