#!/usr/bin/env python3
"""Generate rules/diag.json (DIAG components per property) and the DIAG
baselines from the tree at /repo.  Run by hand on the pinned tree only; the
result is reviewed and committed.  Checks never call it.

A component = (class, diagnostic enums, optional filter).  The translation
units of a component are the .cpp files that define member functions of the
class or of its base classes, plus the explicit `tu` for header-only classes.
"""
import json
import os
import sys

sys.path.insert(0, os.path.dirname(os.path.dirname(os.path.abspath(__file__))))
from verif import core
from verif.engines import diag

E, V, X = "XMLErrs::Codes", "XMLValid::Codes", "XMLExcepts::Codes"
D, DM = "DOMException::ExceptionCode", "XMLDOMMsg::Codes"
DR, DL, DX = "DOMRangeException::RangeExceptionCode", "DOMLSException::LSExceptionCode", "DOMXPathException::ExceptionCode"

NS_CODES = ["AttrAlreadyUsedInSTag", "UnknownPrefix", "ColonNotLegalWithNS", "NoEmptyStrNamespace", "NoUseOfxmlnsAsPrefix",
            "NoUseOfxmlnsURI", "PrefixXMLNotMatchXMLURI", "XMLURINotMatchXMLPrefix", "NoXMLNSAsElementPrefix",
            "UnresolvedPrefix", "NAMESPACE_ERR", "ElemStack_NoParentPushed", "ElemStack_StackUnderflow",
            "ElemStack_EmptyStack", "ElemStack_BadIndex"]
ENT_CODES = ["EntityExpansionLimitExceeded", "RecursiveEntity", "PartialMarkupInEntity", "UnbalancedStartEndTagInEntity",
             "Gen_CouldNotOpenExtEntity", "Gen_CouldNotOpenDTD", "Scan_CouldNotOpenSource", "Scan_CouldNotOpenSource_Warning",
             "InvalidCharacterInAttrValue", "NoExtRefsInAttValue", "NoUnparsedEntityRefs", "IllegalRefInStandalone",
             "EntityNotFound", "VC_EntityNotFound", "VC_IllegalRefInStandalone", "DTDEntityNotFound"]


def c(cls, enums, floor=1, **kw):
    d = {"class": cls, "enums": enums, "floor": floor}
    d.update(kw)
    return d


SCANNERS = ["IGXMLScanner", "DGXMLScanner", "SGXMLScanner", "WFXMLScanner"]
DOM_MUT = ["DOMParentNode", "DOMNodeImpl", "DOMAttrMapImpl", "DOMNamedNodeMapImpl", "DOMElementImpl", "DOMElementNSImpl",
           "DOMAttrImpl", "DOMAttrNSImpl", "DOMCharacterDataImpl", "DOMTextImpl", "DOMCDATASectionImpl", "DOMCommentImpl",
           "DOMProcessingInstructionImpl", "DOMDocumentImpl", "DOMDocumentTypeImpl", "DOMDocumentFragmentImpl",
           "DOMEntityImpl", "DOMEntityReferenceImpl", "DOMNotationImpl", "DOMImplementationImpl", "DOMConfigurationImpl"]
DV = ["AbstractNumericFacetValidator", "AbstractNumericValidator", "AbstractStringValidator", "AnySimpleTypeDatatypeValidator",
      "AnyURIDatatypeValidator", "Base64BinaryDatatypeValidator", "BooleanDatatypeValidator", "DateTimeValidator",
      "DecimalDatatypeValidator", "DoubleDatatypeValidator", "FloatDatatypeValidator", "ENTITYDatatypeValidator",
      "HexBinaryDatatypeValidator", "IDDatatypeValidator", "IDREFDatatypeValidator", "ListDatatypeValidator",
      "NCNameDatatypeValidator", "NOTATIONDatatypeValidator", "NameDatatypeValidator", "QNameDatatypeValidator",
      "StringDatatypeValidator", "UnionDatatypeValidator", "XMLDateTime", "XMLBigDecimal", "XMLBigInteger",
      "XMLAbstractDoubleFloat", "XMLUri"]

SPEC = {
    "C01": [c(k, [X], tu=t) for k, t in [
        ("BaseRefVectorOf", "src/xercesc/internal/ReaderMgr.cpp"), ("ValueVectorOf", "src/xercesc/internal/IGXMLScanner.cpp"),
        ("RefStackOf", "src/xercesc/internal/ReaderMgr.cpp"), ("ValueStackOf", "src/xercesc/internal/IGXMLScanner.cpp"),
        ("RefArrayOf", "src/xercesc/validators/DTD/DTDScanner.cpp"), ("RefHashTableOf", "src/xercesc/internal/IGXMLScanner.cpp"),
        ("RefHash2KeysTableOf", "src/xercesc/internal/IGXMLScanner.cpp"), ("RefHash3KeysIdPool", "src/xercesc/internal/IGXMLScanner.cpp"),
        ("NameIdPool", "src/xercesc/internal/IGXMLScanner.cpp"), ("ValueHashTableOf", "src/xercesc/internal/IGXMLScanner.cpp"),
        ("RefArrayVectorOf", "src/xercesc/internal/IGXMLScanner.cpp"), ("Hash2KeysSetOf", "src/xercesc/validators/schema/TraverseSchema.cpp"),
    ]] + [c("ElemStack", [X]), c("WFElemStack", [X]), c("XMLBuffer", [X]), c("XMLBufferMgr", [X]), c("CMStateSet", [X], tu="src/xercesc/validators/common/DFAContentModel.cpp"),
          c("XMLStringPool", [X]), c("XMLString", [X])],
    "C03": [
        c("SAXParser", [], calls=["DocumentHandler", "DTDHandler", "ErrorHandler", "EntityResolver", "XMLEntityResolver", "XMLDocumentHandler", "Attributes", "VecAttrListImpl"], floor=10),
        c("SAX2XMLReaderImpl", [], calls=["ContentHandler", "DTDHandler", "LexicalHandler", "DeclHandler", "ErrorHandler", "EntityResolver", "XMLEntityResolver", "XMLDocumentHandler"], floor=20),
        c("AbstractDOMParser", [], calls=["DOMDocument", "DOMDocumentImpl", "DOMParentNode", "DOMElement", "DOMElementImpl", "DOMElementNSImpl", "DOMNode", "DOMAttr", "DOMAttrImpl",
                                          "DOMAttrMapImpl", "DOMDocumentTypeImpl", "DOMDocumentType", "DOMEntityImpl", "DOMNotationImpl", "DOMEntityReferenceImpl", "DOMTextImpl",
                                          "DOMNamedNodeMap", "DOMTypeInfoImpl", "DOMCharacterData", "DOMText", "DOMNodeIDMap", "DOMImplementation"], floor=25),
        c("DOMLSParserImpl", [], calls=["DOMLSParserFilter", "DOMErrorHandler", "DOMLSResourceResolver", "DOMNode", "DOMDocument", "DOMDocumentImpl", "DOMParentNode"], floor=6),
        c("XSDDOMParser", [], calls=["DOMDocument", "DOMDocumentImpl", "DOMParentNode", "DOMElement", "DOMElementImpl", "DOMNode", "XMLErrorReporter", "DOMAttrMapImpl"], floor=4),
    ] + [c(s_, [], calls=["XMLDocumentHandler", "DocTypeHandler", "XMLEntityHandler", "PSVIHandler", "XMLErrorReporter"], floor=8, key=s_ + "/events") for s_ in SCANNERS]
      + [c("DTDScanner", [], calls=["DocTypeHandler", "XMLDocumentHandler", "XMLEntityHandler"], floor=10, key="DTDScanner/events")],
    "C05": [c("XMLUTF8Transcoder", [X], floor=5), c("XMLUCS4Transcoder", [X]), c("XMLASCIITranscoder", [X]),
            c("XML88591Transcoder", [X]), c("XML256TableTranscoder", [X]), c("ICUTranscoder", [X]),
            c("XMLRecognizer", [X]), c("XMLReader", [X, E], floor=3), c("TranscodeFromStr", [X]), c("TranscodeToStr", [X]),
            c("XMLScanner", [E], names=["BadXMLEncoding", "EncodingRequired", "UnsupportedXMLVersion", "ContradictoryEncoding"])],
    "C06": [c(s, [E], names=NS_CODES, floor=3) for s in SCANNERS] +
           [c("ElemStack", [X], names=NS_CODES), c("WFElemStack", [X], names=NS_CODES),
            c("DOMElementNSImpl", [D], names=NS_CODES), c("DOMAttrNSImpl", [D], names=NS_CODES),
            c("DOMDocumentImpl", [D], names=NS_CODES), c("DOMNodeImpl", [D], names=NS_CODES),
            c("DOMNormalizer", [E])],
    "C07": [c("DTDValidator", [V, E, X], floor=10), c("IGXMLScanner", [V], floor=10), c("DGXMLScanner", [V], floor=8),
            c("DTDScanner", [V], floor=4), c("XMLScanner", [V]), c("DFAContentModel", [V, X]), c("SimpleContentModel", [V, X]),
            c("MixedContentModel", [V, X]), c("DTDElementDecl", [X]), c("ValidationContextImpl", [X]),
            c("CMUnaryOp", [X]), c("CMBinaryOp", [X]), c("CMAny", [X])],
    "C08": [c("SchemaValidator", [V, E, X], floor=30), c("SGXMLScanner", [V], floor=10), c("IGXMLScanner", [V], floor=10),
            c("XSAXMLScanner", [V, E]), c("TraverseSchema", [E, V, X], floor=100), c("GeneralAttributeCheck", [E]),
            c("ComplexTypeInfo", [X]), c("AllContentModel", [V, X]), c("SubstitutionGroupComparator", [X]),
            c("SchemaElementDecl", [X]), c("XSDDOMParser", [V])],
    "C09": [c(k, [X]) for k in DV],
    "C10": [c("ValueStore", [V], floor=8), c("XercesXPath", [X], floor=10), c("XPathScanner", [X]),
            c("XPathScannerForSchema", [X]), c("XPathMatcher", [X]),
            c("TraverseSchema", [E], prefixes=["IC_", "KeyRef", "XPath"], names=["TypeNotFound"])],
    "C11": [c("RegxParser", [X, E], floor=10), c("ParserForXMLSchema", [X]), c("RegularExpression", [X], floor=4),
            c("RangeToken", [X]), c("Token", [X]), c("Op", [X]), c("Match", [X]), c("RangeTokenMap", [X])],
    "C12": [c("DOMLSSerializerImpl", [DM, D, DL], floor=4), c("XMLFormatter", [X])],
    "C13": [c(k, [D]) for k in DOM_MUT],
    "C14": [c("DOMRangeImpl", [D, DR], floor=5), c("DOMNodeIteratorImpl", [D]), c("DOMTreeWalkerImpl", [D]),
            c("DOMXPathExpressionImpl", [DX, D]), c("DOMXPathResultImpl", [DX])],
    "C15": [c("XMLScanner", [X]), c("XMLGrammarPoolImpl", [X]), c("DOMLSParserImpl", [D, DM, DL])],
    "C16": [c("XSerializeEngine", [X], floor=10), c("XProtoType", [X]), c("XMLGrammarPoolImpl", [X])],
    "C19": [c(s, [E, X, V], names=ENT_CODES, floor=3) for s in SCANNERS] +
           [c("DTDScanner", [E, X, V], names=ENT_CODES, floor=3), c("XMLScanner", [E, X, V], names=ENT_CODES),
            c("ReaderMgr", [X]), c("XMLURL", [X], floor=5), c("XMLUri", [X], floor=5), c("CurlURLInputStream", [X])],
    "C20": [c("XIncludeUtils", [E], floor=10)],
}


def main():
    only = sys.argv[1:]  # property ids to regenerate (default: all in SPEC); C02 is kept as it is
    rules = json.load(open(diag.RULES))
    f = core.run_xa(core.library_tus())
    for prop, comps in SPEC.items():
        if only and prop not in only:
            continue
        out = []
        for comp in comps:
            S = comp["class"]
            fam = [S] + diag._bases(f, S)
            files = set()
            for q, fns in f.by_q.items():
                for fn in fns:
                    if fn.get("cls") in fam:
                        files.add(fn["file"])
            tus = sorted(x for x in files if x.endswith(".cpp"))
            if comp.get("tu"):
                tus = sorted(set(tus) | {comp.pop("tu")})
            if not tus:
                print("!! no TU for", S, sorted(files))
                continue
            comp["tus"] = tus
            out.append(comp)
        rules[prop] = {"components": out}
    json.dump(rules, open(diag.RULES, "w"), indent=1)
    # baselines from the same whole-library facts (closure never leaves the class family, so the
    # matrix computed from the component's own TUs is identical; verified by running the checks)
    for prop in SPEC:
        if only and prop not in only:
            continue
        outb = diag.rebaseline(prop, f)
        for S, b in outb.items():
            codes = set(cc for v in b["closure"].values() for cc in v)
            print(prop, S, "roles", len(b["closure"]), "codes", len(codes))
            if not codes:
                print("   !! empty component", S)


main()
