#!/usr/bin/env python3
"""Regenerate confirmed baselines from the tree at /repo.  Run by hand on the
pinned tree only; the output is reviewed and committed.  Checks never call it."""
import json, os, sys
sys.path.insert(0, os.path.dirname(os.path.dirname(os.path.abspath(__file__))))
from verif import core
from verif.engines import diag

def main():
    what = sys.argv[1]
    if what.startswith("diag:"):
        prop = what[5:]
        f = core.run_xa(diag.tus_for(prop))
        out = diag.rebaseline(prop, f)
        for S, b in out.items():
            codes = set(c for v in b["closure"].values() for c in v)
            print(S, "roles", len(b["closure"]), "codes", len(codes), "direct fns", len(b["direct"]))
    elif what == "xmlerrs_fatal":
        f = core.run_xa([core.REPO + "/src/xercesc/internal/XMLScanner.cpp"], flat=False)
        it = f.enums["XMLErrs::Codes"]["items"]
        d = dict(it)
        fatal = [n for n, v in it if d["F_LowBounds"] < v < d["F_HighBounds"]]
        json.dump({"fatal": fatal}, open(os.path.join(core.VERIF, "baselines", "xmlerrs_fatal.json"), "w"), indent=0)
        print(len(fatal))
main()
