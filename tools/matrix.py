#!/usr/bin/env python3
"""Developer tool: detection matrix of the seeded changes.  For every <dir>/patch.diff given, apply it to a scratch
worktree (never /repo), run every claimed check with --root, record which checks report a violation.
   tools/matrix.py <worktree> <out.json> <change dir>..."""
import json, os, subprocess, sys
from concurrent.futures import ThreadPoolExecutor
wt, out = sys.argv[1], sys.argv[2]
dirs = sys.argv[3:]
ids = [c["property_id"] for c in json.load(open("/verif/MANIFEST.json"))["checks"]]
if os.environ.get("MATRIX_IDS"):       # re-run only these checks and merge into the existing rows
    ids = [i for i in ids if i in os.environ["MATRIX_IDS"].split(",")]
res = json.load(open(out)) if os.path.exists(out) else {}
env = dict(os.environ, VERIF_OUT="/tmp/wt/matrix-out")
for d in dirs:
    p = os.path.join(d, "patch.diff")
    if not os.path.exists(p):
        continue
    subprocess.run(["git", "-C", wt, "checkout", "--", "."], check=True)
    r = subprocess.run(["git", "-C", wt, "apply", p], capture_output=True, text=True)
    if r.returncode:
        r = subprocess.run(["patch", "-p1", "--fuzz=3", "-d", wt, "-i", p], capture_output=True, text=True)
        if r.returncode:
            res[d] = {"error": "patch does not apply"}
            continue
    row = dict(res.get(d, {})) if os.environ.get("MATRIX_IDS") and isinstance(res.get(d), dict) else {}
    def one(i):
        r = subprocess.run(["./check", i, "--root", wt], cwd="/verif", capture_output=True, text=True, env=env)
        lines = [l for l in r.stdout.splitlines() if l.strip().startswith("violation:")]
        return i, {"exit": r.returncode, "violations": lines[:4]}
    k, v = one(ids[0])          # the first run fills the fact cache for this tree
    row[k] = v
    with ThreadPoolExecutor(14) as ex:
        for k, v in ex.map(one, ids[1:]):
            row[k] = v
    res[d] = row
    json.dump(res, open(out, "w"), indent=1)
    print(d, {i: v["exit"] for i, v in row.items() if v["exit"]}, flush=True)
subprocess.run(["git", "-C", wt, "checkout", "--", "."])
