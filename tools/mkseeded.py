#!/usr/bin/env python3
"""Developer tool: file the confirmed seeded changes under /verif/seeded/<id>/<change>/.
   tools/mkseeded.py <matrix_results.json> <outroot>[=<prefix>] ...   (dirs <outroot>/out-Cxx/changeN -> seeded/Cxx/<prefix>changeN)
Each change keeps patch.diff, the demonstration (demo.cpp, demo.sh if any), the author's README.md and meta.json
(property, what it needs to manifest, what was run to confirm it, which checks report it)."""
import glob, json, os, re, shutil, sys
matrix = json.load(open(sys.argv[1]))
V = os.path.dirname(os.path.dirname(os.path.abspath(__file__)))
dirs = []
for a in sys.argv[2:]:
    root, _, prefix = a.partition("=")
    dirs += [(d, prefix) for d in sorted(glob.glob(os.path.join(root, "out-C*", "change*")))]
for d, prefix in dirs:
    pid = re.search(r"out-(C\d\d)", d).group(1)
    ch = prefix + os.path.basename(d)
    conf = open(os.path.join(d, "CONFIRM.txt")).read().strip() if os.path.exists(os.path.join(d, "CONFIRM.txt")) else ""
    m = re.search(r"pristine_demo_exit=(\d+) patched_demo_exit=(\d+) ctest_exit=(\d+) \((.*)\)", conf)
    if not m:
        print("skip (not confirmed)", d)
        continue
    dst = os.path.join(V, "seeded", pid, ch)
    os.makedirs(dst, exist_ok=True)
    for f in ("patch.diff", "demo.cpp", "demo.sh", "README.md", "schema.xsd", "doc.xml", "ext.dtd"):
        if os.path.exists(os.path.join(d, f)):
            shutil.copy(os.path.join(d, f), os.path.join(dst, f))
    if os.path.isdir(os.path.join(d, "files")):
        shutil.copytree(os.path.join(d, "files"), os.path.join(dst, "files"), dirs_exist_ok=True)
    readme = open(os.path.join(d, "README.md")).read()
    title = readme.splitlines()[0].lstrip("# ").strip()
    sec = re.search(r"^##[^\n]*(?:needs|needed)[^\n]*manifest[^\n]*\n(.*?)(?=^## |\Z)", readme, re.S | re.M | re.I)
    if not sec:
        sec = re.search(r"^#+[^\n]*(?:manifest|trigger|needs)[^\n]*\n(.*?)(?=^#+ |\Z)", readme, re.S | re.M | re.I)
    if not sec:
        sec = re.search(r"(?:needs|manifest)[^\n]*:\*?\*?(.*?)(?=\n\n|\Z)", readme, re.S | re.I)
    needs = re.sub(r"\s+", " ", sec.group(1)).strip() if sec else ""
    row = matrix.get(d, {})
    caught = {}
    for cid, r in sorted(row.items()):
        if isinstance(r, dict) and r.get("exit") == 1:
            caught[cid] = [re.sub(r"^\s*violation: ", "", v)[:400] for v in r["violations"][:2]]
    broken = [cid for cid, r in row.items() if isinstance(r, dict) and r.get("exit") not in (0, 1)]
    files = re.findall(r"^\+\+\+ b/(\S+)", open(os.path.join(d, "patch.diff")).read(), re.M)
    pristine, patched, ctest = int(m.group(1)), int(m.group(2)), int(m.group(3))
    meta = {
        "property": pid,
        "change": ch,
        "title": title,
        "files": files,
        "needs_to_manifest": needs[:1500],
        "confirmed": {
            "how": "scratch worktree of /repo (never /repo itself): library built at HEAD, demo.cpp compiled against it and run "
                   "(pristine); patch.diff applied, library rebuilt, demo rebuilt and run (patched); full ctest suite run on the patched build",
            "demo_exit_pristine": pristine,
            "demo_exit_patched": patched,
            "ctest_exit_patched": ctest,
            "ctest_summary": m.group(4),
        },
        "static_checks_run": "every claimed check, ./check <ID> --root <scratch worktree with the patch applied> (tools/matrix.py)",
        "caught_by": caught,
        "analysis_broken_in": broken,
        "caught": bool(caught),
    }
    extra = os.path.join(V, "seeded", "notes", "%s-%s.json" % (pid, ch))
    if os.path.exists(extra):
        meta.update(json.load(open(extra)))
    json.dump(meta, open(os.path.join(dst, "meta.json"), "w"), indent=1)
    print(pid, ch, "caught by", sorted(caught) or "-")
