#!/usr/bin/env python3
"""Generate rules/dispatch.json and baselines/dispatch.json from /repo (pinned tree only; reviewed, committed)."""
import json, os, sys
sys.path.insert(0, os.path.dirname(os.path.dirname(os.path.abspath(__file__))))
from verif import core
from verif.engines import dispatch
ASSIGN = {
 "C02": ["IGXMLScanner::scanNext", "IGXMLScanner::scanContent", "DGXMLScanner::scanNext", "DGXMLScanner::scanContent", "SGXMLScanner::scanNext",
         "SGXMLScanner::scanContent", "WFXMLScanner::scanNext", "WFXMLScanner::scanContent"],
 "C03": ["AbstractDOMParser::startElement", "AbstractDOMParser::attDef"],
 "C05": ["XMLReader::XMLReader", "XMLReader::doInitDecode"],
 "C07": ["SimpleContentModel::validateContent", "SimpleContentModel::validateContentSpecial", "formatNode", "DTDElementDecl::getCharDataOpts"],
 "C08": ["SchemaValidator::checkParticleDerivationOk", "SchemaElementDecl::getCharDataOpts", "GeneralAttributeCheck::validate", "XSComplexTypeDefinition::getContentType"],
 "C09": ["XSValue::validate", "XSValue::getCanonicalRepresentation", "XSValue::getActualValue", "XSValue::validateNumerics", "XSValue::validateDateTimes",
         "XSValue::validateStrings", "XSValue::getCanRepNumerics", "XSValue::getCanRepDateTimes", "XSValue::getCanRepStrings", "XSValue::getActValNumerics",
         "XSValue::getActValDateTimes", "XSValue::getActValStrings", "XSValue::getActualNumericValue", "XMLAbstractDoubleFloat::formatString",
         "XMLAbstractDoubleFloat::compareSpecial", "DatatypeValidator::getWSstring", "Base64::decode"],
 "C10": ["ValueStore::duplicateValue", "XercesXPath::parseExpression", "XPathScanner::scanExpression", "XSIDCDefinition::getCategory"],
 "C11": ["RegularExpression::match", "RegularExpression::compile", "RegularExpression::doTokenOverlap", "Token::getMinLength", "Token::getMaxLength",
         "Token::analyzeFirstCharacter", "Token::findFixedString", "RegxParser::parseFactor", "RegxParser::parseAtom", "UnicodeRangeFactory::getUniCategory"],
 "C13": ["DOMDocumentImpl::importNode", "DOMDocumentImpl::adoptNode", "DOMDocumentImpl::renameNode", "DOMNodeImpl::setTextContent", "DOMNodeImpl::getTextContent",
         "DOMNodeImpl::setReadOnly", "DOMNormalizer::normalizeNode"],
 "C14": ["DOMRangeImpl::compareBoundaryPoints", "DOMRangeImpl::hasLegalRootContainer", "DOMRangeImpl::isLegalContainedNode",
         "DOMRangeImpl::traverseFullySelected", "DOMRangeImpl::traversePartiallySelected"],
 "C16": ["DatatypeValidator::loadDV", "IdentityConstraint::loadIC", "XMLNumber::loadNumber", "XMLElementDecl::loadElementDecl", "Grammar::loadGrammar"],
}
f = core.library_facts()
t = dispatch.table(f)
json.dump({q: {e: sorted(c) for e, c in v.items()} for q, v in sorted(t.items())}, open(dispatch.BASE, "w"), indent=0, sort_keys=True)
for p, qs in ASSIGN.items():
    for q in qs:
        if q not in t:
            print("!! no switch in", q)
json.dump(ASSIGN, open(dispatch.RULES, "w"), indent=1)
print({p: sum(len(c) for q in qs for c in t.get(q, {}).values()) for p, qs in ASSIGN.items()})
